"""C08 — prior transforms: correspondence of TaurexModel/Priors.lean with taurex.core.priors (constructors, sample, prior,
boundaries), with the default prior of taurex.optimizer.optimizer.compile_params, and of the text syntax
(parse_priors / create_prior) with parsePrior / createPrior; plus the property's own predicates on the real code:
monotone, end points, inverse-CDF identity, bounds order-free, log/lin equivalence, 10**x back-transform,
text == direct construction, defaults from mode and bounds.
Object histories (TaurexModel/PriorObjects.lean, op c08.objects): every parse of a text builds a NEW object which only its own
set_bounds calls change.  Input-file route (TaurexModel/FittingSection.lean + OptimizerSM.lean, op c08.file): [Fitting]
section -> ParameterParser.setup_optimizer -> Optimizer.enable_fit -> compile_params; the prior a parameter is fitted with is
the one the file writes for it as text, else the default of the mode and bounds the file gives it, whether the file or a
later enable_fit switches the fit on."""
import math
import numpy as np
from harness import common as C

RULE = ('constructor cases: Uniform/LogUniform(bounds | lin_bounds)/Gaussian/LogGaussian(mean | lin_mean, std | lin_std)/'
        'default(mode, bounds) with bounds in either order, magnitudes 1e-150..1e150, negative/zero/huge/tiny, equal '
        'exponents, u grid containing 0, 1, 0.5, 0.1, 0.9, 1e-12, 1-1e-12 and random points; text cases: calls drawn from '
        'declared cases: 1-4 parameters of a real Fittable / ForwardModel declared through @fitparam(...) (keyword-only form), '
        'fitparam(f, ...) (direct form, optional keywords left out) or add_fittable_param, 0-3 modify_bounds calls in / after '
        'the constructor / after the optimizer exists, default prior through Optimizer.compile_params or the module function; '
        'the documented grammar (three name casings, keyword subsets in random order, tuple/list, int/float/exponent/'
        'signed literals, random blanks) plus the model\'s canonical print; object histories: 1-3 prior texts parsed 3-8 '
        'times in one session (create_prior directly / as X:prior lines of an input file read by the real ParameterParser, the '
        'same text repeatedly) with Uniform.set_bounds on some of the objects in between, every object observed after every '
        'step; input-file route: a real ForwardModel with 2-4 declared parameters, a [Fitting] section giving some of them '
        'prior text / bounds / mode / factor with fit = True, False or no fit line, applied by the real setup_optimizer, compiled, '
        'then the parameters the file left off enabled through Optimizer.enable_fit and compiled again, one compiled uniform '
        'prior re-bounded in place and the same file read a second time; every 4th block of uniform-class constructor cases hands '
        'the u values over as NumPy float32 scalars and as one float32 array; scripting route: a real ForwardModel (2-3 '
        'parameters) and an observation owning 1-2 parameters, a history of 5-14 Optimizer calls (enable_fit / disable_fit / '
        'set_mode in any accepted spelling / set_boundary / set_factor_boundary / set_prior / compile_params) containing one '
        'of six motifs in turn (set_prior then set_boundary; explicit prior on one parameter, compile, bounds / mode of another '
        'changed; LOG / Log spelling; explicit prior on an observation parameter; prior whose space differs from the mode; '
        'free), ending with compile_params and update_model, judged after every compilation. distinct non-trivial = distinct '
        '(constructor, bound order, magnitude class) resp. (class, keyword set, container, casing) resp. (texts, repeats, '
        'set_bounds, file) resp. (option set, parameters mentioned)')
ASSUMPTIONS = ['scipy.stats.uniform.ppf(q, loc, scale) = q*scale + loc for 0 <= q <= 1, scale > 0 (validated each run)',
               'scipy.stats.norm.ppf(q, loc, scale) = ndtri(q)*scale + loc for scale > 0; ndtri is a monotone parameter '
               'of the model, supplied from scipy.special.ndtri (monotonicity validated on the u grid each run)',
               'math.log10 raises ValueError exactly for x <= 0',
               'numbers in prior text are carried as literal tokens by the model; the harness converts them with float()',
               'ClassFactory().priorKlasses of the base installation = Uniform, LogUniform, Gaussian, LogGaussian',
               'degenerate bounds (low == high), std <= 0, u outside [0,1], non-finite arguments and overflowing widths are '
               'outside the quantifier (malformed stream, recorded, not judged)']

# source tie (harness/translate.py -> lean/TaurexModel/Gen/SrcC08.lean, tied to TaurexModel/Priors.lean in
# lean/Props/C08Src.lean).  scipy's ppf functions are externals (function parameters of the translation).
_PR = 'taurex/core/priors.py'
_MODE = {'self._prior_mode': ('priorMode', {'PriorMode.LINEAR': 0, 'PriorMode.LOG': 1})}
_UATTRS = {'self._low_bounds': ('low_bounds', 's'), 'self._up_bounds': ('up_bounds', 's'), 'self._scale': ('scale', 's')}
_GATTRS = {'self._loc': ('loc', 's'), 'self._scale': ('scale', 's')}
_MATTR = {'self._prior_mode': ('priorMode', 'nat')}
_USTATE = ['self._prior_mode', 'self._low_bounds', 'self._up_bounds', 'self._scale']
_GSTATE = ['self._prior_mode', 'self._loc', 'self._scale']
SRC_SPECS = [
    dict(module=_PR, cls='Prior', func='prior', lean='Prior_prior', params=dict(value='s'),
         attrs={'self._prior_mode': ('priorMode', 'nat')}, enums=_MODE),
    dict(module=_PR, cls='Uniform', func='set_bounds', lean='Uniform_set_bounds', callname='self.set_bounds', dialect='obj',
         params=dict(bounds='pair'), attrs=_UATTRS, state=['self._low_bounds', 'self._up_bounds', 'self._scale']),
    dict(module=_PR, cls='Uniform', func='sample', lean='Uniform_sample', callname='Uniform.sample',
         params=dict(x='s'), attrs=_UATTRS, externals={'stats.uniform.ppf': ('uniform_ppf', 3, ('loc', 'scale'))}),
    dict(module=_PR, cls='Uniform', func='boundaries', lean='Uniform_boundaries', callname='Uniform.boundaries',
         params={}, attrs=_UATTRS, returns='pair'),
    dict(module=_PR, cls='Gaussian', func='sample', lean='Gaussian_sample', callname='self.sample',
         params=dict(x='s'), attrs=_GATTRS, externals={'stats.norm.ppf': ('norm_ppf', 3, ('loc', 'scale'))}),
    dict(module=_PR, cls='Gaussian', func='boundaries', lean='Gaussian_boundaries', callname='Gaussian.boundaries',
         params={}, attrs=_GATTRS, returns='pair'),
    # the constructors (dialect 'obj': calls of translated methods, optional arguments).  `calls` says what the MRO resolves
    # `super().__init__` to; Logger.__init__ (called by Prior.__init__ with the class name) only sets up logging
    dict(module=_PR, cls='Prior', func='__init__', lean='Prior_init', callname='Prior.__init__', dialect='obj', params={},
         attrs=_MATTR, enums=_MODE, state=['self._prior_mode'],
         ignore_calls=r'^super\(\)\.__init__\(self\.__class__\.__name__\)$'),
    dict(module=_PR, cls='Uniform', func='__init__', lean='Uniform_init', callname='Uniform.__init__', dialect='obj',
         params=dict(bounds='pair'), attrs=dict(_UATTRS, **_MATTR), enums=_MODE, state=_USTATE,
         calls={'super().__init__': 'Prior.__init__'}, raise_value='(priorMode, low_bounds, up_bounds, scale)'),
    dict(module=_PR, cls='LogUniform', func='__init__', lean='LogUniform_init', callname='LogUniform.__init__', dialect='obj',
         params=dict(bounds='pair', lin_bounds='optpair'), attrs=dict(_UATTRS, **_MATTR), enums=_MODE, state=_USTATE,
         calls={'super().__init__': 'Uniform.__init__'}),
    dict(module=_PR, cls='Gaussian', func='__init__', lean='Gaussian_init', callname='Gaussian.__init__', dialect='obj',
         params=dict(mean='s', std='s'), attrs=dict(_GATTRS, **_MATTR), enums=_MODE, state=_GSTATE,
         calls={'super().__init__': 'Prior.__init__'}),
    dict(module=_PR, cls='LogGaussian', func='__init__', lean='LogGaussian_init', callname='LogGaussian.__init__',
         dialect='obj', params=dict(mean='s', std='s', lin_mean='opt', lin_std='opt'), attrs=dict(_GATTRS, **_MATTR),
         enums=_MODE, state=_GSTATE, calls={'super().__init__': 'Gaussian.__init__'}),
]

KINDS = ['Uniform', 'LogUniform', 'Gaussian', 'LogGaussian']
U_FIXED = [0.0, 1.0, 0.5, 0.1, 0.9, 1e-12, 1 - 1e-12, 0.25, 0.75]


def ndtri(u):
    from scipy.special import ndtri as f
    return float(f(u))


def z1090():
    return ndtri(0.1), ndtri(0.9)


# ----------------------------------------------------------------------------- real objects
def build_ctor(ctor):
    """ctor = dict(k=..., ...) -> real prior object (may raise)"""
    from taurex.core.priors import Uniform, LogUniform, Gaussian, LogGaussian
    k = ctor['k']
    if k == 'uniform':
        return Uniform(bounds=list(ctor['b']))
    if k == 'loguniform':
        return LogUniform(bounds=list(ctor['b']))
    if k == 'loguniform_lin':
        return LogUniform(lin_bounds=tuple(ctor['b']))
    if k == 'gaussian':
        return Gaussian(mean=ctor['mean'], std=ctor['std'])
    if k == 'loggaussian':
        kw = dict(mean=ctor['mean'], std=ctor['std'])
        if ctor.get('lin_mean') is not None:
            kw['lin_mean'] = ctor['lin_mean']
        if ctor.get('lin_std') is not None:
            kw['lin_std'] = ctor['lin_std']
        return LogGaussian(**kw)
    if k == 'default':
        from taurex.optimizer.optimizer import compile_params
        tup = ('x', 'x', lambda: 1.0, lambda v: None, ctor['mode'], True, tuple(ctor['b']))
        fp, pri, tbl, der = compile_params({'x': tup}, {}, {})
        assert len(pri) == 1
        return pri[0]
    raise ValueError(k)


def ctor_tokens(ctor):
    k = ctor['k']
    if k == 'uniform':
        return [C.N(0), C.F(ctor['b'][0]), C.F(ctor['b'][1])]
    if k == 'loguniform':
        return [C.N(1), C.F(ctor['b'][0]), C.F(ctor['b'][1])]
    if k == 'loguniform_lin':
        return [C.N(2), C.F(ctor['b'][0]), C.F(ctor['b'][1])]
    if k == 'gaussian':
        return [C.N(3), C.F(ctor['mean']), C.F(ctor['std'])]
    if k == 'loggaussian':
        t = [C.N(4), C.F(ctor['mean']), C.F(ctor['std'])]
        for key in ('lin_mean', 'lin_std'):
            v = ctor.get(key)
            t.append('0' if v is None else '1 ' + C.F(v))
        return t
    if k == 'default':
        return [C.N(5), C.N(0 if ctor['mode'] == 'linear' else 1), C.F(ctor['b'][0]), C.F(ctor['b'][1])]
    raise ValueError(k)


def observe(p, us, xs, u_as=None):
    """public observables of a real prior object; `u_as`: the type the unit-interval values are handed over in (None: Python
    floats; 'float32': NumPy single-precision scalars — the numbers themselves are then single-precision numbers)"""
    from taurex.core.priors import PriorMode
    lo, hi = p.boundaries()
    conv = (lambda u: u) if u_as is None else getattr(np, u_as)
    return dict(kind=KINDS.index(type(p).__name__), mode=0 if p.priorMode is PriorMode.LINEAR else 1,
                lo=float(lo), hi=float(hi), samples=[float(p.sample(conv(u))) for u in us],
                backs=[float(p.prior(x)) for x in xs])


def read_eval(d):
    kind = d.nat()
    mode = d.nat()
    a = d.flt()
    b = d.flt()
    lo = d.flt()
    hi = d.flt()
    samples = d.list()
    backs = d.list()
    return dict(kind=kind, mode=mode, a=a, b=b, lo=lo, hi=hi, samples=samples, backs=backs)


def compare_eval(ctx, what, impl, mod, case):
    ctx.check_eq(what + ': class', impl['kind'], mod['kind'], case)
    ctx.check_eq(what + ': priorMode', impl['mode'], mod['mode'], case)
    scale = max(abs(impl['lo']), abs(impl['hi']), 1e-300)
    ctx.check_close(what + ': boundaries', [impl['lo'], impl['hi']], [mod['lo'], mod['hi']], case, rel=1e-12,
                    abs_=1e-13 * scale)
    fin = [abs(x) for x in impl['samples'] if math.isfinite(x)]
    sscale = max([scale] + fin)
    ctx.check_close(what + ': sample(u)', impl['samples'], mod['samples'], case, rel=1e-12, abs_=1e-13 * sscale)
    ctx.check_close(what + ': prior(x)', impl['backs'], mod['backs'], case, rel=1e-12)


# ----------------------------------------------------------------------------- generators
def rand_mag(rng, allow_neg=True, big=True):
    r = rng.random()
    if r < 0.15:
        v = float(rng.integers(-20, 21))
    elif r < 0.55:
        v = float(rng.uniform(-10, 10))
    elif r < 0.8 or not big:
        v = float(10 ** rng.uniform(-12, 12) * rng.choice([-1, 1]))
    else:
        v = float(10 ** rng.uniform(-150, 150) * rng.choice([-1, 1]))
    if not allow_neg:
        v = abs(v)
    return v


def gen_bounds(rng, positive=False):
    a = rand_mag(rng, allow_neg=not positive)
    b = rand_mag(rng, allow_neg=not positive)
    r = rng.random()
    if r < 0.15:
        b = a * float(rng.uniform(1.0000001, 1.5)) if a != 0 else 1.0   # same sign, close
    elif r < 0.25:
        b = -a if not positive else a * 10
    if positive:
        a = abs(a) if a != 0 else 1e-3
        b = abs(b) if b != 0 else 2e-3
    if a == b:
        b = a + max(abs(a), 1.0)
    return [a, b]


def gen_us(rng, n=6):
    return U_FIXED + [float(x) for x in rng.random(n)]


def gen_ctor(rng, k):
    kinds = ['uniform', 'loguniform', 'loguniform_lin', 'gaussian', 'loggaussian', 'default']
    kk = kinds[k % len(kinds)]
    if kk in ('uniform', 'loguniform'):
        return dict(k=kk, b=gen_bounds(rng))
    if kk == 'loguniform_lin':
        return dict(k=kk, b=gen_bounds(rng, positive=True))
    if kk == 'gaussian':
        return dict(k=kk, mean=rand_mag(rng), std=abs(rand_mag(rng)) or 1.0)
    if kk == 'loggaussian':
        c = dict(k=kk, mean=rand_mag(rng, big=False), std=abs(rand_mag(rng, big=False)) or 1.0, lin_mean=None, lin_std=None)
        if rng.random() < 0.5:
            c['lin_mean'] = abs(rand_mag(rng)) or 1.0
        if rng.random() < 0.3:
            c['lin_std'] = float(10 ** rng.uniform(0.01, 3))
        return c
    mode = 'log' if rng.random() < 0.5 else 'linear'
    return dict(k=kk, mode=mode, b=gen_bounds(rng, positive=(mode == 'log')))


def mag_class(b):
    m = max(abs(b[0]), abs(b[1]))
    return 'huge' if m > 1e20 else ('tiny' if m < 1e-20 else 'mid')


# ----------------------------------------------------------------------------- constructor cases
def eval_ctor(ctx, case):
    from scipy.special import ndtr
    ctor = case['ctor']
    us = [float(u) for u in case['us']]
    u_as = case.get('u_as')
    if u_as is not None:
        us = [float(getattr(np, u_as)(u)) for u in us]      # the numbers that type holds, handed over in that type
    xs = [float(x) for x in case['xs']]
    zs = [ndtri(u) for u in us]
    z10, z90 = z1090()
    small = dict(type='ctor', ctor=ctor, us=us, xs=xs)
    if u_as is not None:
        small['u_as'] = u_as
    try:
        p = build_ctor(ctor)
        err = None
    except ValueError as e:
        p = None
        err = 'ValueError'
    d = ctx.model().call('c08.prior', *ctor_tokens(ctor), C.F(z10), C.F(z90), C.L(us), C.L(zs), C.L(xs))
    ok = d.nat()
    ctx.check_eq('constructor outcome (ok / ValueError)', 0 if p is None else 1, ok, small)
    key = (ctor['k'], ctor.get('mode'), None if 'b' not in ctor else (ctor['b'][0] > ctor['b'][1], mag_class(ctor['b'])),
           ctor.get('lin_mean') is not None, ctor.get('lin_std') is not None)
    if p is None or not ok:
        ctx.case(key=None, sample=dict(small, outcome=err), bucket='ctor:%s:domain-error' % ctor['k'])
        # the property's side: a log-space constructor may only refuse non-positive linear arguments
        lin = list(ctor.get('b', [])) if ctor['k'] in ('loguniform_lin', 'default') else \
            [v for v in (ctor.get('lin_mean'), ctor.get('lin_std')) if v is not None]
        if p is None and all(v > 0 for v in lin):
            ctx.violation('ctor-raises:' + ctor['k'], 'prior constructor raised on arguments inside the quantifier', small,
                          dict(error=err))
        return
    impl = observe(p, us, xs, u_as)
    mod = read_eval(d)
    if u_as is not None:
        ctx.bucket('ctor:u-handed-over-as-%s:%s' % (u_as, ctor['k']))
        # the whole vector at once, in the same type: the same values
        arr = [float(v) for v in np.asarray(p.sample(np.array(us, dtype=getattr(np, u_as))), float).ravel()]
        if arr != impl['samples']:
            ctx.violation('sample-array-vs-scalar:' + ctor['k'], 'sample(array of u) differs from sample(u) element by element',
                          small, dict(array=arr[:4], scalar=impl['samples'][:4]))
    ctx.case(key=key, sample=dict(small, impl_lo=impl['lo'], impl_hi=impl['hi'], impl_s=impl['samples'][:3],
                                  model_s=mod['samples'][:3]), bucket='ctor:' + ctor['k'])
    compare_eval(ctx, 'priors.' + type(p).__name__, impl, mod, small)
    # ------------------------------------------------------------ property predicates on the implementation
    k = ctor['k']
    is_log = k in ('loguniform', 'loguniform_lin', 'loggaussian') or (k == 'default' and ctor['mode'] == 'log')
    kindname = type(p).__name__
    expect_cls = dict(uniform='Uniform', loguniform='LogUniform', loguniform_lin='LogUniform', gaussian='Gaussian',
                      loggaussian='LogGaussian').get(k) or ('LogUniform' if ctor['mode'] == 'log' else 'Uniform')
    if kindname != expect_cls:
        ctx.violation('wrong-class:' + k, 'constructed prior has the wrong class', small, dict(got=kindname))
    if impl['mode'] != (1 if is_log else 0):
        ctx.violation('wrong-space:' + k, 'priorMode does not match the declared space', small, dict(mode=impl['mode']))
    # back-transform
    for x, y in zip(xs, impl['backs']):
        want = 10 ** x if is_log else x
        if not C.close(y, want, rel=1e-12):
            ctx.violation('back-transform:' + ('log' if is_log else 'linear'),
                          'Prior.prior(x) is not %s' % ('10**x' if is_log else 'x'), small, dict(x=x, got=y, want=want))
    order = np.argsort(us, kind='stable')
    su = [us[i] for i in order]
    ss = [impl['samples'][i] for i in order]
    if kindname in ('Uniform', 'LogUniform'):
        if k in ('uniform', 'loguniform'):
            b = [float(v) for v in ctor['b']]
        else:
            b = [math.log10(v) for v in ctor['b']] if is_log else [float(v) for v in ctor['b']]
        lo, hi = min(b), max(b)
        w = max(abs(lo), abs(hi))
        eps = 4 * np.spacing(w)
        if impl['lo'] != lo or impl['hi'] != hi:
            ctx.violation('boundaries:' + k, 'boundaries() are not (min, max) of the bounds in the prior space', small,
                          dict(got=[impl['lo'], impl['hi']], want=[lo, hi]))
        for u, s in zip(us, impl['samples']):
            want = lo + (hi - lo) * u
            if not (abs(s - want) <= eps + 1e-12 * abs(want)):
                ctx.violation('uniform-ppf:' + k, 'sample(u) is not low + (high-low)*u', small, dict(u=u, got=s, want=want))
                break
            if s < lo - eps or s > hi + eps:
                ctx.violation('uniform-range:' + k, 'sample(u) outside [low, high]', small, dict(u=u, got=s))
                break
            # inverse-CDF identity  F(sample(u)) = u
            if hi - lo > 0 and abs((s - lo) / (hi - lo) - u) > 1e-9 + 8 * np.spacing(w) / (hi - lo):
                ctx.violation('uniform-cdf:' + k, 'CDF(sample(u)) != u', small, dict(u=u, got=s))
                break
        if impl['samples'][us.index(0.0)] != lo:
            ctx.violation('uniform-endpoint:' + k, 'sample(0) is not the lower bound', small,
                          dict(got=impl['samples'][us.index(0.0)], want=lo))
        if abs(impl['samples'][us.index(1.0)] - hi) > eps:
            ctx.violation('uniform-endpoint:' + k, 'sample(1) is not the upper bound', small,
                          dict(got=impl['samples'][us.index(1.0)], want=hi))
        for (u1, s1), (u2, s2) in zip(zip(su, ss), zip(su[1:], ss[1:])):
            if s2 < s1 or (u2 - u1 > 1e-3 and not s1 < s2):
                ctx.violation('uniform-monotone:' + k, 'sample is not increasing in u', small,
                              dict(u1=u1, u2=u2, s1=s1, s2=s2))
                break
        # order of the bounds is irrelevant
        rc = dict(ctor, b=[ctor['b'][1], ctor['b'][0]])
        q = observe(build_ctor(rc), us, xs, u_as)
        if (q['lo'], q['hi'], q['samples']) != (impl['lo'], impl['hi'], impl['samples']):
            ctx.violation('uniform-order:' + k, 'reversing the bounds changes the prior', small,
                          dict(fwd=[impl['lo'], impl['hi']], rev=[q['lo'], q['hi']]))
        # history: an object whose bounds are replaced through the public set_bounds is the prior of the NEW bounds
        # (sample, boundaries and params all follow), i.e. equal to a freshly built prior
        b2 = [lo - 0.75 * (abs(lo) + 1.0), hi + 0.5 * (abs(hi) + 2.0)]
        if ctor['b'][0] > ctor['b'][1]:
            b2 = b2[::-1]
        p2 = build_ctor(ctor)
        p2.set_bounds(b2)
        q2 = observe(p2, us, xs, u_as)
        qf = observe(build_ctor(dict(k='loguniform' if is_log else 'uniform', b=b2)), us, xs, u_as)
        ctx.bucket('history:set_bounds')
        if (q2['lo'], q2['hi'], q2['samples'], q2['mode']) != (qf['lo'], qf['hi'], qf['samples'], qf['mode']) \
                or p2.params() != type(p2)(bounds=b2).params():
            ctx.violation('set-bounds-stale:' + kindname, 'after set_bounds(new) the prior is not the prior of the new bounds '
                          '(sample / boundaries / params disagree with a freshly built one)', small,
                          dict(new_bounds=b2, used=[q2['lo'], q2['hi'], q2['samples'][:4]],
                               fresh=[qf['lo'], qf['hi'], qf['samples'][:4]]))
        if k in ('loguniform_lin',):
            q = observe(build_ctor(dict(k='loguniform', b=[math.log10(v) for v in ctor['b']])), us, xs, u_as)
            if not (C.close([q['lo'], q['hi']], [impl['lo'], impl['hi']], rel=1e-15)
                    and C.close(q['samples'], impl['samples'], rel=1e-14, abs_=1e-15 * w)):
                ctx.violation('lin-equivalence:loguniform', 'lin_bounds=b differs from bounds=log10(b)', small,
                              dict(lin=[impl['lo'], impl['hi']], log=[q['lo'], q['hi']]))
    else:
        mean = ctor['mean']
        std = ctor['std']
        if k == 'loggaussian' and ctor.get('lin_mean') is not None:
            mean = math.log10(ctor['lin_mean'])
        if k == 'loggaussian' and ctor.get('lin_std') is not None:
            std = math.log10(ctor['lin_std'])
        for u, z, s in zip(us, zs, impl['samples']):
            want = mean + std * z
            if math.isinf(z):
                good = (s == want)
            else:
                good = abs(s - want) <= 1e-12 * (abs(mean) + abs(std * z)) + 1e-300
                # inverse-CDF identity through the independent forward CDF
                if good and 1e-9 < u < 1 - 1e-9 and abs(mean) < 1e6 * std:
                    cu = float(ndtr((s - mean) / std))
                    good = abs(cu - u) <= 1e-9 + 1e-6 * min(u, 1 - u) + 4 * abs(mean) / std * 2.3e-16
            if not good:
                ctx.violation('gaussian-ppf:' + k, 'sample(u) is not the normal quantile mean + std*Phi^-1(u)', small,
                              dict(u=u, got=s, want=want))
                break
        for (u1, s1), (u2, s2) in zip(zip(su, ss), zip(su[1:], ss[1:])):
            if s2 < s1:
                ctx.violation('gaussian-monotone:' + k, 'sample is not increasing in u', small,
                              dict(u1=u1, u2=u2, s1=s1, s2=s2))
                break
        bl = (mean + std * z10, mean + std * z90)
        if not C.close([impl['lo'], impl['hi']], bl, rel=1e-12, abs_=1e-13 * (abs(mean) + abs(std))):
            ctx.violation('gaussian-boundaries:' + k, 'boundaries() are not the 10% / 90% quantiles', small,
                          dict(got=[impl['lo'], impl['hi']], want=bl))
        if k == 'loggaussian' and (ctor.get('lin_mean') is not None or ctor.get('lin_std') is not None):
            q = observe(build_ctor(dict(k='loggaussian', mean=mean, std=std)), us, xs)
            if not C.close(q['samples'], impl['samples'], rel=1e-14):
                ctx.violation('lin-equivalence:loggaussian', 'lin_mean/lin_std differ from giving their log10', small)


# ----------------------------------------------------------------------------- text cases
KWS = dict(Uniform=['bounds'], LogUniform=['bounds', 'lin_bounds'], Gaussian=['mean', 'std'],
           LogGaussian=['mean', 'std', 'lin_mean', 'lin_std'])


def lit(rng, v=None, positive=False):
    """a number literal (text) of the documented form, and nothing Python would read differently"""
    r = rng.random()
    if r < 0.3:
        n = int(rng.integers(0, 50))
        s = str(n)
    elif r < 0.6:
        s = '%d.%s' % (rng.integers(0, 30), ''.join(str(d) for d in rng.integers(0, 10, size=int(rng.integers(0, 4)))))
    elif r < 0.7:
        s = '.%d' % rng.integers(1, 1000)
    else:
        m = '%d' % rng.integers(1, 10) if rng.random() < 0.5 else '%d.%d' % (rng.integers(0, 10), rng.integers(0, 100))
        e = 'e' if rng.random() < 0.8 else 'E'
        sg = rng.choice(['', '-', '+'])
        s = '%s%s%s%d' % (m, e, sg, rng.integers(0, 13))
    if positive:
        if float(s) == 0:
            s = '1e-3'
        return s
    r = rng.random()
    if r < 0.35:
        s = '-' + s
    elif r < 0.4:
        s = '+' + s
    return s


def gen_call(rng, k):
    cls = KINDS[k % 4]
    casing = int(rng.integers(0, 3))
    fn = [cls, cls.lower(), cls.upper()][casing]
    args = []
    if cls in ('Uniform', 'LogUniform'):
        keys = ['bounds'] if cls == 'Uniform' else [['bounds'], ['lin_bounds'], ['bounds', 'lin_bounds']][int(rng.integers(0, 3))]
        if rng.random() < 0.08:
            keys = []
        for key in keys:
            cont = 1 if rng.random() < 0.6 else 2
            a, b = lit(rng, positive=(key == 'lin_bounds')), lit(rng, positive=(key == 'lin_bounds'))
            while float(a) == float(b):
                b = lit(rng, positive=(key == 'lin_bounds'))
            args.append((key, cont, [a, b]))
    else:
        keys = [x for x in KWS[cls] if rng.random() < 0.6]
        for key in keys:
            pos = key in ('lin_mean', 'std', 'lin_std')
            s = lit(rng, positive=pos)
            if key == 'lin_std':
                s = ['%d' % rng.integers(2, 500), '%d.%d' % (rng.integers(1, 40), rng.integers(1, 100)),
                     '%de+%d' % (rng.integers(1, 10), rng.integers(1, 6)), '1.5E%d' % rng.integers(0, 4)][int(rng.integers(0, 4))]
            args.append((key, 0, [s]))
    args = [args[i] for i in rng.permutation(len(args))]
    return dict(fn=fn, args=args)


def render(rng, call):
    """text of a call with random blanks (never leading)"""
    def sp():
        return ' ' * int(rng.choice([0, 0, 0, 1, 2]))
    parts = []
    for key, cont, toks in call['args']:
        if cont == 0:
            v = toks[0] if rng.random() < 0.9 else '(' + sp() + toks[0] + sp() + ')'
        else:
            o, c = ('(', ')') if cont == 1 else ('[', ']')
            trail = (sp() + ',') if rng.random() < 0.1 else ''
            v = o + sp() + (sp() + ',' + sp()).join(toks) + trail + sp() + c
        parts.append(key + sp() + '=' + sp() + v)
    trail = (',' + sp()) if parts and rng.random() < 0.1 else ''
    return call['fn'] + sp() + '(' + sp() + (sp() + ',' + sp()).join(parts) + sp() + trail + ')' + sp()


def call_tokens(call, enc):
    t = [C.S(call['fn']), C.N(len(call['args']))]
    for key, cont, toks in call['args']:
        t += [C.S(key), C.N(cont), C.L(toks, enc)]
    return t


def read_call(d):
    fn = d.str()
    n = d.nat()
    args = []
    for _ in range(n):
        key = d.str()
        cont = d.nat()
        toks = d.list(d.str)
        args.append((key, cont, toks))
    return dict(fn=fn, args=args)


def py_call_shape(name, kwargs):
    """(fn, [(key, container, [values])]) of what parse_priors returned"""
    args = []
    for key, v in kwargs.items():
        if isinstance(v, tuple):
            args.append((key, 1, [float(x) for x in v]))
        elif isinstance(v, list):
            args.append((key, 2, [float(x) for x in v]))
        else:
            args.append((key, 0, [float(v)]))
    return dict(fn=name, args=args)


def outside_quantifier(name, kwargs):
    """std <= 0 or equal bounds: not a distribution the property speaks about"""
    try:
        if 'gaussian' in name.lower():
            std = kwargs.get('std', 0.25)
            if kwargs.get('lin_std') is not None:
                std = math.log10(kwargs['lin_std'])
            return not std > 0
        b = kwargs.get('lin_bounds', kwargs.get('bounds', [0.0, 1.0]))
        return min(b) == max(b)
    except Exception:
        return True


def eval_text(ctx, case):
    from taurex.util.fitting import parse_priors
    from taurex.parameter.factory import create_prior
    import taurex.core.priors as TP
    text = case['text']
    us = [float(u) for u in case['us']]
    xs = [float(x) for x in case['xs']]
    zs = [ndtri(u) for u in us]
    z10, z90 = z1090()
    small = dict(type='text', text=text, us=us, xs=xs)
    # ---- parse
    try:
        name, kwargs = parse_priors(text)
        pshape = py_call_shape(name, kwargs)
    except Exception as e:
        ctx.violation('text-rejected', 'parse_priors rejected a prior string of the documented syntax', small,
                      dict(error=repr(e)))
        return
    d = ctx.model().call('c08.parse', C.S(text))
    if not d.nat():
        ctx.mismatch('parsePrior accepts the documented syntax', small, dict(impl=pshape, model=None))
        ctx.case(key=None, bucket='text:model-rejects')
        return
    mcall = read_call(d)
    canon = d.str()
    again = d.bool()
    mshape = dict(fn=mcall['fn'], args=[(k, c, [float(t) for t in toks]) for k, c, toks in mcall['args']])
    ctx.check_eq('parse_priors vs parsePrior (name, keywords, containers, numbers)', pshape, mshape, small)
    ctx.check_eq('parsePrior (printPrior c) = c on the driver', True, again, dict(small, canon=canon))
    # the model's canonical print must mean the same to the real parser
    try:
        n2, k2 = parse_priors(canon)
        ctx.check_eq('parse_priors (printPrior c) = c', py_call_shape(n2, k2), pshape, dict(small, canon=canon))
    except Exception as e:
        ctx.mismatch('parse_priors accepts printPrior output', dict(small, canon=canon), dict(error=repr(e)))
    # ---- create
    cls = None
    for kname in KINDS:
        if name in (kname, kname.lower(), kname.upper()):
            cls = getattr(TP, kname)
    try:
        p = create_prior(text)
        outcome = 0
    except ValueError as e:
        p = None
        outcome = 1 if 'Unknown Prior' in str(e) else 3
    except TypeError as e:
        p = None
        outcome = 2
    fcall = dict(fn=name, args=[(k, c, v) for k, c, v in pshape['args']])
    d = ctx.model().call('c08.create', C.F(z10), C.F(z90), C.F(0.5), C.F(0.25), *call_tokens(fcall, C.F), C.L(us), C.L(zs),
                         C.L(xs))
    mcode = d.nat()
    key = (name, tuple(sorted(k for k, _, _ in pshape['args'])), tuple(c for _, c, _ in pshape['args']), outcome)
    ctx.case(key=key if outcome == 0 else None, sample=dict(small, parsed=pshape, outcome=outcome),
             bucket='text:outcome%d' % outcome)
    if mcode == 4:
        ctx.malformed_outcome('text:unsupported-shape')
        return
    ctx.check_eq('create_prior outcome (ok/unknown class/bad keyword/domain)', outcome, mcode, small)
    if p is not None and outside_quantifier(name, kwargs):
        ctx.malformed_outcome('text:degenerate-width')
        return
    if p is None or mcode != 0:
        if case.get('expect_ok'):
            ctx.violation('text-create-raises', 'create_prior raised on a prior string of the documented syntax', small,
                          dict(outcome=outcome))
        return
    impl = observe(p, us, xs)
    compare_eval(ctx, 'create_prior(text)', impl, read_eval(d), small)
    # ---- property: text == direct construction (from the generator's own keyword values where the text was generated)
    if case.get('call'):
        kwargs = {}
        for key, cont, toks in case['call']['args']:
            vals = [float(t) for t in toks]
            kwargs[key] = vals[0] if cont == 0 else (tuple(vals) if cont == 1 else list(vals))
    try:
        direct = observe(cls(**kwargs), us, xs)
    except Exception as e:
        ctx.violation('text-vs-direct', 'direct construction raises where the text form succeeds', small, dict(error=repr(e)))
        return
    same = all(direct[k] == impl[k] for k in ('kind', 'mode')) and all(
        C.close(direct[k], impl[k], rel=0.0) for k in ('lo', 'hi', 'samples', 'backs'))
    if type(p) is not cls or not same:
        ctx.violation('text-vs-direct', 'prior built from text differs from direct construction', small,
                      dict(text=impl, direct=direct))


# ----------------------------------------------------------------------------- declared parameters -> default priors
ROUTES = ['deco-kw', 'deco-call', 'dynamic']


def _declared_host(case):
    """a real Fittable (plain component or ForwardModel) whose parameters are declared as the case says: the decorator
    in its keyword-only form `@fitparam(param_name=…, …)` and in its direct form `fitparam(f, param_name=…, …)` (keywords
    the case leaves out are left out), `add_fittable_param` in the constructor, and `modify_bounds` calls made in the
    constructor ('init', as LightCurveModel does), after it ('later') or after the optimizer exists ('late')."""
    from taurex.core import fitparam
    from taurex.data.fittable import Fittable
    from taurex.model import ForwardModel
    params = case['params']
    hist = case['hist']
    ns = {}
    for p in params:
        if p['route'] == 'dynamic':
            continue
        attr = '_v_' + p['name']

        def getter(self, _a=attr):
            return getattr(self, _a)

        def setter(self, v, _a=attr):
            setattr(self, _a, v)
        kw = dict(param_name=p['name'], param_latex='$%s$' % p['name'])
        if p.get('mode') is not None:
            kw['default_mode'] = p['mode']
        if p.get('fit') is not None:
            kw['default_fit'] = bool(p['fit'])
        if p.get('bounds') is not None:
            kw['default_bounds'] = list(p['bounds'])
        prop = fitparam(**kw)(getter) if p['route'] == 'deco-kw' else fitparam(getter, **kw)
        ns['p_' + p['name']] = prop.setter(setter)

    def body(self):
        for p in params:
            if p['route'] != 'dynamic':
                continue
            attr = '_v_' + p['name']

            def fget(s, _a=attr):
                return getattr(s, _a)

            def fset(s, v, _a=attr):
                setattr(s, _a, v)
            self.add_fittable_param(p['name'], '$%s$' % p['name'], fget, fset, p['mode'], bool(p['fit']), list(p['bounds']))
        for n, b, when in hist:
            if when == 'init':
                self.modify_bounds(n, list(b))

    def init_values(self):
        for p in params:
            setattr(self, '_v_' + p['name'], 1.5)
    if case['host'] == 'model':
        def __init__(self):
            init_values(self)
            ForwardModel.__init__(self, 'DeclModel')
            body(self)
        ns.update(__init__=__init__, build=lambda self: None,
                  model=lambda self, wngrid=None, cutoff_grid=True: (np.linspace(1, 2, 3), np.zeros(3), None, None))
        return type('DeclModel', (ForwardModel,), ns)
    else:
        def __init__(self):
            init_values(self)
            Fittable.__init__(self)
            body(self)
        ns.update(__init__=__init__)
        return type('DeclComponent', (Fittable,), ns)


def _decl_obs():
    from taurex.spectrum import BaseSpectrum

    class DeclObs(BaseSpectrum):
        def __init__(self):
            super().__init__('DeclObs')

        def create_binner(self):
            from taurex.binning import NativeBinner
            return NativeBinner()
        spectrum = property(lambda self: np.zeros(3))
        wavenumberGrid = property(lambda self: np.linspace(1, 2, 3))
        errorBar = property(lambda self: np.ones(3))
    return DeclObs()


def decl_token(p):
    m = p.get('mode')
    t = [C.S(p['name']), '0' if m is None else '1 ' + C.N(0 if m == 'linear' else 1),
         '0' if p.get('fit') is None else '1 ' + C.N(1 if p['fit'] else 0),
         '0' if p.get('bounds') is None else '1 %s %s' % (C.F(p['bounds'][0]), C.F(p['bounds'][1]))]
    return ' '.join(t)


def gen_declared(rng, k):
    npar = int(rng.integers(1, 5))
    host = 'model' if k % 3 else 'component'
    params = []
    for i in range(npar):
        route = ROUTES[(k + i) % 3]
        mode = 'log' if rng.random() < 0.55 else 'linear'
        b = gen_bounds(rng, positive=(mode == 'log'))
        if max(abs(b[0]), abs(b[1])) > 1e100 or min(abs(b[0]), abs(b[1])) < 1e-100:
            b = [float(10 ** rng.uniform(-8, 2)), float(10 ** rng.uniform(2.5, 9))]
            if rng.random() < 0.5:
                b = b[::-1]
        p = dict(name='q%d' % i, route=route, mode=mode, fit=bool(rng.random() < 0.4), bounds=b)
        if route != 'dynamic':
            # keywords the decorator call leaves out: the signature defaults ('linear', False, [0.0, 1.0]) apply
            if mode == 'linear' and rng.random() < 0.3:
                p['mode'] = None
            if rng.random() < 0.3:
                p['fit'] = None
            if (p['mode'] or 'linear') == 'linear' and rng.random() < 0.2:
                p['bounds'] = None
        params.append(p)
    hist = []
    for _ in range(int(rng.choice([0, 1, 1, 2, 3]))):
        p = params[int(rng.integers(0, npar))]
        mode = p['mode'] or 'linear'
        b = gen_bounds(rng, positive=(mode == 'log'))
        if max(abs(b[0]), abs(b[1])) > 1e100 or min(abs(b[0]), abs(b[1])) < 1e-100:
            b = [float(10 ** rng.uniform(2, 5)), float(10 ** rng.uniform(-3, 1))]
        when = ['init', 'later', 'late'][int(rng.integers(0, 3 if host == 'model' else 2))]
        hist.append([p['name'], b, when])
    r = rng.random()
    if r < 0.04 and hist:
        hist[-1][0] = 'no_such_param'                 # KeyError
        hist[-1][2] = 'later'
    elif r < 0.08 and npar >= 2 and params[-1]['route'] == 'dynamic':
        params[-1]['name'] = params[0]['name']        # declared twice: AttributeError
    elif r < 0.14:
        # a log parameter whose current bounds are not positive: no default prior exists (ValueError at compile)
        logs = [p for p in params if p['mode'] == 'log']
        if logs:
            p = logs[0]
            b = [-abs(p['bounds'][0]) if rng.random() < 0.6 else 0.0, p['bounds'][1]]
            if rng.random() < 0.5:
                p['bounds'] = b
            else:
                hist.append([p['name'], b, 'later'])
    # the order of the calls as executed: 'init' ones first, then 'later', then 'late'
    hist.sort(key=lambda h: ['init', 'later', 'late'].index(h[2]))
    return dict(type='declared', host=host, params=params, hist=hist)


def eval_declared(ctx, case):
    from taurex.core.priors import Uniform, LogUniform
    from taurex.optimizer.optimizer import Optimizer, compile_params
    # order of execution: compile_fitparams registers the decorated properties (class order) inside Fittable.__init__, the
    # constructor body adds the dynamic ones afterwards
    params = [p for p in case['params'] if p['route'] != 'dynamic'] + [p for p in case['params'] if p['route'] == 'dynamic']
    hist = [tuple(h) for h in case['hist']]
    us = [float(u) for u in case['us']]
    xs = [float(x) for x in case['xs']]
    zs = [ndtri(u) for u in us]
    z10, z90 = z1090()
    small = dict(case)
    # ---- the model
    d = ctx.model().call('c08.declared', C.L(params, decl_token),
                         C.L(hist, lambda h: ' '.join([C.S(h[0]), C.F(h[1][0]), C.F(h[1][1])])),
                         C.F(z10), C.F(z90), C.L(us), C.L(zs), C.L(xs))
    m_ok = d.nat()
    m_rows = []
    if m_ok:
        def row():
            name, mode, fit, b0, b1 = d.str(), d.nat(), d.bool(), d.flt(), d.flt()
            ev = read_eval(d) if d.nat() else None
            return dict(name=name, mode=mode, fit=fit, b0=b0, b1=b1, ev=ev)
        m_rows = d.list(row)
    # ---- the real objects
    outcome = 'ok'
    host = opt = None
    try:
        host = _declared_host(case)()
        for n, b, when in hist:
            if when == 'later':
                host.modify_bounds(n, list(b))
        if case['host'] == 'model':
            opt = Optimizer('verif', observed=_decl_obs(), model=host)
        for n, b, when in hist:
            if when == 'late':
                host.modify_bounds(n, list(b))
    except (KeyError, AttributeError) as e:
        outcome = type(e).__name__
    except Exception as e:      # the real code refuses a declaration of the documented form
        ctx.violation('declared-raises:' + case['host'], 'declaring fitting parameters / modify_bounds raised %r' % (e,),
                      small)
        return
    names = [p['name'] for p in params]
    ctx.bucket('declared:outcome:' + outcome)
    ctx.check_eq('declarations + modify_bounds: outcome (ok / KeyError / AttributeError) vs FittableTable.declaredTable',
                 outcome == 'ok', bool(m_ok), small)
    if outcome != 'ok':
        expect = 'KeyError' if len(set(names)) == len(names) else 'AttributeError'
        if not (any(h[0] not in names for h in hist) or len(set(names)) != len(names)):
            ctx.violation('declared-raises:' + outcome, 'a declaration or modify_bounds on a declared name raised', small)
        elif outcome != expect:
            ctx.violation('declared-error-kind', 'wrong exception for an undeclared name / a name declared twice', small,
                          dict(got=outcome, want=expect))
        ctx.case(key=None, bucket='declared:error', sample=small)
        return
    # the table the optimizer reads: the ForwardModel's live view for a model, the Fittable's own for a component
    table = host.fittingParameters if case['host'] == 'model' else host.fitting_parameters()
    if list(table) != names:
        ctx.violation('declared-table:names', 'the table the optimizer reads does not hold exactly the declared parameters '
                      '(decorated ones in class order, then those added in the constructor)', small,
                      dict(table=list(table), declared=names))
        return
    declared_tuples = {n: tuple(table[n]) for n in names}    # as declared, before any optimizer operation re-packs them
    for p, mrow in zip(params, m_rows if m_ok else [None] * len(params)):
        n = p['name']
        t = declared_tuples[n]
        mode_decl = p.get('mode') or 'linear'
        fit_decl = bool(p.get('fit')) if p.get('fit') is not None else False
        cur = [list(h[1]) for h in hist if h[0] == n]
        b = cur[-1] if cur else (list(p['bounds']) if p.get('bounds') is not None else [0.0, 1.0])
        modified = bool(cur)
        tag = '%s:%s%s' % (p['route'], mode_decl, ':modified' if modified else '')
        ctx.bucket('declared:' + tag)
        if p.get('mode') is None or p.get('fit') is None or p.get('bounds') is None:
            ctx.bucket('declared:keyword-left-out')
        ctx.case(key=('declared', case['host'], p['route'], p.get('mode'), p.get('fit') is None, p.get('bounds') is None,
                      min(len(cur), 2), b[0] > b[1]), bucket='declared:host:' + case['host'],
                 sample=dict(host=case['host'], param=p, current_bounds=b))
        # ---- the tuple: declaration -> (name, …, mode, fit, bounds), then the last modify_bounds
        slot = (t[0], t[4], t[5], [float(t[6][0]), float(t[6][1])]) if len(t) == 7 and len(t[6]) == 2 else tuple(t)
        want = (n, mode_decl, fit_decl, [float(b[0]), float(b[1])])
        if mrow is not None:
            ctx.check_eq('declared tuple (name, mode, fit, bounds) vs FittableTable.declaredTable', slot,
                         (mrow['name'], 'log' if mrow['mode'] else 'linear', mrow['fit'], [mrow['b0'], mrow['b1']]),
                         dict(small, param=n))
        if slot != want:
            ctx.violation('declared-tuple:' + tag, 'the parameter tuple does not carry the declared mode / fit flag and the '
                          'current bounds in their slots', small, dict(param=n, got=repr(slot), want=repr(want)))
        # ---- its default prior
        try:
            if opt is not None:
                for other in names:
                    opt.disable_fit(other)
                opt.enable_fit(n)
                opt.compile_params()
                pri = list(opt.fitting_priors)
            else:
                tt = table[n]
                _, pri, _, _ = compile_params({n: (tt[0], tt[1], tt[2], tt[3], tt[4], True, tt[6])}, {}, {})
            prior, err = (pri[0] if len(pri) == 1 else None), None
        except ValueError as e:
            prior, err = None, repr(e)
        except Exception as e:
            ctx.violation('default-declared:' + tag, 'compile_params raised %r on the table of a declared parameter' % (e,),
                          small, dict(param=n))
            continue
        no_default = mode_decl == 'log' and not (b[0] > 0 and b[1] > 0)
        ctx.check_eq('default prior of a declared parameter exists vs FittableTable.defaultOf', prior is not None,
                     mrow is not None and mrow['ev'] is not None, dict(small, param=n))
        if no_default:
            ctx.bucket('declared:no-default(log, non-positive bound)')
            if prior is not None:
                ctx.violation('default-declared:' + tag, 'a default prior was built for a log parameter with a non-positive '
                              'bound', small, dict(param=n, got=type(prior).__name__ + ' ' + prior.params()))
            continue
        if prior is None:
            ctx.violation('default-declared:' + tag, 'compile_params built no default prior (%s) for a declared parameter '
                          'with valid bounds' % err, small, dict(param=n))
            continue
        impl = observe(prior, us, xs)
        if mrow is not None and mrow['ev'] is not None:
            compare_eval(ctx, 'default prior of a declared parameter', impl, mrow['ev'], dict(small, param=n))
        bb = [math.log10(v) for v in b] if mode_decl == 'log' else [float(v) for v in b]
        cls = LogUniform if mode_decl == 'log' else Uniform
        lo, hi = min(bb), max(bb)
        good = type(prior) is cls and impl['mode'] == (1 if mode_decl == 'log' else 0) and \
            C.close([impl['lo'], impl['hi']], [lo, hi], rel=1e-13, abs_=1e-300)
        if good:
            w = max(abs(lo), abs(hi))
            for u, sv in zip(us, impl['samples']):
                if not abs(sv - (lo + (hi - lo) * u)) <= 4 * np.spacing(w) + 1e-12 * abs(lo + (hi - lo) * u):
                    good = False
            for x, y in zip(xs, impl['backs']):
                if not C.close(y, 10 ** x if mode_decl == 'log' else x, rel=1e-12):
                    good = False
        if not good:
            ctx.violation('default-declared:' + tag, 'the default prior of a declared parameter does not derive from its '
                          'declared mode and its current bounds', small,
                          dict(param=n, mode=mode_decl, bounds=b, got=type(prior).__name__ + ' ' + prior.params()))


# ----------------------------------------------------------------------------- prior OBJECTS: texts parsed again, set_bounds
def kwargs_of(call):
    """keyword arguments of a generated call, numbers converted with float()"""
    kw = {}
    for key, cont, toks in call['args']:
        vals = [float(t) for t in toks]
        kw[key] = vals[0] if cont == 0 else (tuple(vals) if cont == 1 else list(vals))
    return kw


def klass_of(call):
    import taurex.core.priors as TP
    for kname in KINDS:
        if call['fn'] in (kname, kname.lower(), kname.upper()):
            return getattr(TP, kname)
    return None


def float_call(call):
    return dict(fn=call['fn'], args=[(k, c, [float(t) for t in toks]) for k, c, toks in call['args']])


def same_prior(a, b):
    return all(a[k] == b[k] for k in ('kind', 'mode')) and all(C.close(a[k], b[k], rel=0.0) for k in ('lo', 'hi', 'samples', 'backs'))


def gen_text_pool(rng, n, rebound_bias=True):
    pool = []
    for _ in range(n):
        k = int(rng.choice([0, 1, 0, 1, 2, 3])) if rebound_bias else int(rng.integers(0, 4))
        call = gen_call(rng, k)
        call = dict(fn=call['fn'], args=[(a, b, list(c)) for a, b, c in call['args']])
        pool.append(dict(call=call, text=render(rng, call).strip()))
    return pool


def quiet():
    import logging
    from taurex.log.logger import root_logger
    root_logger.setLevel(logging.CRITICAL)


def read_fitting_file(lines):
    """write `[Fitting]` lines (key, text of the value) to an input file and read it with the real ParameterParser"""
    import tempfile
    import shutil
    import os
    from taurex.parameter import ParameterParser
    quiet()
    d = tempfile.mkdtemp(prefix='verif_c08_')
    try:
        fn = os.path.join(d, 'verif.par')
        with open(fn, 'w') as fh:
            fh.write('[Fitting]\n')
            for k, v in lines:
                fh.write('%s = %s\n' % (k, v))
        pp = ParameterParser()
        pp.read(fn)
    finally:
        shutil.rmtree(d, ignore_errors=True)
    return pp


def gen_objects(rng, k):
    """a session's history with priors written as text: 1-3 distinct texts, parsed several times (create_prior directly, or
    as `X:prior` lines of an input file read by the real ParameterParser), Uniform.set_bounds on objects in between"""
    pool = gen_text_pool(rng, int(rng.integers(1, 4)))
    ops, live = [], []          # live: text index of every object created so far

    def reboundable(j):
        return pool[live[j]]['call']['fn'].lower() in ('uniform', 'loguniform')
    n = int(rng.integers(3, 9))
    while len(ops) < n:
        r = rng.random()
        cand = [j for j in range(len(live)) if reboundable(j)]
        if live and cand and r < 0.35:
            j = int(rng.choice(cand))
            b = gen_bounds(rng)
            if max(abs(b[0]), abs(b[1])) > 1e100:
                b = [float(rng.uniform(-9, 9)), float(rng.uniform(10, 99))]
            ops.append(dict(op='set_bounds', obj=j, b=b))
        elif r < 0.55 or k % 3 == 2:
            ts = [int(rng.integers(0, len(pool))) for _ in range(int(rng.integers(1, 4)))]
            if live and rng.random() < 0.6:
                ts[0] = live[int(rng.integers(0, len(live)))]          # a text that was parsed before
            ops.append(dict(op='file', ts=ts))
            live += ts
        else:
            t = int(rng.integers(0, len(pool)))
            if live and rng.random() < 0.6:
                t = live[int(rng.integers(0, len(live)))]
            ops.append(dict(op='create', t=t))
            live.append(t)
    return dict(type='objects', pool=pool, ops=ops)


def eval_objects(ctx, case):
    from taurex.parameter.factory import create_prior
    pool = case['pool']
    ops = case['ops']
    us = [float(u) for u in case['us']]
    xs = [float(x) for x in case['xs']]
    zs = [ndtri(u) for u in us]
    z10, z90 = z1090()
    small = dict(case)
    heap, texts, own = [], [], []          # the real objects; the text index and the last own set_bounds of each
    mops, steps, snaps = [], [], []
    try:
        for op in ops:
            if op['op'] == 'create':
                heap.append(create_prior(pool[op['t']]['text']))
                texts.append(op['t'])
                own.append(None)
                mops.append('0 ' + ' '.join(call_tokens(float_call(pool[op['t']]['call']), C.F)))
            elif op['op'] == 'file':
                names = ['p%d' % i for i in range(len(op['ts']))]
                pp = read_fitting_file([('%s:prior' % n, '"%s"' % pool[t]['text']) for n, t in zip(names, op['ts'])])
                fp = pp.generate_fitting_parameters()
                for n, t in zip(names, op['ts']):
                    heap.append(fp[n]['prior'])
                    texts.append(t)
                    own.append(None)
                    mops.append('0 ' + ' '.join(call_tokens(float_call(pool[t]['call']), C.F)))
            else:
                heap[op['obj']].set_bounds(list(op['b']))
                own[op['obj']] = list(op['b'])
                mops.append('1 %s %s %s' % (C.N(op['obj']), C.F(op['b'][0]), C.F(op['b'][1])))
            steps.append(len(mops) - 1)
            snaps.append(([observe(p, us, xs) for p in heap], list(own)))
    except Exception as e:      # noqa
        ctx.violation('text-create-raises', 'create_prior / the [Fitting] reader / set_bounds raised %r on a prior string of the '
                      'documented syntax' % (e,), small)
        return
    d = ctx.model().call('c08.objects', C.F(0.5), C.F(0.25), C.L(mops, lambda t: t), C.F(z10), C.F(z90), C.L(us), C.L(zs),
                         C.L(xs))
    trace = d.list(lambda: d.list(lambda: read_eval(d)))
    repeated = len(set(texts)) < len(texts)
    ctx.case(key=('objects', len(pool), repeated, any(o['op'] == 'set_bounds' for o in ops), any(o['op'] == 'file' for o in ops)),
             bucket='objects:history', sample=dict(texts=[p['text'] for p in pool], ops=ops))
    if repeated:
        ctx.bucket('objects:same-text-parsed-again')
    if any(o['op'] == 'set_bounds' for o in ops):
        ctx.bucket('objects:set_bounds-on-a-text-prior')
    if any(o['op'] == 'file' for o in ops):
        ctx.bucket('objects:created-by-reading-a-file')
    direct = {}
    for si, (obs_, own_) in zip(steps, snaps):
        mheap = trace[si] if si < len(trace) else []
        ctx.check_eq('number of prior objects alive vs PriorObjects.run', len(obs_), len(mheap), dict(small, step=si))
        for j, (impl, mod) in enumerate(zip(obs_, mheap)):
            compare_eval(ctx, 'text prior object %d after the history' % j, impl, mod, dict(small, step=si))
    # ---- property: every object is the prior ITS text describes (or, once re-bounded, the prior of ITS new bounds),
    # whatever happened to other objects and however often the text was parsed
    for step, (obs_, own_) in enumerate(snaps):
        for j, impl in enumerate(obs_):
            call = pool[texts[j]]['call']
            cls = klass_of(call)
            key = (texts[j], None if own_[j] is None else tuple(own_[j]))
            if key not in direct:
                direct[key] = observe(cls(**kwargs_of(call)) if own_[j] is None else cls(bounds=list(own_[j])), us, xs)
            if not same_prior(impl, direct[key]):
                shared = [i for i in range(len(heap)) if i != j and heap[i] is heap[j]]
                ctx.violation('text-object:not-its-own-prior', 'a prior built from text is not the prior its text describes (as '
                              'direct construction gives it) after the same text was parsed before / another prior object was '
                              're-bounded with set_bounds', small,
                              dict(after_op=step, object=j, text=pool[texts[j]]['text'], own_set_bounds=own_[j],
                                   got=[impl['lo'], impl['hi'], impl['samples'][:3]],
                                   want=[direct[key]['lo'], direct[key]['hi'], direct[key]['samples'][:3]],
                                   same_python_object_as=shared))
                return


# ----------------------------------------------------------------------------- the input-file route
def typed_tok(key, v):
    """one [Fitting] entry as ParameterParser.transform typed it (wire format of FittingSection.OptVal)"""
    k = C.S(key)
    if isinstance(v, bool):
        return '%s 0 %s' % (k, C.N(1 if v else 0))
    if isinstance(v, float):
        return '%s 1 %s' % (k, C.F(v))
    if isinstance(v, str):
        return '%s 2 %s' % (k, C.S(v))
    if isinstance(v, list) and all(isinstance(x, float) for x in v):
        return '%s 3 %s' % (k, C.L(v))
    if isinstance(v, list) and all(isinstance(x, str) for x in v):
        return '%s 4 %s' % (k, C.L(v, C.S))
    raise C.InfraError('untyped section value %r' % (v,))


def gen_file(rng, k):
    """a real ForwardModel with 2-4 declared parameters and a [Fitting] section configuring some of them — prior text, bounds,
    mode, factor — with `fit` True, False or left out; afterwards the parameters the file did not switch on are enabled
    through Optimizer.enable_fit (a second retrieval from the same file)"""
    npar = int(rng.integers(2, 5))
    params = []
    for i in range(npar):
        mode = 'log' if rng.random() < 0.5 else 'linear'
        if mode == 'log':
            b = [float(10 ** rng.uniform(-8, 2)), float(10 ** rng.uniform(2.5, 9))]
        else:
            b = [float(rng.uniform(-50, 0)), float(rng.uniform(1, 60))]
        if rng.random() < 0.3:
            b = b[::-1]
        params.append(dict(name='q%d' % i, route=ROUTES[(k + i) % 3], mode=mode, fit=bool(rng.random() < 0.3), bounds=b))
    pool = gen_text_pool(rng, int(rng.integers(1, 3)), rebound_bias=False)
    mentioned = [params[i]['name'] for i in rng.permutation(npar)[:int(rng.integers(1, npar + 1))]]
    lines, opts = [], {}

    def num(v):
        return repr(float(v))
    for n in mentioned:
        p = [q for q in params if q['name'] == n][0]
        o = {}
        r = rng.random()
        if r >= 0.35:
            o['fit'] = str(rng.choice(['False', 'no', 'false'])) if r < 0.7 else str(rng.choice(['True', 'yes', 'true']))
        if rng.random() < 0.5:
            o['prior'] = int(rng.integers(0, len(pool)))
        if rng.random() < 0.3:
            o['mode'] = str(rng.choice(['linear', 'log', 'LOG', 'Linear']))
        final_mode = (o.get('mode') or p['mode']).lower()
        if rng.random() < 0.12:
            o['factor'] = [float(rng.uniform(0.01, 0.9)), float(rng.uniform(1.1, 20))]
        need_pos = final_mode == 'log' and 'factor' not in o and not (p['bounds'][0] > 0 and p['bounds'][1] > 0)
        if rng.random() < 0.4 or need_pos:
            if final_mode == 'log':
                b = [float(10 ** rng.uniform(-6, 1)), float(10 ** rng.uniform(1.5, 7))]
            else:
                b = [float(rng.uniform(-30, 0)), float(rng.uniform(0.5, 40))]
            o['bounds'] = b[::-1] if rng.random() < 0.3 else b
        if not o:
            o['fit'] = 'False'
        opts[n] = o
        for key, v in o.items():
            if key == 'prior':
                text = '"%s"' % pool[v]['text']
            elif key in ('bounds', 'factor'):
                text = '%s, %s' % (num(v[0]), num(v[1]))
            else:
                text = v
            lines.append(('%s:%s' % (n, key), text))
    lines = [lines[i] for i in rng.permutation(len(lines))]
    later = [n for n in mentioned]
    if rng.random() < 0.3:
        later += [q['name'] for q in params if q['name'] not in mentioned][:1]
    later = [later[i] for i in rng.permutation(len(later))]
    return dict(type='file', host='model', params=params, hist=[], pool=pool, opts=opts, lines=lines, phases=[[], later])


FILE_TRUE = ('true', 'yes', 'yeah', 'yup', 'certainly', 'uh-huh')


def eval_file(ctx, case):
    import traceback
    from taurex.core.priors import Uniform, LogUniform
    from taurex.optimizer.optimizer import Optimizer
    params = [p for p in case['params'] if p['route'] != 'dynamic'] + [p for p in case['params'] if p['route'] == 'dynamic']
    pool, opts = case['pool'], case['opts']
    lines = [tuple(x) for x in case['lines']]
    phases = [list(x) for x in case['phases']]
    us = [float(u) for u in case['us']]
    xs = [float(x) for x in case['xs']]
    zs = [ndtri(u) for u in us]
    z10, z90 = z1090()
    small = dict(case)
    decl = {p['name']: p for p in params}

    def session():
        """a fresh model + optimizer, the file read and applied by the real ParameterParser"""
        host = _declared_host(case)()
        opt = Optimizer('verif', observed=_decl_obs(), model=host)
        pp = read_fitting_file(lines)
        typed = list(pp._raw_config['Fitting'].items())
        try:
            pp.setup_optimizer(opt)
            out = 0
        except Exception as e:      # noqa
            names = [f.name for f in traceback.extract_tb(e.__traceback__)]
            out = 3 if 'create_prior' in names else (1 if isinstance(e, KeyError) else (2 if isinstance(e, ValueError) else 5))
        return opt, typed, out

    def compile_view(opt, names):
        for n in names:
            opt.enable_fit(n)
        try:
            opt.compile_params()
        except ValueError:
            return 2, [], [], []
        pri = list(opt.fitting_priors)
        return 0, [t[0] for t in opt.fitting_parameters], list(opt.fit_names), pri

    try:
        opt, typed, out = session()
    except Exception as e:      # noqa
        ctx.malformed_outcome('file:fixture:' + type(e).__name__)
        return
    # ---- the model: FittingSection.setupOptimizer, OptimizerSM.run of the enable_fit calls, compile
    numbers = []
    for key, v in typed:
        if key.endswith(':prior') and isinstance(v, str) and v not in [t for t, _ in numbers]:
            dp = ctx.model().call('c08.parse', C.S(v))
            if dp.nat():
                numbers.append((v, [float(t) for _, _, toks in read_call(dp)['args'] for t in toks]))
    d = ctx.model().call('c08.file', C.F(z10), C.F(z90), C.F(0.5), C.F(0.25),
                         C.L(params, lambda p: ' '.join([C.S(p['name']), C.N(0 if p['mode'] == 'linear' else 1),
                                                         C.N(1 if p['fit'] else 0), C.F(p['bounds'][0]), C.F(p['bounds'][1]),
                                                         C.F(1.5)])),
                         C.L(typed, lambda kv: typed_tok(kv[0], kv[1])),
                         C.L(numbers, lambda tn: C.S(tn[0]) + ' ' + C.L(tn[1])), C.L(phases, lambda en: C.L(en, C.S)),
                         C.L(us), C.L(zs), C.L(xs))
    mout = d.nat()
    mph = d.list(lambda: (d.nat(), d.list(d.str), d.list(lambda: read_eval(d))))
    ctx.check_eq('setup_optimizer outcome vs FittingSection.setupOptimizer', out, mout, small)
    if out != 0 or mout != 0:
        ctx.malformed_outcome('file:setup-outcome-%d' % out)
        return
    ctx.case(key=('file', tuple(sorted(set(k for o in opts.values() for k in o))), len(opts)), bucket='file:section',
             sample=dict(lines=lines, phases=phases))
    views = []
    for pi, en in enumerate(phases):
        try:
            cout, pnames, fnames, pri = compile_view(opt, en)
        except Exception as e:      # noqa
            ctx.violation('file:compile-raises', 'enable_fit / compile_params after setup_optimizer raised %r' % (e,), small)
            return
        m_out, m_names, m_pri = mph[pi] if pi < len(mph) else (-1, [], [])
        ctx.check_eq('compile_params outcome after the file (+ enable_fit) vs OptimizerSM.compile', cout, m_out,
                     dict(small, phase=pi))
        if cout != 0 or m_out != 0:
            ctx.bucket('file:compile-ValueError(no default prior)')
            return
        ctx.check_eq('fit_names after the file (+ enable_fit) vs OptimizerSM.fitNames', fnames, m_names, dict(small, phase=pi))
        impl = [observe(p, us, xs) for p in pri]
        ctx.check_eq('number of compiled priors vs the model', len(impl), len(m_pri), dict(small, phase=pi))
        for n, a, b in zip(pnames, impl, m_pri):
            compare_eval(ctx, 'prior of %s after the file (+ enable_fit)' % n, a, b, dict(small, phase=pi))
        views.append((pnames, pri, impl))
        # ---- property: the prior of every fitted parameter is the one the file writes for it as text, else the default of
        # the mode and bounds the file (else the declaration) gives it
        enabled_later = set(x for ph in phases[:pi + 1] for x in ph)
        for n, p, got in zip(pnames, pri, impl):
            o = opts.get(n, {})
            infile = 'fit' in o and o['fit'].lower() in FILE_TRUE
            how = 'fit-in-file' if infile else ('enabled-later' if n in enabled_later else 'fit-by-declaration')
            if 'prior' in o:
                call = pool[o['prior']]['call']
                want = observe(klass_of(call)(**kwargs_of(call)), us, xs)
                ctx.bucket('file:param:%s:text-prior' % how)
                if type(p) is not klass_of(call) or not same_prior(got, want):
                    ctx.violation('file-prior:text:' + how, 'the prior written as text for a parameter in the input file is not the '
                                  'prior that parameter is fitted with', small,
                                  dict(phase=pi, param=n, text=pool[o['prior']]['text'], got=type(p).__name__ + ' ' + p.params()))
                    return
                continue
            mode = (o.get('mode') or decl[n]['mode']).lower()
            b = list(decl[n]['bounds'])
            if o.get('factor'):
                b = [o['factor'][0] * 1.5, o['factor'][1] * 1.5]
            if o.get('bounds'):
                b = list(o['bounds'])
            ctx.bucket('file:param:%s:default%s' % (how, ':from-the-file' if (o.get('bounds') or o.get('mode') or o.get('factor'))
                                                   else ''))
            want = observe(LogUniform(lin_bounds=b) if mode == 'log' else Uniform(bounds=b), us, xs)
            ok = all(got[k_] == want[k_] for k_ in ('kind', 'mode')) and all(
                C.close(got[k_], want[k_], rel=1e-13, abs_=1e-300) for k_ in ('lo', 'hi', 'samples', 'backs'))
            if not ok:
                ctx.violation('file-prior:default:' + how, 'the default prior of a fitted parameter does not derive from the mode and '
                              'bounds the input file gives it', small,
                              dict(phase=pi, param=n, mode=mode, bounds=b, got=type(p).__name__ + ' ' + p.params()))
                return
    # ---- history: one of the compiled uniform priors re-bounded in place, then the SAME file read again for a second
    # retrieval: every prior is again the one the file describes
    pnames, pri, impl = views[-1]
    cand = [i for i, p in enumerate(pri) if type(p) in (Uniform, LogUniform)]
    if cand:
        i = cand[0]
        lo, hi = pri[i].boundaries()
        pri[i].set_bounds([lo + 0.25 * (hi - lo), hi - 0.25 * (hi - lo)])
        ctx.bucket('file:history:set_bounds-then-second-read')
        for j, (n, p) in enumerate(zip(pnames, pri)):
            if j != i and not same_prior(observe(p, us, xs), impl[j]):
                ctx.violation('file-prior:changed-by-another', 're-bounding the prior of one parameter changed the prior of another '
                              'parameter of the same file', small, dict(rebounded=pnames[i], changed=n))
                return
    try:
        opt2, _, out2 = session()
        cout2, pnames2, _, pri2 = compile_view(opt2, [x for ph in phases for x in ph])
    except Exception as e:      # noqa
        ctx.violation('file:second-read-raises', 'a second read of the same file raised %r' % (e,), small)
        return
    ctx.bucket('file:second-read')
    impl2 = [observe(p, us, xs) for p in pri2]
    if (out2, cout2, pnames2) != (0, 0, pnames) or not all(same_prior(a, b) for a, b in zip(impl2, impl)):
        bad = [n for n, a, b in zip(pnames2, impl2, impl) if not same_prior(a, b)]
        ctx.violation('file-prior:second-read', 'a second read of the same input file (fresh model and optimizer) does not give the '
                      'priors the file describes', small, dict(params=bad, outcome=[out2, cout2]))



# ----------------------------------------------------------------------------- the scripting route (Optimizer setters)
MODE_SPELLINGS = {'log': ['log', 'Log', 'LOG', 'lOg'], 'linear': ['linear', 'Linear', 'LINEAR']}
SESSION_MOTIFS = ['prior-then-boundary', 'explicit-elsewhere-recompile-after-change', 'mode-spelling', 'observation-prior',
                  'prior-space-differs-from-mode', 'free']


def _session_obs(params):
    """an observation (BaseSpectrum) that owns fitting parameters of its own"""
    from taurex.spectrum import BaseSpectrum

    class SessObs(BaseSpectrum):
        def __init__(self):
            super().__init__('SessObs')
            for p in params:
                attr = '_v_' + p['name']
                setattr(self, attr, 1.5)

                def fget(s, _a=attr):
                    return getattr(s, _a)

                def fset(s, v, _a=attr):
                    setattr(s, _a, v)
                self.add_fittable_param(p['name'], '$%s$' % p['name'], fget, fset, p['mode'], bool(p['fit']), list(p['bounds']))

        def create_binner(self):
            from taurex.binning import NativeBinner
            return NativeBinner()
        spectrum = property(lambda self: np.zeros(3))
        wavenumberGrid = property(lambda self: np.linspace(1, 2, 3))
        errorBar = property(lambda self: np.ones(3))
    return SessObs()


def gen_session(rng, k):
    """a model with 2-3 and an observation with 1-2 declared parameters, and a history of the optimizer's own calls (python
    scripting): enable_fit / disable_fit / set_mode (any accepted spelling) / set_boundary / set_factor_boundary / set_prior /
    compile_params / update_model in any order; every history contains one of the motifs in turn and ends with a
    compilation and a write of a parameter vector"""
    def pos_bounds():
        b = [float(10 ** rng.uniform(-6, 1)), float(10 ** rng.uniform(1.5, 7))]
        return b[::-1] if rng.random() < 0.3 else b

    def decl(name, i):
        return dict(name=name, route=ROUTES[(k + i) % 3], mode='log' if rng.random() < 0.5 else 'linear',
                    fit=bool(rng.random() < 0.5), bounds=pos_bounds())
    mpar = [decl('q%d' % i, i) for i in range(int(rng.integers(2, 4)))]
    opar = [dict(decl('o%d' % i, i), route='dynamic') for i in range(int(rng.integers(1, 3)))]
    names = [p['name'] for p in mpar + opar]
    motif = SESSION_MOTIFS[k % len(SESSION_MOTIFS)]

    def a_prior(space=None):
        kinds = ['uniform', 'loguniform', 'loguniform_lin', 'gaussian', 'loggaussian']
        if space == 'log':
            kinds = ['loguniform', 'loguniform_lin', 'loggaussian']
        if space == 'linear':
            kinds = ['uniform', 'gaussian']
        kk = str(rng.choice(kinds))
        if kk in ('uniform', 'loguniform'):
            b = [float(rng.uniform(-8, 0)), float(rng.uniform(0.5, 9))]
            return dict(k=kk, b=b[::-1] if rng.random() < 0.3 else b)
        if kk == 'loguniform_lin':
            return dict(k=kk, b=pos_bounds())
        c = dict(k=kk, mean=float(rng.uniform(-5, 5)), std=float(10 ** rng.uniform(-2, 1)))
        if kk == 'loggaussian':
            c.update(lin_mean=None, lin_std=None)
        return c

    def rand_op():
        n = str(rng.choice(names))
        r = rng.random()
        if r < 0.2:
            return ['enable_fit', n]
        if r < 0.27:
            return ['disable_fit', n]
        if r < 0.45:
            return ['set_mode', n, str(rng.choice(MODE_SPELLINGS[str(rng.choice(['log', 'linear']))]))]
        if r < 0.62:
            return ['set_boundary', n, pos_bounds()]
        if r < 0.7:
            return ['set_factor_boundary', n, [float(rng.uniform(0.01, 0.9)), float(rng.uniform(1.1, 20))]]
        if r < 0.85:
            return ['set_prior', n, a_prior()]
        return ['compile_params']
    ops = [rand_op() for _ in range(int(rng.integers(0, 5)))]
    a = str(rng.choice(names))
    others = [n for n in names if n != a]
    b = str(rng.choice(others))
    mode_of = {p['name']: p['mode'] for p in mpar + opar}
    if motif == 'prior-then-boundary':
        ops += [['enable_fit', a], ['set_prior', a, a_prior()], ['set_boundary', a, pos_bounds()]]
    elif motif == 'explicit-elsewhere-recompile-after-change':
        change = [['set_boundary', b, pos_bounds()], ['set_mode', b, 'log' if mode_of[b] == 'linear' else 'linear'],
                  ['set_factor_boundary', b, [0.5, 3.0]]][int(rng.integers(0, 3))]
        ops += [['enable_fit', a], ['enable_fit', b], ['set_prior', a, a_prior()], ['compile_params'], change]
    elif motif == 'mode-spelling':
        ops += [['enable_fit', a], ['set_mode', a, str(rng.choice(['Log', 'LOG', 'lOg']))]]
    elif motif == 'observation-prior':
        a = str(rng.choice([p['name'] for p in opar]))
        ops += [['enable_fit', a], ['set_prior', a, a_prior()]]
    elif motif == 'prior-space-differs-from-mode':
        m = str(rng.choice(['log', 'linear']))
        ops += [['enable_fit', a], ['set_mode', a, m], ['set_prior', a, a_prior('linear' if m == 'log' else 'log')]]
    ops += [rand_op() for _ in range(int(rng.integers(0, 3)))]
    if motif != 'free':
        # (the motif's explicit priors are still in force at the end: a later set_prior would only replace them)
        ops = ops
    ops += [['compile_params'], ['update_model', [float(x) for x in rng.uniform(0.1, 3.0, size=len(names))]]]
    return dict(type='session', host='model', hist=[], params=mpar, obs_params=opar, ops=ops, motif=motif)


def eval_session(ctx, case):
    from taurex.core.priors import Uniform, LogUniform, PriorMode
    from taurex.optimizer.optimizer import Optimizer
    mpar = [p for p in case['params'] if p['route'] != 'dynamic'] + [p for p in case['params'] if p['route'] == 'dynamic']
    opar = list(case['obs_params'])
    ops = [list(o) for o in case['ops']]
    us = [float(u) for u in case['us']]
    xs = [float(x) for x in case['xs']]
    zs = [ndtri(u) for u in us]
    z10, z90 = z1090()
    small = dict(case)
    try:
        host = _declared_host(case)()
        obs = _session_obs(opar)
        opt = Optimizer('verif', observed=obs, model=host)
    except Exception as e:      # noqa
        ctx.malformed_outcome('session:fixture:' + type(e).__name__)
        return
    owner = {p['name']: ('model', host) for p in mpar}
    owner.update({p['name']: ('observation', obs) for p in opar})
    order = [p['name'] for p in mpar + opar]

    def op_tok(o):
        if o[0] in ('enable_fit', 'disable_fit'):
            return '%s %s' % (C.N(0 if o[0] == 'enable_fit' else 1), C.S(o[1]))
        if o[0] == 'set_mode':
            return '2 %s %s' % (C.S(o[1]), C.S(o[2]))
        if o[0] in ('set_boundary', 'set_factor_boundary'):
            return '%s %s %s %s' % (C.N(3 if o[0] == 'set_boundary' else 4), C.S(o[1]), C.F(o[2][0]), C.F(o[2][1]))
        if o[0] == 'set_prior':
            return '5 %s %s' % (C.S(o[1]), ' '.join(ctor_tokens(o[2])))
        if o[0] == 'compile_params':
            return '8'
        return '9 ' + C.L(o[1])
    ptok = lambda p: ' '.join([C.S(p['name']), C.N(0 if p['mode'] == 'linear' else 1), C.N(1 if p['fit'] else 0),
                               C.F(p['bounds'][0]), C.F(p['bounds'][1]), C.F(1.5)])
    # update_model takes a vector as long as the compiled view
    ncomp = 0
    explicit = {}
    impl = []
    for o in ops:
        rec = dict(out=0)
        try:
            if o[0] == 'set_prior':
                pr = build_ctor(o[2])
                opt.set_prior(o[1], pr)
                explicit[o[1]] = pr
            elif o[0] == 'compile_params':
                opt.compile_params()
                ncomp = len(opt.fitting_parameters)
                rec.update(rows=[t[0] for t in opt.fitting_parameters], names=list(opt.fit_names),
                           priors=list(opt.fitting_priors),
                           tuples={n: owner[n][1].fittingParameters[n] for n in order}, explicit=dict(explicit))
            elif o[0] == 'update_model':
                o[1] = list(o[1])[:ncomp]
                opt.update_model(list(o[1]))
                rec.update(values=[float(owner[n][1].fittingParameters[n][2]()) for n in order],
                           rows=[t[0] for t in opt.fitting_parameters], priors=list(opt.fitting_priors))
            elif o[0] in ('set_boundary', 'set_factor_boundary'):
                getattr(opt, o[0])(o[1], list(o[2]))
            elif o[0] == 'set_mode':
                opt.set_mode(o[1], o[2])
            else:
                getattr(opt, o[0])(o[1])
        except KeyError:
            rec['out'] = 1
        except ValueError:
            rec['out'] = 2
        except Exception as e:      # noqa
            ctx.violation('session:raises:' + o[0], 'a call of the optimizer raised %r' % (e,), small, dict(op=o))
            return
        impl.append(rec)
    d = ctx.model().call('c08.session', C.F(z10), C.F(z90), C.L(mpar, ptok), C.L(opar, ptok), C.L(ops, op_tok),
                         C.L(us), C.L(zs), C.L(xs))

    def read_step():
        out = d.nat()
        tag = d.nat()
        if tag == 1:
            return dict(out=out, names=d.list(d.str), priors=d.list(lambda: read_eval(d)))
        if tag == 2:
            return dict(out=out, values=d.list())
        return dict(out=out)
    mod = d.list(read_step)
    ctx.case(key=('session', case['motif'], tuple(o[0] for o in ops)), bucket='session:motif:' + case['motif'],
             sample=dict(ops=ops[:6]))
    ctx.check_eq('number of calls answered by OptimizerSM.step', len(mod), len(impl), small)
    for i, (o, a, m) in enumerate(zip(ops, impl, mod)):
        at = dict(small, step=i)
        ctx.check_eq('outcome of %s vs OptimizerSM.step' % o[0], a['out'], m['out'], at)
        if a['out'] != 0 or m['out'] != 0:
            ctx.bucket('session:outcome-%d:%s' % (a['out'], o[0]))
            if o[0] == 'compile_params':
                return
            continue
        if o[0] == 'set_mode' and o[2] != o[2].lower():
            ctx.bucket('session:set_mode:spelling-not-lowercase')
        if o[0] == 'compile_params':
            ctx.check_eq('fit_names after the history vs OptimizerSM.fitNames', a['names'], m['names'], at)
            got = [observe(p, us, xs) for p in a['priors']]
            ctx.check_eq('number of compiled priors vs the model', len(got), len(m['priors']), at)
            for n, g, mp in zip(a['rows'], got, m['priors']):
                compare_eval(ctx, 'prior of %s after the history' % n, g, mp, at)
            # ---- property: a fitted parameter without an explicit prior has the default prior of the mode and bounds its
            # tuple holds NOW; one given a prior with set_prior is fitted with that prior
            for n, p, g in zip(a['rows'], a['priors'], got):
                who = owner[n][0]
                explicit = a['explicit']         # the priors given with set_prior up to this compilation
                if n in explicit:
                    ctx.bucket('session:param:%s:explicit-prior' % who)
                    if p is not explicit[n] and not (type(p) is type(explicit[n]) and same_prior(g, observe(explicit[n], us, xs))):
                        ctx.violation('session-prior:explicit:' + who, 'a parameter given a prior with set_prior is not fitted '
                                      'with that prior (the default of its bounds and mode took its place)', small,
                                      dict(step=i, param=n, given=type(explicit[n]).__name__ + ' ' + explicit[n].params(),
                                           got=type(p).__name__ + ' ' + p.params()))
                        return
                    continue
                tup = a['tuples'][n]
                mode, b = str(tup[4]).lower(), list(tup[6])
                ctx.bucket('session:param:%s:default-prior' % who)
                want = observe(LogUniform(lin_bounds=b) if mode == 'log' else Uniform(bounds=b), us, xs)
                ok = all(g[k_] == want[k_] for k_ in ('kind', 'mode')) and all(
                    C.close(g[k_], want[k_], rel=1e-13, abs_=1e-300) for k_ in ('lo', 'hi', 'samples', 'backs'))
                if not ok:
                    ctx.violation('session-prior:default:' + who, 'the default prior of a fitted parameter does not derive from the '
                                  'mode and bounds the parameter has now', small,
                                  dict(step=i, param=n, mode=tup[4], bounds=b, got=type(p).__name__ + ' ' + p.params()))
                    return
        if o[0] == 'update_model':
            ctx.check_close('parameter values after update_model vs OptimizerSM.updateModel', a['values'], m['values'], at,
                            rel=1e-12, abs_=1e-300)
            # ---- property: log-space priors hand 10**x to the model, the others x — whatever the parameter's mode
            for n, p, x in zip(a['rows'], a['priors'], o[1]):
                who = owner[n][0]
                is_log = p.priorMode is PriorMode.LOG
                want = 10 ** x if is_log else x
                gotv = a['values'][order.index(n)]
                tmode = str(owner[n][1].fittingParameters[n][4]).lower()
                ctx.bucket('session:update_model:%s-space prior on a %s-mode parameter' % ('log' if is_log else 'linear', tmode))
                if not C.close(gotv, want, rel=1e-12):
                    ctx.violation('session-back:%s-prior:%s-mode:%s' % ('log' if is_log else 'linear', tmode, who),
                                  'update_model did not hand prior.prior(x) (10**x for a log-space prior, x otherwise) to the '
                                  'parameter', small, dict(step=i, param=n, x=x, got=gotv, expected=want,
                                                           prior=type(p).__name__ + ' ' + p.params()))
                    return


# ----------------------------------------------------------------------------- externals
def validate_externals(ctx):
    import scipy.stats as st
    rng = ctx.rng
    for _ in range(ctx.n(40, 400)):
        loc = rand_mag(rng)
        scale = abs(rand_mag(rng)) or 1.0
        us = gen_us(rng, 3)
        for u in us:
            a = float(st.uniform.ppf(u, loc=loc, scale=scale))
            ctx.check_close('scipy uniform.ppf = u*scale+loc', a, u * scale + loc, dict(u=u, loc=loc, scale=scale), rel=1e-15,
                            abs_=0.0)
            b = float(st.norm.ppf(u, loc=loc, scale=scale))
            ctx.check_close('scipy norm.ppf = ndtri(u)*scale+loc', b, ndtri(u) * scale + loc,
                            dict(u=u, loc=loc, scale=scale), rel=1e-15)
        ctx.bucket('externals')
    g = np.sort(np.concatenate([rng.random(ctx.n(200, 5000)), [0.0, 1.0, 1e-300, 1e-16, 1 - 1e-16]]))
    z = np.array([ndtri(u) for u in g])
    if not np.all(np.diff(z) >= 0):
        ctx.mismatch('ndtri monotone on the grid', dict(), dict(note='assumed monotonicity of Phi^-1 fails'))
    ctx.disagreements_checked += 1
    for x in [-1.0, 0.0, -0.0, 1e-320, 1.0, 10.0]:
        try:
            math.log10(x)
            ok = True
        except ValueError:
            ok = False
        ctx.check_eq('math.log10 raises iff x <= 0', ok, x > 0, dict(x=x))


# ----------------------------------------------------------------------------- malformed stream
def malformed(ctx):
    from taurex.core.priors import Uniform, LogUniform, Gaussian
    from taurex.parameter.factory import create_prior

    def rec(tag, f):
        try:
            v = f()
            if isinstance(v, float) or isinstance(v, np.floating):
                v = 'nan' if math.isnan(v) else ('inf' if math.isinf(v) else 'finite')
            ctx.malformed_outcome('%s:%s' % (tag, v))
        except Exception as e:
            ctx.malformed_outcome('%s:%s' % (tag, type(e).__name__))
    rng = ctx.rng
    for _ in range(ctx.n(5, 30)):
        a = rand_mag(rng)
        rec('uniform-degenerate-bounds', lambda: float(Uniform(bounds=[a, a]).sample(0.5)))
        rec('uniform-u-outside', lambda: float(Uniform(bounds=[a, a + 1]).sample(1.5)))
        rec('gaussian-std<=0', lambda: float(Gaussian(mean=a, std=-1.0).sample(0.5)))
        rec('uniform-width-overflow', lambda: float(Uniform(bounds=[-1.7e308, 1.7e308]).sample(0.5)))
        rec('uniform-nan-bound', lambda: float(Uniform(bounds=[float('nan'), a]).sample(0.5)))
        rec('loguniform-lin<=0', lambda: LogUniform(lin_bounds=[-abs(a), 1.0]) and 'built')
    for text in ['Uniform(1,2)', 'LogUniform(-1,2)', ' Uniform(bounds=(1,2))', 'Uniform(bounds=(1,2)', 'Uniform(bounds=(1,2,3))',
                 'Uniform(bounds=(1_0,2))', 'Uniform(bounds=(0x10,2))', 'UniForm(bounds=(1,2))', 'Uniform(bound=(1,2))',
                 'Uniform(bounds=1)', 'Gaussian(mean=(1,2))', 'Uniform(bounds=(01,2))', 'Uniform(bounds=(1.2.3,2))', 'Uniform', 'Uniform(bounds=(1,2));x', '', 'Uniform(bounds=(1e,2))']:
        def f():
            p = create_prior(text)
            return type(p).__name__ + p.params().replace(' ', '')
        rec('text:%r' % text, f)
        try:
            d = ctx.model().call('c08.parse', C.S(text))
            ctx.malformed_outcome('model-text:%r:%s' % (text, 'accepts' if d.nat() else 'rejects'))
        except C.ModelError:
            ctx.malformed_outcome('model-text:%r:err' % text)


def late_plugin_priors(ctx):
    """priors are "expandable with new ones implemented through plugins or custom code": a Prior subclass registered with
    the class factory AFTER prior strings have already been parsed in this session is found by its text form, and the built
    object is the one direct construction gives"""
    import types
    from taurex.core.priors import Prior, PriorMode
    from taurex.parameter.factory import create_prior
    from taurex.parameter.classfactory import ClassFactory

    class Triangular(Prior):
        def __init__(self, bounds=[0.0, 1.0]):
            super().__init__()
            self._low, self._up = min(*bounds), max(*bounds)

        def sample(self, x):
            w = self._up - self._low
            return self._low + w * math.sqrt(x / 2.0) if x < 0.5 else self._up - w * math.sqrt((1.0 - x) / 2.0)

        def params(self):
            return 'Bounds = [%s,%s]' % (self._low, self._up)

        def boundaries(self):
            return self._low, self._up

    class LogTriangular(Triangular):
        def __init__(self, bounds=[0.0, 1.0]):
            super().__init__(bounds=bounds)
            self._prior_mode = PriorMode.LOG
    create_prior('Uniform(bounds=(0.5, 2.0))')          # the session has parsed prior text before the plugin arrives
    plugin = types.ModuleType('verif_c08_late_priors')
    plugin.Triangular = Triangular
    plugin.LogTriangular = LogTriangular
    ClassFactory().load_plugin(plugin)
    rng = ctx.rng
    for cls, name in ((Triangular, 'Triangular'), (LogTriangular, 'LogTriangular'), (Triangular, 'triangular')):
        a, b = sorted(float(x) for x in rng.uniform(-8, 8, size=2))
        text = '%s(bounds=(%r, %r))' % (name, a, b)
        case = dict(type='late-plugin', text=text)
        ctx.case(key=('late-plugin', name), bucket='text:late-plugin-prior', sample=case)
        try:
            made = create_prior(text)
        except Exception as e:  # noqa
            ctx.violation('text-late-plugin-rejected', 'the text form of a prior class registered after earlier prior strings '
                          'were parsed is rejected (%r) although direct construction works' % (e,), case)
            continue
        direct = cls(bounds=(a, b))
        us = [0.0, 0.1, 0.5, 0.9, 1.0]
        if type(made) is not cls or made.priorMode is not direct.priorMode or \
                [made.sample(u) for u in us] != [direct.sample(u) for u in us]:
            ctx.violation('text-late-plugin-differs', 'the text form of a late-registered prior class does not build the object '
                          'direct construction gives', case, dict(built=type(made).__name__))


def run(ctx):
    validate_externals(ctx)
    rng = ctx.rng
    for k in range(ctx.n(2400, 40000)):
        ctor = gen_ctor(rng, k)
        if rng.random() < 0.04 and ctor['k'] in ('loguniform_lin', 'default', 'loggaussian'):
            # quota: non-positive linear arguments -> the constructor must raise, the model must say so
            if 'b' in ctor:
                ctor['b'][int(rng.integers(0, 2))] = -abs(ctor['b'][0]) if rng.random() < 0.7 else 0.0
                if ctor['k'] == 'default':
                    ctor['mode'] = 'log'
            else:
                ctor['lin_mean'] = -1.0 if rng.random() < 0.5 else 0.0
        # quota (uniform classes, every 4th case): the unit-interval values handed over as NumPy single-precision numbers
        u_as = 'float32' if (k // 6) % 4 == 3 and ctor['k'] in ('uniform', 'loguniform', 'loguniform_lin', 'default') else None
        eval_ctor(ctx, dict(ctor=ctor, us=gen_us(rng), xs=[float(x) for x in rng.uniform(-30, 30, size=3)] + [0.0], u_as=u_as))
    for k in range(ctx.n(2000, 30000)):
        call = gen_call(rng, k)
        text = render(rng, call)
        expect_ok = True
        r = rng.random()
        if r < 0.04:
            text = text.replace(call['fn'], call['fn'][:3] + call['fn'][3:].swapcase(), 1)   # unknown casing
            expect_ok = False
        elif r < 0.08 and call['args']:
            bad = 'mean' if 'niform' in call['fn'].lower() else 'bounds'
            k0, c0, t0 = call['args'][0]
            call2 = dict(fn=call['fn'], args=[(bad, c0, t0)] + call['args'][1:])
            text = render(rng, call2)
            expect_ok = False
        elif r < 0.11:
            call2 = dict(fn=call['fn'], args=[(kk, c, ['-' + t.lstrip('+-') if kk.startswith('lin_') else t for t in toks])
                                             for kk, c, toks in call['args']])
            text = render(rng, call2)
            expect_ok = not any(kk.startswith('lin_') for kk, _, _ in call['args'])
        eval_text(ctx, dict(text=text, us=gen_us(rng, 2), xs=[float(x) for x in rng.uniform(-20, 20, size=2)],
                            expect_ok=expect_ok, call=call if (expect_ok and r >= 0.11) else None))
    # positional arguments: refused by the real parser (MalformedPriorInput since the fix) and by the model alike
    from taurex.util.fitting import parse_priors, MalformedPriorInput
    from taurex.parameter.factory import create_prior
    for k in range(ctx.n(60, 600)):
        call = gen_call(rng, k)
        toks = [t for _, _, ts in call['args'] for t in ts] or [lit(rng), lit(rng)]
        kw = ['%s=%s' % (key, ts[0]) for key, c, ts in call['args'] if c == 0][:int(rng.integers(0, 2))]
        text = '%s(%s)' % (call['fn'], ', '.join(toks[:int(rng.integers(1, 3))] + kw))
        case = dict(type='positional', text=text)
        try:
            parse_priors(text)
            kind = 'accepted'
        except MalformedPriorInput:
            kind = 'MalformedPriorInput'
        except Exception as e:
            kind = type(e).__name__
        d = ctx.model().call('c08.parse', C.S(text))
        ctx.check_eq('positional prior arguments: parse_priors raises MalformedPriorInput / parsePrior rejects',
                     (kind, False), ('MalformedPriorInput', bool(d.nat())), case)
        try:
            p = create_prior(text)
            ctx.violation('text-positional-accepted', 'create_prior built a prior from positional arguments (silently '
                          'dropping them)', case, dict(built=type(p).__name__ + ' ' + p.params()))
        except Exception:
            pass
        ctx.case(key=None, bucket='text:positional:' + kind)
    # canonical print of generated calls, through the model, back into the real parser
    for k in range(ctx.n(400, 5000)):
        call = gen_call(rng, k)
        d = ctx.model().call('c08.print', *call_tokens(call, C.S))
        text = d.str()
        eval_text(ctx, dict(text=text, us=gen_us(rng, 1), xs=[1.0], expect_ok=True, call=call))
        ctx.bucket('text:printed-by-model')
    # declared parameters: decorator (keyword-only and direct form) / add_fittable_param, modify_bounds histories, default
    # priors through the real Optimizer (ForwardModel host) or the module-level compile_params (plain Fittable host)
    for k in range(ctx.n(360, 5000)):
        case = gen_declared(rng, k)
        eval_declared(ctx, dict(case, us=gen_us(rng, 2), xs=[float(x) for x in rng.uniform(-20, 20, size=2)]))
    # prior OBJECTS: the same text parsed again (factory / input file), set_bounds on objects in between
    for k in range(ctx.n(160, 2400)):
        case = gen_objects(rng, k)
        eval_objects(ctx, dict(case, us=gen_us(rng, 1), xs=[float(rng.uniform(-20, 20))]))
    # the input-file route: [Fitting] section -> setup_optimizer -> (enable_fit) -> compile_params, second read
    for k in range(ctx.n(200, 3000)):
        case = gen_file(rng, k)
        eval_file(ctx, dict(case, us=gen_us(rng, 1), xs=[float(rng.uniform(-20, 20))]))
    malformed(ctx)
    late_plugin_priors(ctx)
    # the scripting route: the optimizer's own setters in any order (model- and observation-owned parameters), compile_params
    # and update_model anywhere in the history (after the older streams, whose random draws stay as they were)
    for k in range(ctx.n(240, 3600)):
        case = gen_session(rng, k)
        eval_session(ctx, dict(case, us=gen_us(rng, 1), xs=[float(rng.uniform(-20, 20))]))


def replay(ctx, case):
    if 'type' not in case and 'case' in case:
        case = case['case']
    if case.get('type') == 'positional':
        from taurex.parameter.factory import create_prior
        try:
            p = create_prior(case['text'])
            ctx.violation('text-positional-accepted', 'create_prior built a prior from positional arguments (silently '
                          'dropping them)', case, dict(built=type(p).__name__ + ' ' + p.params()))
        except Exception:
            pass
        return
    if case.get('type') == 'objects':
        eval_objects(ctx, case)
    elif case.get('type') == 'file':
        eval_file(ctx, case)
    elif case.get('type') == 'session':
        eval_session(ctx, case)
    elif case.get('type') == 'declared':
        eval_declared(ctx, case)
    elif case.get('type') == 'text':
        eval_text(ctx, case)
    else:
        eval_ctor(ctx, case)
