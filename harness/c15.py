"""C15 — an input file builds exactly the documented object graph.

translator   : pregen() regenerates lean/TaurexModel/Gen/{Registry,Docs}.lean from the `taurex` package in use
correspondence: generated input files -> ParameterParser.generate_*() with every constructor call recorded,
                compared with `Factory.expected` (driver op c15.expected); ParameterParser.transform vs
                `Factory.transform`; every *_factory look-up vs `Factory.lookup`; taurex.taurex.main run in process
                vs the same components built through the library from the model's expected graph
predicates   : documented selectors resolve to exactly one class; documented keys are accepted; every key set reaches
                the constructor; unknown selector / unknown key / unknown contribution raise; CLI == library
"""
import os
import re
import sys
import io
import math
import types
import shutil
import inspect
import logging
import tempfile
import contextlib
import importlib
from fractions import Fraction

import numpy as np

from harness import common as C
from harness import gen_registry as G

G.install_stubs()

USES_MODELS = ['C08']     # Priors.createPrior (op c08.create of driver_c08): the prior a class name + keys + values denote

RULE = ('input files over all built-in sections (Chemistry+gases, Temperature, Pressure, Planet, Star, Model+'
        'contributions, Observation, Instrument, Optimizer), selector drawn from every input_keywords() entry in '
        'random letter case, 0..all constructor keys with values typed after the default (numeric literals in many '
        'spellings, bool words, lists, strings, quoted strings), composite + selectors, custom python_file classes, '
        'and a malformed stream (unknown/mistyped selector, unknown key, misspelt section, missing selector, bad mixin '
        'order, unknown contribution); [Fitting] sections giving 1-3 parameters a prior as text (four classes, any documented '
        'key subset incl. lin_std without lin_mean, literal spellings of the documented syntax). distinct non-trivial = distinct (stream, tuple of (section, selector, sorted keys))')
ASSUMPTIONS = ['ConfigObj parsing is not modelled: the model receives the tree of raw strings / string lists the '
               'generator wrote; every run checks that ConfigObj(file) returns exactly that tree',
               'Python float(str) = the PEP-515 decimal literal grammar of Factory.parseNumber (ASCII), value compared '
               'exactly against the correctly rounded Fraction',
               'str.lower() restricted to ASCII',
               'inspect.getfullargspec / inspect.getmembers order (by name) as documented',
               'ast-based parse_priors is not modelled here (the prior class look-up is; the prior that a class name with keys '
               'and numbers denotes is Priors.createPrior of the C08 model, to which the priors of [Fitting] definitions are '
               'compared after their keys were seen to enter the constructor)',
               'constructor bodies are not modelled: calls are recorded on entry; pypolychord/dyPolyChord are import '
               'stubs so that the two optional optimizers are discoverable',
               'the CLI comparison uses scratch pickle opacities (no line lists), rel 1e-12',
               'source tie of detect_and_return_klass / build_new_mixed_class (Props/C15Src.lean, oracle detectExt of '
               'Proofs/C15SrcDetect.lean): importlib loads the named file or raises; inspect.getmembers(module, inspect.isclass) lists '
               'the classes of the module sorted by name (section base classes the file imported may appear anywhere in between); '
               'issubclass(c, base) for a class of the file = it derives from the base of that section, a base class derives only from '
               'itself; type(name, bases, namespace) makes the class with exactly these bases in this order and raises TypeError for a '
               'repeated base (other MRO conflicts are not modelled); hasattr(x, "__len__") holds for lists and tuples']

# source tie (harness/translate.py, dialect 'dyn'): the value typing and the factory functions, regenerated on every run into
# lean/TaurexModel/Gen/SrcC15.lean and proved equal to the functions of TaurexModel/Factory.lean in lean/Props/C15Src.lean
_F = 'taurex/parameter/factory.py'
_P = 'taurex/parameter/parameterparser.py'
_SECTION_FACTORIES = ['gas_factory', 'temp_factory', 'chemistry_factory', 'pressure_factory', 'star_factory',
                      'model_factory', 'planet_factory', 'optimizer_factory', 'observation_factory', 'instrument_factory']
SRC_SPECS = [
    dict(module='taurex/parameter/parameterparser.py', cls='ParameterParser', func='transform', lean='transform',
         dialect='dyn', mutates=['section']),
    dict(module='taurex/mixin/core.py', func='determine_mixin_args', lean='determine_mixin_args', dialect='dyn'),
    dict(module=_F, func='get_keywordarg_dict', lean='get_keywordarg_dict', dialect='dyn'),
    dict(module=_F, func='create_klass', lean='create_klass', dialect='dyn'),
    dict(module=_F, func='mixin_factory', lean='mixin_factory', dialect='dyn'),
    dict(module=_F, func='generic_factory', lean='generic_factory', dialect='dyn'),
] + [dict(module=_F, func=f, lean=f, dialect='dyn') for f in _SECTION_FACTORIES] + [
    dict(module=_F, func='determine_klass', lean='determine_klass', dialect='dyn', mutates=['config'],
         params={'factory': 'fn1'}),
    dict(module=_F, func='create_profile', lean='create_profile', dialect='dyn', mutates=['config'],
         params={'factory': 'fn1'}),
] + [dict(module=_F, func=f, lean=f, dialect='dyn', mutates=['config'])
     for f in ('create_star', 'create_planet', 'create_optimizer', 'create_observation', 'create_instrument')] + [
    dict(module=_F, func='generate_contributions', lean='generate_contributions', dialect='dyn'),
    dict(module=_F, func='create_model', lean='create_model', dialect='dyn', mutates=['config']),
    dict(module=_F, func='create_prior', lean='create_prior', dialect='dyn'),
    # `new_value = value` aliases the entry config[key]; that entry is never read again (it is deleted by `del config[k]`
    # right after the loop, and `config` is the private copy `ConfigObj.dict()` returns): the alias is dead
    dict(module=_F, func='create_chemistry', lean='create_chemistry', dialect='dyn', mutates=['config'],
         unshared=['new_value']),
    dict(module=_F, func='create_temperature_profile', lean='create_temperature_profile', dialect='dyn',
         mutates=['config']),
    dict(module=_F, func='create_pressure_profile', lean='create_pressure_profile', dialect='dyn', mutates=['config']),
] + [dict(module=_P, cls='ParameterParser', func=f, lean=f, dialect='dyn')
     for f in ('generate_chemistry_profile', 'generate_pressure_profile', 'generate_temperature_profile',
               'generate_planet', 'generate_star', 'generate_optimizer')] + [
    # `observation_config` / `inst_config` alias an entry of `config`, the private copy `self._raw_config.dict()` returns,
    # which is not read again before the function returns: the alias is dead
    dict(module=_P, cls='ParameterParser', func='generate_observation', lean='generate_observation', dialect='dyn',
         unshared=['observation_config']),
    dict(module=_P, cls='ParameterParser', func='create_snr', lean='create_snr', dialect='dyn'),
    dict(module=_P, cls='ParameterParser', func='generate_instrument', lean='generate_instrument', dialect='dyn',
         unshared=['inst_config'], calls={'self.create_snr': 'create_snr'}),
    dict(module=_P, cls='ParameterParser', func='generate_model', lean='generate_model', dialect='dyn',
         calls={'self.generate_' + x: 'generate_' + x
                for x in ('chemistry_profile', 'pressure_profile', 'temperature_profile', 'planet', 'star')}),
    # the two functions `determine_klass` reaches through the oracle, translated themselves: the selection logic around the
    # importlib / `type()` machinery (which stays the oracle's: Proofs/C15SrcDetect.lean)
    dict(module=_F, func='detect_and_return_klass', lean='detect_and_return_klass', dialect='dyn'),
    dict(module='taurex/mixin/core.py', func='build_new_mixed_class', lean='build_new_mixed_class', dialect='dyn'),
]

GEN = None
BUILD_BROKEN = False

SLOTS = ['chemistry', 'temperature', 'pressure', 'planet', 'star', 'model', 'observation', 'instrument', 'optimizer']
SEC_HEADER = {'chemistry': 'Chemistry', 'temperature': 'Temperature', 'pressure': 'Pressure', 'planet': 'Planet',
              'star': 'Star', 'model': 'Model', 'observation': 'Observation', 'instrument': 'Instrument',
              'optimizer': 'Optimizer'}
SEC_FIELD = {'chemistry': 'chemistry_type', 'temperature': 'profile_type', 'pressure': 'profile_type',
             'planet': 'planet_type', 'star': 'star_type', 'model': 'model_type', 'observation': 'observation',
             'instrument': 'instrument', 'optimizer': 'optimizer', 'gas': 'gas_type'}
STRICT = {'chemistry', 'temperature', 'pressure', 'gas', 'contribution'}


def quiet():
    try:
        from taurex.log import setLogLevel
        setLogLevel(logging.CRITICAL + 10)
    except Exception:
        pass
    logging.disable(logging.CRITICAL)


def gen():
    global GEN
    if GEN is None:
        quiet()
        GEN = G.regenerate()
    return GEN


def pregen(ctx):
    g = gen()
    ctx.extra = dict(translator=dict(
        regenerated=g['changed'], repo_root=G.repo_root(),
        classes={s: len(g['registry'][s]['classes']) for s in G.SECTIONS},
        mixins={s: len(g['registry'][s]['mixins']) for s in G.SECTIONS},
        documented_selectors=len(g['docs']['selectors']), documented_keys=len(g['docs']['keys']),
        dangling_doc_class_paths=[list(d) for d in g['docs']['dangling']],
        documented_not_in_package=[[e['sec'], e['keyword']] for e in g['docs']['selectors'] if not e['inPackage']]))


def build_failure_is_obligation(log):
    """a failing `lake build` counts as a broken obligation when it happens in the regenerated tables or in the
    theorems stated over them"""
    global BUILD_BROKEN
    pat = re.compile(r'(Props[./]C15|Proofs[./]C15|TaurexModel[./]Gen[./])')
    for ln in log.split('\n'):
        if ('error' in ln or '✖' in ln) and pat.search(ln):
            BUILD_BROKEN = True
            return True
    return False


# ----------------------------------------------------------------------------- wire encoding
def enc_scalar(s):
    t = s[0]
    if t == 'none':
        return 'n'
    if t == 'bool':
        return 'b %d' % (1 if s[1] else 0)
    if t == 'int':
        return 'i %d' % s[1]
    if t == 'dec':
        return 'd %d %d %d' % (1 if s[1] else 0, s[2], s[3])
    if t == 'inf':
        return 'f %d' % (1 if s[1] else 0)
    if t == 'nan':
        return 'x'
    return 's ' + C.S(s[1])


def enc_value(v):
    if v[0] == 'scalar':
        return 'S ' + enc_scalar(v[1])
    if v[0] == 'list':
        return 'L ' + C.L(v[1], enc_scalar)
    if v[0] == 'other':
        return 'O ' + C.S(v[1])
    return 'R ' + C.S(v[1])


def raw_value(r):
    if isinstance(r, list):
        return ('list', [('str', x) for x in r])
    return ('scalar', ('str', r))


def enc_config(kv, conv=lambda v: v):
    return C.L(kv, lambda p: C.S(p[0]) + ' ' + enc_value(conv(p[1])))


def enc_sec(sec):
    return enc_config(sec['scalars'], raw_value) + ' ' + C.L(
        sec['subs'], lambda p: C.S(p[0]) + ' ' + enc_config(p[1], raw_value))


def enc_file(f):
    return C.L(f, lambda p: C.S(p[0]) + ' ' + enc_sec(p[1]))


def enc_klass(k):
    b = lambda x: '1' if x else '0'
    return ' '.join([C.S(k['path']), C.S(k['name']), C.L(k['keywords'], C.S), C.L(k['args'], C.S),
                     C.L(k['required'], C.S), enc_config(k['kwargs']), b(k['varkw']), b(k['isMixin']),
                     C.L(k['mixinArgs'], C.S), enc_config(k['mixinKwargs']), b(k['hasAddGas']),
                     C.L(k['sections'], C.S)])


def enc_customs(cs):
    return C.L(cs, lambda p: C.S(p[0]) + ' ' + C.L(p[1], enc_klass))


def dec_scalar(d):
    t = d.tok()
    if t == 'n':
        return ('none',)
    if t == 'b':
        return ('bool', d.bool())
    if t == 'i':
        return ('int', d.int())
    if t == 'd':
        return ('dec', d.bool(), d.nat(), d.int())
    if t == 'f':
        return ('inf', d.bool())
    if t == 'x':
        return ('nan',)
    if t == 's':
        return ('str', d.str())
    raise C.InfraError('bad scalar tag ' + t)


def dec_value(d):
    t = d.tok()
    if t == 'S':
        return ('scalar', dec_scalar(d))
    if t == 'L':
        return ('list', d.list(lambda: dec_scalar(d)))
    if t == 'O':
        return ('other', d.str())
    if t == 'R':
        return ('ref', d.str())
    raise C.InfraError('bad value tag ' + t)


def dec_config(d):
    return d.list(lambda: (d.str(), dec_value(d)))


def dec_component(d):
    return dict(cls=d.str(), kwargs=dec_config(d), mixins=d.list(lambda: (d.str(), dec_config(d))))


def dec_result(d, f):
    if d.nat() == 0:
        return None
    t = d.tok()
    if t == 'E':
        return ('error', d.tok(), d.str())
    return ('ok', f())


def dec_graph(d):
    g = {}
    g['chemistry'] = dec_result(d, lambda: dict(chemistry=dec_component(d), gases=d.list(lambda: dec_component(d)),
                                                added=d.bool()))
    for s in ('temperature', 'pressure', 'planet', 'star'):
        g[s] = dec_result(d, lambda: dec_component(d))
    g['model'] = dec_result(d, lambda: dict(model=dec_component(d), contributions=d.list(lambda: dec_component(d))))

    def obs():
        t = d.tok()
        return 'self' if t == 'self' else dec_component(d)
    g['observation'] = dec_result(d, obs)
    g['instrument'] = dec_result(d, lambda: dict(instrument=dec_component(d), numObs=dec_value(d)))
    g['optimizer'] = dec_result(d, lambda: dec_component(d))
    if not d.done():
        raise C.InfraError('trailing tokens in c15.expected response')
    return g


# ----------------------------------------------------------------------------- model value vs python object
def dec_to_float(neg, mant, exp):
    if abs(exp) > 5000:
        v = 0.0 if (exp < 0 or mant == 0) else math.inf
    else:
        try:
            v = float(Fraction(mant) * Fraction(10) ** exp)
        except OverflowError:
            v = math.inf
    return -v if neg else v


def clean_repr(v):
    return re.sub(r' at 0x[0-9a-fA-F]+', '', repr(v))


def match_scalar(s, pv):
    t = s[0]
    if t == 'none':
        return pv is None
    if t == 'bool':
        return type(pv) is bool and pv == s[1]
    if t == 'int':
        return type(pv) is int and pv == s[1]
    if t == 'dec':
        return type(pv) is float and pv == dec_to_float(s[1], s[2], s[3]) and not math.isnan(pv)
    if t == 'inf':
        return type(pv) is float and math.isinf(pv) and (pv < 0) == s[1]
    if t == 'nan':
        return type(pv) is float and math.isnan(pv)
    return type(pv) is str and pv == s[1]


def match_value(mv, pv, refs):
    t = mv[0]
    if t == 'scalar':
        return match_scalar(mv[1], pv)
    if t == 'list':
        return isinstance(pv, (list, tuple)) and len(pv) == len(mv[1]) and all(
            match_scalar(a, b) for a, b in zip(mv[1], pv))
    if t == 'other':
        return clean_repr(pv) == mv[1]
    if t == 'ref':
        return mv[1] in refs and pv is refs[mv[1]]
    return False


def match_kwargs(mkw, pkw, refs):
    """model config (ordered list) vs recorded keyword dict: same key set, every value matches"""
    if sorted(k for k, _ in mkw) != sorted(pkw.keys()):
        return False
    return all(match_value(v, pkw[k], refs) for k, v in mkw)


def show_kwargs(pkw):
    return {k: clean_repr(v)[:80] for k, v in pkw.items()}


# ----------------------------------------------------------------------------- recording constructor calls
HARD_CLASSES = ['taurex.data.spectrum.lightcurve.ObservedLightCurve', 'taurex.data.spectrum.observed.ObservedSpectrum',
                'taurex.data.spectrum.taurex.TaurexSpectrum', 'taurex.data.spectrum.iraclis.IraclisSpectrum',
                'taurex.instruments.snr.SNRInstrument']


def load_class(path):
    mod, _, name = path.rpartition('.')
    return getattr(importlib.import_module(mod), name)


class Recorder:
    """wraps __init__ of every registry class, __init_mixin__ of every mixin class and mixin.core.mixed_init;
    records (class, bound keyword arguments) of every outermost construction, on entry"""

    def __init__(self):
        self.calls = []
        self.depth = 0
        self.mixed = []
        self.undo = []
        self.installed = False

    def reset(self):
        self.calls = []
        self.depth = 0
        self.mixed = []

    def install(self):
        if self.installed:
            return
        reg = gen()['registry']
        seen = set()
        classes = []
        for sec in G.SECTIONS:
            for k in reg[sec]['classes'] + reg[sec]['mixins']:
                if k['cls'] not in seen:
                    seen.add(k['cls'])
                    classes.append(k['cls'])
        for p in HARD_CLASSES:
            try:
                c = load_class(p)
            except Exception:
                continue
            if c not in seen:
                seen.add(c)
                classes.append(c)
        for c in classes:
            self._patch(c, '__init__', self._init_wrapper)
            if '__init_mixin__' in c.__dict__:
                self._patch(c, '__init_mixin__', self._mixin_wrapper)
        import taurex.mixin.core as core
        real = core.mixed_init
        rec = self

        def mixed_init(self, **kwargs):
            r = dict(kind='mixed', type=type(self), bases=[G.class_path(b) for b in type(self).__bases__],
                     kwargs=dict(kwargs), children=[], body_raised=False, obj=self)
            if rec.depth == 0:
                rec.calls.append(r)
            rec.mixed.append(r)
            rec.depth += 1
            try:
                return real(self, **kwargs)
            except BaseException:
                r['body_raised'] = True
                raise
            finally:
                rec.depth -= 1
                rec.mixed.pop()
        core.mixed_init = mixed_init
        self.undo.append(lambda: setattr(core, 'mixed_init', real))
        m = types.ModuleType('c15_recorder')
        m.record_custom = self.record_custom
        sys.modules['c15_recorder'] = m
        self.installed = True

    def uninstall(self):
        for u in reversed(self.undo):
            try:
                u()
            except Exception:
                pass
        self.undo = []
        sys.modules.pop('c15_recorder', None)
        self.installed = False

    def _patch(self, cls, name, factory):
        own = name in cls.__dict__
        orig = getattr(cls, name)
        w = factory(cls, orig)
        setattr(cls, name, w)
        if own:
            self.undo.append(lambda: setattr(cls, name, orig))
        else:
            self.undo.append(lambda: delattr(cls, name))

    @staticmethod
    def _bind(sig, self_, a, k):
        b = sig.bind(self_, *a, **k)
        out = {}
        for n, v in list(b.arguments.items())[1:]:
            if sig.parameters[n].kind is inspect.Parameter.VAR_KEYWORD:
                out.update(v)
            elif sig.parameters[n].kind is inspect.Parameter.VAR_POSITIONAL:
                out['*' + n] = v
            else:
                out[n] = v
        return out

    def _init_wrapper(self, cls, orig):
        rec = self
        sig = inspect.signature(orig)

        def wrapper(self, *a, **k):
            r = None
            top = rec.depth == 0 and type(self) is cls
            inmixed = bool(rec.mixed) and type(self) is rec.mixed[-1]['type'] and type(self).__bases__[-1] is cls \
                and not any(c['kind'] == 'init' for c in rec.mixed[-1]['children'])
            if top or inmixed:
                try:
                    r = dict(kind='init', path=G.class_path(cls), kwargs=rec._bind(sig, self, a, k),
                             body_raised=False, obj=self)
                except TypeError:
                    r = None
                if r is not None:
                    (rec.calls if top else rec.mixed[-1]['children']).append(r)
            rec.depth += 1
            try:
                return orig(self, *a, **k)
            except BaseException:
                if r is not None:
                    r['body_raised'] = True
                raise
            finally:
                rec.depth -= 1
        wrapper.__signature__ = sig
        wrapper.__name__ = '__init__'
        return wrapper

    def _mixin_wrapper(self, cls, orig):
        rec = self
        sig = inspect.signature(orig)

        def wrapper(self, *a, **k):
            r = None
            if rec.mixed and type(self) is rec.mixed[-1]['type']:
                try:
                    r = dict(kind='mixin', path=G.class_path(cls), kwargs=rec._bind(sig, self, a, k),
                             body_raised=False)
                    rec.mixed[-1]['children'].append(r)
                except TypeError:
                    r = None
            rec.depth += 1
            try:
                return orig(self, *a, **k)
            except BaseException:
                if r is not None:
                    r['body_raised'] = True
                raise
            finally:
                rec.depth -= 1
        wrapper.__signature__ = sig
        wrapper.__name__ = '__init_mixin__'
        return wrapper

    def record_custom(self, obj, name, kwargs):
        if self.depth == 0:
            self.calls.append(dict(kind='init', path='custom:' + name, kwargs=dict(kwargs), body_raised=False, obj=obj))


REC = Recorder()
CUSTOM_DEFAULTS = {}


def body_raised(calls):
    for c in calls:
        if c.get('body_raised'):
            return True
        if any(ch.get('body_raised') for ch in c.get('children', [])):
            return True
    return False


def match_component(mc, rc, refs):
    """model Component vs recorded call"""
    if mc['mixins']:
        if rc['kind'] != 'mixed' or rc['bases'][-1] != mc['cls']:
            return False
        inits = [c for c in rc['children'] if c['kind'] == 'init']
        mix = [c for c in rc['children'] if c['kind'] == 'mixin']
        if rc['body_raised'] and (len(inits) < 1 or len(mix) < len(mc['mixins'])):
            # the constructor body failed part-way: what was called must be a prefix of what is expected
            if inits and not (inits[0]['path'] == mc['cls'] and match_kwargs(mc['kwargs'], inits[0]['kwargs'], refs)):
                return False
            return all(m['path'] == p and match_kwargs(kw, m['kwargs'], refs)
                       for m, (p, kw) in zip(mix, mc['mixins']))
        if len(inits) != 1 or inits[0]['path'] != mc['cls'] or not match_kwargs(mc['kwargs'], inits[0]['kwargs'], refs):
            return False
        if [m['path'] for m in mix] != [p for p, _ in mc['mixins']]:
            return False
        return all(match_kwargs(kw, m['kwargs'], refs) for m, (_, kw) in zip(mix, mc['mixins']))
    if rc['kind'] != 'init' or rc['path'] != mc['cls']:
        return False
    if rc['path'].startswith('custom:'):
        # the generated custom classes report every parameter: those not passed must carry their default
        dflt = CUSTOM_DEFAULTS.get(rc['path'], {})
        passed = {k for k, _ in mc['kwargs']}
        extra = {k: v for k, v in rc['kwargs'].items() if k not in passed}
        if not all(k in dflt and match_value(dflt[k], v, refs) for k, v in extra.items()):
            return False
        return match_kwargs(mc['kwargs'], {k: v for k, v in rc['kwargs'].items() if k in passed}, refs)
    return match_kwargs(mc['kwargs'], rc['kwargs'], refs)


def show_call(rc):
    if rc['kind'] == 'mixed':
        return dict(mixed=rc['bases'], children=[show_call(c) for c in rc['children']])
    return dict(cls=rc['path'], kwargs=show_kwargs(rc['kwargs']))


def show_comp(mc):
    return dict(cls=mc['cls'], kwargs=[(k, v) for k, v in mc['kwargs']], mixins=mc['mixins'])


# ----------------------------------------------------------------------------- generator of input files
IDENT = re.compile(r'^[A-Za-z0-9_.+/:-]+$')
WORDS_T = ['true', 'yes', 'yeah', 'yup', 'certainly', 'uh-huh']
WORDS_F = ['false', 'no', 'nope', 'no-way', 'hell-no']
STRINGS = ['auto', 'K', 'Pa', 'bar', 'linear', 'multi', 'parameter', 'H2O', 'CH4', 'x-y', 'abc_1', '1-', 'a b',
           'two words here', 'p, q', 'nearly-true', 'yes-no', 'e5', '1e', '--3', '1__0', '_1', '1_', '0x10', '1.2.3',
           'infinit', 'nano', '.', '+', 'e', 'T', 'none', 'None', '1 e5']
# outside the ASCII scope of the model (Python's float() and lower() know Unicode digits / letters): fed to the real
# code, outcome recorded, never judged
NON_ASCII = ['٣', '１２', 'İsothermal', 'ＴＲＵＥ', '1\u00a0', '²']
MOLS = ['H2O', 'CH4', 'CO2', 'CO', 'NH3', 'N2', 'TiO', 'HCN']
# names a documented "string list" (fill_gases, gases, cia_pairs, ...) may legitimately hold that happen to read as one of the
# boolean words in some letter case (nitric oxide!), or carry upper-case letters: they must stay the strings written
WORDLIKE_NAMES = ['NO', 'No', 'no', 'YES', 'Yes', 'True', 'false', 'NOPE', 'Yup', 'N2', 'He', 'H2', 'K', 'Pa', 'TiO', 'NaH']


def rcase(rng, s):
    m = int(rng.integers(0, 6))
    if m == 0:
        return s.upper()
    if m == 1:
        return s.capitalize()
    if m == 2:
        return s.swapcase()
    return s


def num_literal(rng, positive=False):
    style = int(rng.integers(0, 16))
    sign = '' if positive else str(rng.choice(['', '', '', '+', '-']))
    a = int(rng.integers(0, 100000))
    b = int(rng.integers(0, 1000))
    e = int(rng.integers(-12, 12))
    if style == 0:
        s = '%d' % a
    elif style == 1:
        s = '%d.%d' % (a % 1000, b)
    elif style == 2:
        s = '%de%d' % (a % 100, e)
    elif style == 3:
        s = '%d.%dE%+d' % (a % 10, b, e)
    elif style == 4:
        s = '.%d' % b
    elif style == 5:
        s = '%d.' % (a % 1000)
    elif style == 6:
        s = '%d_%03d' % (a % 100 + 1, b)
    elif style == 7:
        s = '000%d' % (a % 100)
    elif style == 8:
        s = repr(float(rng.uniform(-5, 5)) * 10.0 ** e).lstrip('-')
    elif style == 9:
        s = '%d.%de%d_%d' % (a % 10, b, e % 3, abs(e) % 10)
    elif style == 10:
        s = '1e-%d' % (abs(e) + 1)
    elif style == 11:
        s = str(rng.choice(['0', '0.0', '-0', '1e400', '1e-400', '0e0', '00.00']))
        sign = ''
    elif style == 12 and not positive:
        s = str(rng.choice(['inf', 'Infinity', 'NaN', 'nan', 'INF', 'iNfInItY']))
    else:
        s = '%d' % (a % 3000 + 1)
    return sign + s


def bool_literal(rng):
    return rcase(rng, str(rng.choice(WORDS_T + WORDS_F)))


def str_literal(rng):
    return str(rng.choice(STRINGS))


def list_literal(rng):
    n = int(rng.integers(0, 5))
    m = int(rng.integers(0, 5))
    if m == 4:
        return [str(rng.choice(WORDLIKE_NAMES)) for _ in range(max(n, 1))]
    if m == 0:
        return [num_literal(rng) for _ in range(n)]
    if m == 1:
        return [str(rng.choice(MOLS)) for _ in range(n)]
    if m == 2:
        return [str(rng.choice(['H2-H2', 'H2-He', 'He-He'])) for _ in range(n)]
    return [str(rng.choice([num_literal(rng), str_literal(rng), bool_literal(rng)])) for _ in range(n)]


SIZE_WORDS = ('nlayers', 'ngauss', 'num_', 'window', 'smoothing', 'points', 'rows', 'col', 'iter', 'modes', 'live',
              'verbos', 'update')


def literal_for(rng, default, key, scratch):
    """raw value (str or list of str) typed after the constructor default; 12 % of the time any type"""
    if any(w in key for w in ('path', 'filename', 'file', 'prefix')):
        return os.path.join(scratch, 'aux', key + '_%d' % int(rng.integers(0, 4)))
    if any(w in key.lower() for w in SIZE_WORDS):
        # parameters that size arrays / loops inside constructor bodies: keep them small (any spelling)
        n = int(rng.integers(1, 40))
        return str(rng.choice(['%d' % n, '%d.0' % n, '%de0' % n, '+%d' % n, '0%d' % n, '%d.' % n]))
    if rng.random() < 0.12:
        default = ('scalar', ('none',))
    if default[0] == 'list':
        return list_literal(rng)
    if default[0] == 'scalar':
        t = default[1][0]
        if t == 'bool':
            return bool_literal(rng)
        if t in ('int', 'dec', 'inf', 'nan'):
            return num_literal(rng)
        if t == 'str':
            return str_literal(rng)
    m = int(rng.integers(0, 5))
    return [num_literal(rng), str_literal(rng), bool_literal(rng), list_literal(rng), num_literal(rng)][m]


def fmt_item(s):
    if s != '' and IDENT.match(s) and s.strip() == s:
        return s
    return '"%s"' % s


def fmt_raw(r):
    if isinstance(r, list):
        if len(r) == 0:
            return ','
        if len(r) == 1:
            return fmt_item(r[0]) + ','
        return ', '.join(fmt_item(x) for x in r)
    return fmt_item(r)


def write_file(path, f):
    out = []
    for name, sec in f:
        out.append('[%s]' % name)
        for k, v in sec['scalars']:
            out.append('%s = %s' % (k, fmt_raw(v)))
        for sub, kv in sec['subs']:
            out.append('    [[%s]]' % sub)
            for k, v in kv:
                out.append('    %s = %s' % (k, fmt_raw(v)))
        out.append('')
    with open(path, 'w', encoding='utf-8') as fh:
        fh.write('\n'.join(out) + '\n')


CUSTOM_BASE = {'temperature': ('taurex.temperature', 'TemperatureProfile'),
               'pressure': ('taurex.pressure', 'PressureProfile'),
               'planet': ('taurex.planet', 'BasePlanet'), 'star': ('taurex.stellar', 'Star'),
               'gas': ('taurex.chemistry', 'Gas'), 'optimizer': ('taurex.optimizer', 'Optimizer'),
               'chemistry': ('taurex.chemistry', 'Chemistry')}
# create_planet hands `Planet` (not BasePlanet) to detect_and_return_klass
DETECT_BASE = dict(CUSTOM_BASE, planet=('taurex.planet', 'Planet'))
PYDEFAULTS = [('1.5', 1.5), ('2', 2), ("'x'", 'x'), ('None', None), ('True', True), ('[1, 2.5]', [1, 2.5]),
              ('1e-4', 1e-4), ("'auto'", 'auto'), ('[]', []), ('False', False)]


class FileGen:
    def __init__(self, rng, scratch):
        self.rng = rng
        self.scratch = scratch
        self.reg = gen()['registry']
        self.ncustom = 0
        os.makedirs(os.path.join(scratch, 'aux'), exist_ok=True)
        self.obsfile = os.path.join(scratch, 'aux', 'obs.dat')
        wl = np.linspace(1, 5, 6)
        np.savetxt(self.obsfile, np.vstack([wl, 0.01 + 0 * wl, 1e-4 + 0 * wl]).T)

    def classes(self, sec):
        return [k for k in self.reg[sec]['classes'] if k['keywords']]

    def keys_for(self, k, sec, names=None):
        rng = self.rng
        pool = list(k['kwargs'])
        if sec not in STRICT:
            have = {n for n, _ in pool}
            pool += [(a, ('scalar', ('none',))) for a in k['args'] if a not in have]
        if sec == 'model':
            pool = [p for p in pool if p[0] not in ('planet', 'star', 'chemistry', 'temperature_profile',
                                                    'pressure_profile', 'observation') or rng.random() < 0.03]
        if sec == 'gas':
            pool = [p for p in pool if p[0] != 'molecule_name' or rng.random() < 0.1]
        if sec == 'optimizer':
            pool = [p for p in pool if p[0] not in ('observed', 'model')]
        if not pool:
            return []
        m = int(rng.integers(0, 4))
        n = 0 if m == 0 else (len(pool) if m == 1 else int(rng.integers(0, len(pool) + 1)))
        idx = sorted(rng.choice(len(pool), size=n, replace=False).tolist()) if n else []
        if rng.random() < 0.3:
            rng.shuffle(idx)
        return [(pool[i][0], literal_for(rng, pool[i][1], pool[i][0], self.scratch)) for i in idx]

    def component(self, sec, meta):
        """scalars of one component section: selector field + keys"""
        rng = self.rng
        ks = self.classes(sec)
        k = ks[int(rng.integers(0, len(ks)))]
        sel = str(rng.choice(k['keywords']))
        if sec != 'contribution':
            sel = rcase(rng, sel)
        keys = self.keys_for(k, sec)
        meta.append((sec, sel.lower(), tuple(sorted(x for x, _ in keys))))
        field = SEC_FIELD.get(sec)
        scal = [(field, sel)] + keys if field else keys
        if field and rng.random() < 0.3:
            rng.shuffle(scal)
        return sel, scal, k

    def mixin_component(self, sec, meta):
        rng = self.rng
        mixins = [m for m in self.reg[sec]['mixins'] if m['keywords']]
        sel, scal, k = self.component(sec, meta)
        if not mixins:
            return sel, scal, k
        nm = int(rng.integers(1, 3))
        ms = [mixins[int(rng.integers(0, len(mixins)))] for _ in range(nm)]
        field = SEC_FIELD[sec]
        msel = '+'.join([rcase(rng, str(rng.choice(m['keywords']))) for m in ms] + [sel])
        scal = [(a, (msel if a == field else b)) for a, b in scal]
        for m in ms:
            for key, d in m['mixinKwargs']:
                if rng.random() < 0.6 and key not in [a for a, _ in scal]:
                    scal.append((key, literal_for(rng, d, key, self.scratch)))
        meta.append((sec, 'mixin', msel.lower()))
        return msel, scal, k

    def custom_component(self, sec, meta, customs):
        rng = self.rng
        self.ncustom += 1
        path = os.path.join(self.scratch, 'custom_%d.py' % self.ncustom)
        mod, base = CUSTOM_BASE[sec]
        dmod, dbase = DETECT_BASE[sec]
        src = ['import sys', 'from %s import %s as _Base' % (mod, base)]
        members = []
        if rng.random() < 0.3:
            imp = [k for k in self.reg[sec]['classes']]
            k = imp[int(rng.integers(0, len(imp)))]
            dcls = getattr(importlib.import_module(dmod), dbase)
            if issubclass(k['cls'], dcls) and k['cls'] is not dcls:
                src.append('from %s import %s' % (k['cls'].__module__, k['cls'].__name__))
                members.append({x: k[x] for x in k if x != 'cls'})
        for _ in range(int(rng.integers(1, 3))):
            name = str(rng.choice(['Alpha', 'Mine', 'Zed', 'Kappa', 'Beta'])) + str(rng.choice(['', 'X', '2'])) + \
                '_%d' % self.ncustom
            if name in [m['name'] for m in members]:
                continue
            nreq = 1 if rng.random() < 0.1 else 0
            nkw = int(rng.integers(0, 5))
            params = ['r%d' % i for i in range(nreq)]
            kw = []
            for i in range(nkw):
                d = PYDEFAULTS[int(rng.integers(0, len(PYDEFAULTS)))]
                kw.append(('k%d_%s' % (i, name.lower()[:2]), d))
            sig = ', '.join(['self'] + params + ['%s=%s' % (n, d[0]) for n, d in kw])
            allp = params + [n for n, _ in kw]
            src += ['', 'class %s(_Base):' % name, '    activeGases = []', '    inactiveGases = []',
                    '    def __init__(%s):' % sig,
                    "        sys.modules['c15_recorder'].record_custom(self, %r, dict(%s))" % (
                        name, ', '.join('%s=%s' % (p, p) for p in allp))]
            sections = [sec] + (['planet'] if False else [])
            members.append(dict(path='custom:' + name, name=name, keywords=[], args=allp, required=params,
                                kwargs=[(n, G.value_of(d[1])) for n, d in kw], varkw=False, isMixin=False,
                                mixinArgs=[], mixinKwargs=[], hasAddGas=False, sections=sections))
        # the planet factory looks for subclasses of Planet: a class deriving from BasePlanet only is not found
        if sec == 'planet':
            for m in members:
                if m['path'].startswith('custom:'):
                    m['sections'] = []
            src[1] = 'from taurex.planet import Planet as _Base'
            for m in members:
                if m['path'].startswith('custom:'):
                    m['sections'] = ['planet']
        with open(path, 'w') as fh:
            fh.write('\n'.join(src) + '\n')
        customs.append((path, members))
        field = SEC_FIELD[sec]
        chosen = sorted([m for m in members if sec in m['sections']], key=lambda m: m['name'])
        keys = []
        if chosen:
            c = chosen[0]
            pool = list(c['kwargs'])
            if sec not in STRICT:
                pool += [(a, ('scalar', ('none',))) for a in c['required']]
            for key, d in pool:
                if rng.random() < 0.6:
                    keys.append((key, literal_for(rng, d, key, self.scratch)))
        scal = [(field, rcase(rng, 'custom')), ('python_file', path)] + keys
        meta.append((sec, 'custom', tuple(sorted(x for x, _ in keys))))
        return scal

    def chemistry(self, meta, customs, flavour):
        rng = self.rng
        if flavour == 'mixin':
            _, scal, k = self.mixin_component('chemistry', meta)
        elif flavour == 'custom' and rng.random() < 0.5:
            scal = self.custom_component('chemistry', meta, customs)
        else:
            _, scal, k = self.component('chemistry', meta)
        subs = []
        mols = list(rng.choice(MOLS, size=int(rng.integers(0, 4)), replace=False))
        for mol in mols:
            if flavour == 'custom' and rng.random() < 0.3:
                g = self.custom_component('gas', meta, customs)
            else:
                _, g, _ = self.component('gas', meta)
            subs.append((str(mol), g))
        return dict(scalars=scal, subs=subs)

    def model(self, meta):
        rng = self.rng
        _, scal, _ = self.component('model', meta)
        subs = []
        cs = self.classes('contribution')
        for i in rng.permutation(len(cs))[:int(rng.integers(0, 5))]:
            k = cs[int(i)]
            name = str(rng.choice(k['keywords']))
            if name in [s for s, _ in subs]:
                continue
            keys = self.keys_for(k, 'contribution')
            meta.append(('contribution', name, tuple(sorted(x for x, _ in keys))))
            subs.append((name, keys))
        return dict(scalars=scal, subs=subs)

    def observation(self, meta):
        rng = self.rng
        m = int(rng.integers(0, 7))
        if m == 0:
            scal = [('observed_spectrum', self.obsfile)]
        elif m == 1:
            scal = [('taurex_spectrum', 'self')]
        elif m == 2:
            scal = [(str(rng.choice(['lightcurve', 'iraclis_spectrum', 'taurex_spectrum'])),
                     os.path.join(self.scratch, 'aux', 'missing.dat'))]
        elif m == 3:
            scal = [('iraclis_spectrum', 'a.pickle'), ('observed_spectrum', self.obsfile), ('lightcurve', 'x.lc')]
            rng.shuffle(scal)
            scal = [tuple(x) for x in scal]
        elif m == 4:
            scal = [('observation', rcase(rng, str(rng.choice(['observed', 'dat-file', 'text'])))),
                    ('filename', self.obsfile)]
        else:
            _, scal, _ = self.component('observation', meta)
        meta.append(('observation', tuple(k for k, _ in scal)))
        return dict(scalars=scal, subs=[])

    def instrument(self, meta):
        rng = self.rng
        m = int(rng.integers(0, 5))
        if m <= 1:
            scal = [('instrument', rcase(rng, str(rng.choice(['snr', 'signalnoise', 'SNR']))))]
            if rng.random() < 0.7:
                scal.append(('SNR', num_literal(rng)))
        else:
            _, scal, _ = self.component('instrument', meta)
        if rng.random() < 0.5:
            scal.append(('num_observations', num_literal(rng, positive=True)))
        meta.append(('instrument', tuple(k for k, _ in scal)))
        return dict(scalars=scal, subs=[])

    def file(self, flavour='plain'):
        """flavour: plain | mixin | custom.  returns dict(file, customs, meta)"""
        rng = self.rng
        meta, customs, f = [], [], []

        def simple(sec):
            if flavour == 'mixin' and self.reg[sec]['mixins'] and rng.random() < 0.8:
                return dict(scalars=self.mixin_component(sec, meta)[1], subs=[])
            if flavour == 'custom' and sec in CUSTOM_BASE and rng.random() < 0.5:
                return dict(scalars=self.custom_component(sec, meta, customs), subs=[])
            return dict(scalars=self.component(sec, meta)[1], subs=[])
        for slot in SLOTS:
            if rng.random() < 0.2:
                continue
            if slot == 'chemistry':
                s = self.chemistry(meta, customs, flavour)
            elif slot == 'model':
                s = self.model(meta)
            elif slot == 'observation':
                s = self.observation(meta)
            elif slot == 'instrument':
                s = self.instrument(meta)
            else:
                s = simple(slot)
                if slot == 'planet' and rng.random() < 0.2:
                    s['scalars'] = [kv for kv in s['scalars'] if kv[0] != 'planet_type' or
                                    any(k == 'python_file' for k, _ in s['scalars'])]
            f.append((SEC_HEADER[slot], s))
        order = rng.permutation(len(f))
        f = [f[int(i)] for i in order]
        return dict(file=f, customs=customs, meta=meta, flavour=flavour, malformed=None)

    # ---- malformed stream
    def malform(self, case):
        rng = self.rng
        f = case['file']
        if not f:
            return case
        kinds = ['unknown_selector', 'unknown_key', 'misspelt_section', 'missing_selector', 'selector_typed',
                 'bad_mixin', 'unknown_contribution', 'custom_no_file', 'contribution_case', 'unknown_subkey',
                 'sibling_key', 'shortcut_extra_key']
        kind = kinds[int(rng.integers(0, len(kinds)))]
        if kind == 'shortcut_extra_key':
            # the two sections ParameterParser short-cuts: snr instrument, file-key observation
            if rng.random() < 0.5:
                name, slot = 'Instrument', 'instrument'
                sc = [('instrument', rcase(rng, str(rng.choice(['snr', 'signalnoise'])))), ('SNR', num_literal(rng)),
                      (str(rng.choice(['zzz_unknown', 'num_observation', 'binner'])), num_literal(rng))]
            else:
                name, slot = 'Observation', 'observation'
                sc = [(str(rng.choice(['observed_spectrum', 'taurex_spectrum'])), self.obsfile),
                      (str(rng.choice(['zzz_unknown', 'filename', 'observed_lightcurve'])), num_literal(rng))]
                if sc[0][0] == 'taurex_spectrum':
                    sc[0] = ('taurex_spectrum', 'self')
            f = [(n, s_) for n, s_ in f if n != name] + [(name, dict(scalars=sc, subs=[]))]
            out = dict(case, file=f, malformed=dict(kind=kind, slot=slot, target=slot, header=name))
            out['meta'] = case['meta'] + [('malformed', kind, slot)]
            return out
        i = int(rng.integers(0, len(f)))
        name, sec = f[i]
        slot = [s for s in SLOTS if SEC_HEADER[s] == name][0]
        field = SEC_FIELD[slot]
        sc = list(sec['scalars'])
        subs = [(n, list(kv)) for n, kv in sec['subs']]
        target = slot

        def setsel(v):
            return [(k, (v if k == field else x)) for k, x in sc] if any(k == field for k, _ in sc) \
                else sc + [(field, v)]
        if kind == 'unknown_selector':
            sc = setsel(str(rng.choice(['nonexistent', 'isothermall', 'tauREx3', 'simplee', 'x', 'blackbod', 'snrr'])))
        elif kind == 'unknown_key':
            sc = sc + [(str(rng.choice(['zzz_unknown', 'kappa_ir', 'Temperature', 't', 'num_observation', 'nlayer'])),
                        num_literal(rng))]
        elif kind == 'sibling_key':
            ks = self.classes(slot) if slot in self.reg else []
            pool = sorted({a for k in ks for a in k['args']})
            if pool:
                sk = str(rng.choice(pool))
                # a sibling's key may be one this class knows too: keep array-sizing parameters small (ngauss = 75981
                # makes numpy build a 46 GB companion matrix)
                sv = literal_for(rng, ('scalar', ('int', 0)), sk, self.scratch) \
                    if any(w in sk.lower() for w in SIZE_WORDS) else num_literal(rng)
                sc = sc + [(sk, sv)]
                seen = set()
                sc = [kv for kv in sc if not (kv[0] in seen or seen.add(kv[0]))]
        elif kind == 'misspelt_section':
            name = str(rng.choice([name[:-1], name.lower(), name + 's', name.upper()]))
        elif kind == 'missing_selector':
            sc = [(k, v) for k, v in sc if k != field]
        elif kind == 'selector_typed':
            sc = setsel(rng.choice(['12', 'true', 'No', '1e3']) if rng.random() < 0.7 else ['isothermal', 'simple'])
            sc = [(k, (list(v) if isinstance(v, (list, np.ndarray)) else str(v))) for k, v in sc]
        elif kind == 'bad_mixin':
            base = str(rng.choice(['isothermal', 'file', 'simple', 'taurex', 'blackbody', 'transmission', 'nestle']))
            sc = setsel(str(rng.choice([base + '+tempscalar', 'tempscalar+isothermal+guillot', '+' + base, base + '+',
                                        'tempscalar++' + base, 'makefree+' + base, 'nomixin+' + base,
                                        'tempscalar+custom', 'tempscalar + isothermal'])))
        elif kind == 'unknown_contribution':
            if slot != 'model':
                return self.malform(case) if rng.random() < 0.9 else case
            subs.append((str(rng.choice(['Foo', 'BHMie', 'Clouds', 'absorption', 'cia', 'RAYLEIGH'])), []))
            target = 'contribution'
        elif kind == 'contribution_case':
            if slot != 'model' or not subs:
                return self.malform(case) if rng.random() < 0.9 else case
            j = int(rng.integers(0, len(subs)))
            subs[j] = (subs[j][0].lower(), subs[j][1])
            target = 'contribution'
        elif kind == 'unknown_subkey':
            if not subs:
                return self.malform(case) if rng.random() < 0.9 else case
            j = int(rng.integers(0, len(subs)))
            subs[j] = (subs[j][0], subs[j][1] + [(str(rng.choice(['zzz_unknown', 'mix_ratios', 'cia_pair'])), '1.0')])
            target = 'gas' if slot == 'chemistry' else 'contribution'
        elif kind == 'custom_no_file':
            sc = [(k, v) for k, v in setsel('custom') if k != 'python_file']
        f = list(f)
        f[i] = (name, dict(scalars=sc, subs=subs))
        out = dict(case, file=f, malformed=dict(kind=kind, slot=slot, target=target, header=name))
        out['meta'] = case['meta'] + [('malformed', kind, slot)]
        return out


# ----------------------------------------------------------------------------- one file: real code vs model
OBS_FILE_KEYS = ('lightcurve', 'observed_spectrum', 'taurex_spectrum', 'iraclis_spectrum')
EXC_NAMES = {'KeyError', 'NotImplementedError', 'TypeError', 'AttributeError', 'Exception', 'ValueError'}


def raw_tree(f):
    return {name: dict([(k, v) for k, v in sec['scalars']] + [(n, dict(kv)) for n, kv in sec['subs']])
            for name, sec in f}


def run_slot(pp, slot, obs=None):
    """call the real generate_* of one slot with recording; returns dict(ret, exc, calls)"""
    REC.reset()
    fn = {'chemistry': pp.generate_chemistry_profile, 'temperature': pp.generate_temperature_profile,
          'pressure': pp.generate_pressure_profile, 'planet': pp.generate_planet, 'star': pp.generate_star,
          'model': pp.generate_model, 'observation': pp.generate_observation,
          'instrument': pp.generate_instrument, 'optimizer': pp.generate_optimizer}[slot]
    out = dict(ret=None, exc=None, calls=None)
    try:
        with contextlib.redirect_stdout(io.StringIO()):
            out['ret'] = fn()
    except BaseException as e:  # noqa
        if isinstance(e, (KeyboardInterrupt, SystemExit)):
            raise
        out['exc'] = e
    out['calls'] = list(REC.calls)
    return out


def expected_sequence(g, slot):
    """model graph -> ('error', kind) | ('ok', [components], extra) for the constructor calls of one slot"""
    r = g[slot]
    if r is None:
        return None
    if slot == 'model':
        seq = []
        for dep in ('chemistry', 'pressure', 'temperature', 'planet', 'star'):
            e = expected_sequence(g, dep)
            if e is None:
                continue
            if e[0] == 'error':
                return e
            seq += e[1]
        if r[0] == 'error':
            return ('error', r[1], seq)
        return ('ok', seq + [r[1]['model']] + r[1]['contributions'], None)
    if r[0] == 'error':
        return ('error', r[1], [])
    v = r[1]
    if slot == 'chemistry':
        return ('ok', v['gases'] + [v['chemistry']], v)
    if slot == 'observation':
        return ('ok', [] if v == 'self' else [v], v)
    if slot == 'instrument':
        return ('ok', [v['instrument']], v)
    return ('ok', [v], v)


def raised_in(exc, names):
    tb = exc.__traceback__
    while tb is not None:
        if tb.tb_frame.f_code.co_name in names:
            return True
        tb = tb.tb_next
    return False


def compare_slot(ctx, slot, exp, got, case_small):
    """correspondence of one generate_* call. returns True when they agree"""
    obs = 'C15 %s: ParameterParser.generate vs Factory.expected' % slot
    ctx.disagreements_checked += 1

    def bad(why, **kw):
        ctx.mismatch(obs, case_small, dict(why=why, model=repr(exp)[:600], impl_exc=repr(got['exc'])[:200],
                                           impl_calls=[show_call(c) for c in got['calls']][:8], **kw))
        return False
    if exp is None:
        if got['exc'] is not None or got['ret'] is not None or got['calls']:
            return bad('model: section absent')
        return True
    refs = dict(got.get('refs', {}))
    if exp[0] == 'error':
        if got['exc'] is None:
            return bad('model: error, implementation returned normally')
        if body_raised(got['calls']):
            ctx.bucket('ctor-body-raised-before-model-error')
            return True
        if raised_in(got['exc'], ('addGas', 'add_contribution')):
            ctx.bucket('raised-after-construction:' + slot)
            return True
        if type(got['exc']).__name__ != exp[1]:
            return bad('exception class differs')
        return True
    seq = exp[1]
    calls = got['calls']
    if got['exc'] is not None:
        if not body_raised(calls) and raised_in(got['exc'], ('addGas', 'add_contribution')):
            # behaviour of the built objects after construction (duplicate gas, ...): outside the model
            ctx.bucket('raised-after-construction:' + slot)
        elif not body_raised(calls):
            return bad('implementation raised, model: ok')
        ctx.bucket('ctor-body-raised:' + slot)
        if len(calls) > len(seq):
            return bad('more constructor calls than expected')
        seq = seq[:len(calls)]
    elif len(calls) != len(seq):
        return bad('number of constructor calls differs')
    for mc, rc in zip(seq, calls):
        if not match_component(mc, rc, refs):
            return bad('constructor call differs', expected=show_comp(mc), recorded=show_call(rc))
    if got['exc'] is None:
        if slot == 'observation' and exp[2] == 'self' and got['ret'] != 'self':
            return bad('self observation')
        if slot == 'instrument':
            if not (isinstance(got['ret'], tuple) and match_value(exp[2]['numObs'], got['ret'][1], {})):
                return bad('num_observations differs')
        if slot == 'chemistry':
            added = [g for g in getattr(got['ret'], '_gases', [])] if hasattr(got['ret'], '_gases') else None
            if hasattr(got['ret'], 'addGas') != exp[2]['added']:
                return bad('addGas flag differs')
    return True


def key_reaches(ctx, slot, got, f, case_small):
    """property predicate on the implementation alone: when a component section is built without error, every
    key written under it is among the keyword arguments some recorded constructor call of that slot received"""
    hdr = SEC_HEADER[slot]
    secs = [s for n, s in f if n == hdr]
    if not secs or got['exc'] is not None or not got['calls']:
        return
    sec = secs[0]
    field = SEC_FIELD[slot]

    def received(call):
        # for a mixed class `mixed_init(**kwargs)` takes anything: only what the base constructor and the
        # `__init_mixin__`s were actually handed counts as "reached"
        ks = {} if call['kind'] == 'mixed' else dict(call['kwargs'])
        for ch in call.get('children', []):
            ks.update(ch['kwargs'])
        return ks
    skip = {field, 'python_file'}
    if slot == 'instrument':
        skip.add('num_observations')
    if slot == 'observation':
        skip |= {'lightcurve', 'observed_spectrum', 'taurex_spectrum', 'iraclis_spectrum'}
    if slot == 'model':
        top = [c for c in got['calls']][-1 - len(sec['subs'])] if len(got['calls']) > len(sec['subs']) else None
        calls = [top] if top else []
    elif slot == 'chemistry':
        calls = [got['calls'][-1]]
    else:
        calls = got['calls'][:1]
    have = {}
    for c in calls:
        have.update(received(c))
    sel = dict(sec['scalars']).get(field, '')
    seln = str(sel).lower() if isinstance(sel, str) else 'list'
    if slot == 'observation' and any(k in dict(sec['scalars']) for k in OBS_FILE_KEYS):
        seln = 'file-key'
    if slot == 'instrument' and seln in ('snr', 'signalnoise'):
        seln = 'snr'

    def judge(k, raw, got_kw, where, keyname):
        if k not in got_kw:
            ctx.violation(keyname, 'key %r set under %s was neither passed to the constructor nor reported as an error'
                          % (k, where), case_small, dict(key=k, calls=[show_call(c) for c in got['calls']][:4]))
            return False
        exp = oracle_typed(raw)
        if exp is not NotImplemented and (isinstance(exp, str) or (isinstance(exp, list) and exp and isinstance(exp[0], str))):
            ctx.bucket('value-judged:%s' % ('string-list' if isinstance(exp, list) else 'string') +
                       (':wordlike-or-uppercase' if str(raw) != str(raw).lower() or (
                           isinstance(raw, list) and any(x.lower() in WORDS_T + WORDS_F for x in raw)) else ''))
        if exp is not NotImplemented and not same_typed(exp, got_kw[k]):
            ctx.violation('value:%s' % keyname.split(':', 1)[1],
                          'key %r set under %s reached the constructor with a different value than the one written'
                          % (k, where), case_small, dict(key=k, written=raw, received=clean_repr(got_kw[k])))
            return False
        return True
    for k, v in sec['scalars']:
        if k in skip:
            continue
        if not judge(k, v, have, '[%s]' % hdr, 'unknownkey:%s:%s' % (slot, seln)):
            return
    # sub-sections: gases of [Chemistry] (built before it, in order), contributions of [Model] (built after it)
    if slot in ('chemistry', 'model') and len(got['calls']) > len(sec['subs']):
        n = len(sec['subs'])
        subcalls = got['calls'][-1 - n:-1] if slot == 'chemistry' else got['calls'][len(got['calls']) - n:]
        for (name, kv), c in zip(sec['subs'], subcalls):
            kw = {}
            kw.update(received(c))
            for k, v in kv:
                if k in ('gas_type', 'python_file') or (slot == 'chemistry' and k == 'molecule_name'):
                    continue
                if not judge(k, v, kw, '[[%s]]' % name, 'unknownkey:%s' % ('gas' if slot == 'chemistry'
                                                                          else 'contribution')):
                    return


def oracle_typed(raw):
    """the documented typing of a raw value where the documentation is unambiguous: decimal literals are floats,
    the documented words are booleans, comma lists of decimal literals are lists of floats; else NotImplemented"""
    def num(s):
        m = DECIMAL.match(s)
        if not m:
            return None
        e = int(m.group(2)[1:]) if m.group(2) else 0
        if abs(e) > 300:
            return None
        return float(Fraction(s))
    if isinstance(raw, list):
        vals = [num(x) for x in raw]
        if raw and all(v is not None for v in vals):
            return vals
        # a "string list" (my_string_list = hello,how,are,you): no element reads as a number -> the strings written
        if raw and not any(pyfloat_ok(x) for x in raw):
            return list(raw)
        return NotImplemented
    if raw.lower() in WORDS_T:
        return True
    if raw.lower() in WORDS_F:
        return False
    v = num(raw)
    if v is not None:
        return v
    # a string variable (neither a boolean word nor anything float() reads): the string as written
    return raw if not pyfloat_ok(raw) else NotImplemented


def pyfloat_ok(x):
    try:
        float(x)
        return True
    except (ValueError, OverflowError):
        return False


def same_typed(exp, got):
    if isinstance(exp, list):
        return isinstance(got, list) and len(got) == len(exp) and all(same_typed(a, b) for a, b in zip(exp, got))
    return type(got) is type(exp) and got == exp


def eval_file(ctx, case, scratch, count=True):
    f = case['file']
    path = os.path.join(scratch, 'case.par')
    write_file(path, f)
    small = dict(file=f, customs=[(p, [m['name'] for m in ms]) for p, ms in case['customs']],
                 malformed=case.get('malformed'), flavour=case.get('flavour'))
    if case.get('repeat'):
        small['repeat'] = list(case['repeat'])
    # assumption: ConfigObj gives back the tree that was written
    import configobj
    try:
        raw = configobj.ConfigObj(path).dict()
    except Exception as e:
        ctx.malformed_outcome('configobj:' + type(e).__name__)
        return
    ctx.disagreements_checked += 1
    if raw != raw_tree(f):
        ctx.mismatch('C15 ConfigObj raw tree vs generator tree (assumption)', small,
                     dict(configobj=raw, generator=raw_tree(f)))
        return
    CUSTOM_DEFAULTS.clear()
    for _, ms in case['customs']:
        for m in ms:
            CUSTOM_DEFAULTS[m['path']] = dict(m['kwargs'])
    from taurex.parameter import ParameterParser
    pp = ParameterParser()
    pp.read(path)
    g = None
    if not BUILD_BROKEN:
        d = ctx.model().call('c15.expected', enc_customs(case['customs']), enc_file(f))
        g = dec_graph(d)
    results = {}
    ok_all = True
    for slot in SLOTS:
        got = run_slot(pp, slot)
        results[slot] = got
        objs = {}
        if slot == 'model':
            # the objects handed to the model constructor are the ones built just before it
            for c in got['calls']:
                for dep, base in (('planet', 'planet'), ('star', 'star'), ('chemistry', 'chemistry'),
                                  ('temperature', 'temperature'), ('pressure', 'pressure')):
                    pass
            objs = model_refs(got)
        if slot == 'instrument':
            from taurex.binning import NativeBinner
            objs = {'binner': NativeBinner}
        got['refs'] = objs
        if g is not None:
            ok_all &= compare_slot(ctx, slot, expected_sequence(g, slot), got, small)
        key_reaches(ctx, slot, got, f, small)
    mal = case.get('malformed')
    if mal is not None:
        judge_malformed(ctx, case, results, small)
    if case.get('repeat'):
        repeat_history(ctx, pp, case, g, results, small)
    if count:
        key = (case.get('flavour'), tuple(case['meta']))
        ctx.case(key=key, sample=dict(file=f, model_graph={k: (v[0] if v else None) for k, v in (g or {}).items()}),
                 bucket='stream:' + ('malformed:' + mal['kind'] if mal else str(case.get('flavour'))))
        for slot in SLOTS:
            r = results[slot]
            ctx.bucket('%s:%s' % (slot, 'absent' if (r['exc'] is None and r['ret'] is None) else
                                  (type(r['exc']).__name__ if r['exc'] is not None else 'built')))
    return results, g


def call_signature(got):
    return (type(got['exc']).__name__ if got['exc'] is not None else None, got['ret'] is None,
            [show_call(c) for c in got['calls']])


def repeat_history(ctx, pp, case, g, first, small):
    """object history: the SAME ParameterParser is asked again (a program that builds the planet for a report and then the
    model; a notebook that regenerates a component).  What a section resolves to is a function of the input file alone
    (Factory.expected is a pure function of the file): every later generate_*() must make the same constructor calls as the
    first one - judged against the model again, and against the first request on the real code"""
    small = dict(small, repeat=list(case['repeat']))
    for slot in case['repeat']:
        again = run_slot(pp, slot)
        again['refs'] = model_refs(again) if slot == 'model' else (first[slot].get('refs', {}) if slot == 'instrument' else {})
        ctx.bucket('repeat:' + slot)
        if g is not None:
            compare_slot(ctx, slot, expected_sequence(g, slot), again, small)
        if body_raised(first[slot]['calls']) or body_raised(again['calls']):
            ctx.bucket('repeat:ctor-body-raised')
            continue
        a, b = call_signature(first[slot]), call_signature(again)
        if a != b:
            ctx.violation('repeat-differs:%s' % slot,
                          'asking the same ParameterParser for the %s again built different components than the first request '
                          'for the same input file' % slot, small, dict(first=a, again=b))
            return


def model_refs(got):
    """objects created by generate_model before the model constructor, keyed by the component they are"""
    refs = {'planet': None, 'star': None, 'chemistry': None, 'temperature': None, 'pressure': None,
            'observation': None}
    sb = G.bases()
    for c in got['calls']:
        o = c.get('obj')
        if o is None:
            continue
        for name in ('planet', 'star', 'chemistry', 'temperature', 'pressure'):
            if isinstance(o, sb[name]) and refs[name] is None:
                refs[name] = o
    return refs


def judge_malformed(ctx, case, results, small):
    """property predicates on the implementation: unknown selector / unknown key / unknown contribution raise"""
    mal = case['malformed']
    kind, slot = mal['kind'], mal['slot']
    r = results[slot]
    ctx.malformed_outcome('%s:%s:%s' % (kind, slot, type(r['exc']).__name__ if r['exc'] is not None else
                                        ('None' if r['ret'] is None else 'built')))
    if kind == 'misspelt_section':
        return
    sec = dict(case['file'])[mal['header']]
    sel = dict(sec['scalars']).get(SEC_FIELD[slot])
    seln = sel.lower() if isinstance(sel, str) else 'list'
    if r['exc'] is None:
        if kind in ('unknown_selector', 'selector_typed', 'custom_no_file') or \
                (kind == 'missing_selector' and slot not in ('planet', 'observation', 'instrument')):
            if kind == 'missing_selector' or True:
                # observation / instrument have key-driven shortcuts that do not need the selector
                if slot == 'observation' and any(k in dict(sec['scalars']) for k in
                                                 ('lightcurve', 'observed_spectrum', 'taurex_spectrum',
                                                  'iraclis_spectrum')):
                    return
                ctx.violation('selector-ignored:%s=%s' % (SEC_FIELD[slot], seln),
                              'an unknown / malformed selector under [%s] was not reported as an error' % mal['header'],
                              small, dict(kind=kind, ret=clean_repr(r['ret'])))
        elif kind in ('unknown_contribution', 'contribution_case'):
            ctx.violation('contribution-ignored', 'an unknown contribution sub-section was not reported as an error',
                          small, dict(kind=kind))
        elif kind == 'unknown_subkey':
            ctx.violation('unknownkey:%s' % mal['target'], 'an unknown key in a sub-section was not reported',
                          small, dict(kind=kind))
        elif kind == 'unknown_key' and case.get('flavour') == 'targeted':
            ctx.violation('unknownkey:%s:%s' % (slot, seln), 'an unknown key under [%s] was not reported as an error'
                          % mal['header'], small, dict(kind=kind))
        elif kind == 'missing_selector' and case.get('flavour') == 'targeted':
            ctx.violation('selector-ignored:%s=missing' % SEC_FIELD[slot],
                          'a component section without its selector was not reported as an error', small, dict(kind=kind))
        # unknown_key / sibling_key otherwise: judged by key_reaches (the key may be legitimately known to the class)


# ----------------------------------------------------------------------------- transform stream
DECIMAL = re.compile(r'^[+-]?(\d+\.?\d*|\.\d+)([eE][+-]?\d+)?$')


def eval_transform(ctx, raw):
    from taurex.parameter import ParameterParser
    pp = ParameterParser()
    sec = {'k': list(raw) if isinstance(raw, list) else raw}
    real = pp.transform(sec, 'k')
    case = dict(kind='transform', raw=raw)
    if not BUILD_BROKEN:
        d = ctx.model().call('c15.transform', enc_value(raw_value(raw)))
        mv = dec_value(d)
        ctx.disagreements_checked += 1
        if not match_value(mv, real, {}):
            ctx.mismatch('C15 ParameterParser.transform vs Factory.transform', case,
                         dict(impl=clean_repr(real), impl_type=type(real).__name__, model=mv))
    # the documented typing, on the implementation alone
    def isnum(s):
        return bool(DECIMAL.match(s))

    def val(s):
        m = re.match(r'^([+-]?)([\d.]+)(?:[eE]([+-]?\d+))?$', s)
        e = int(m.group(3) or 0)
        if abs(e) > 2000:
            zero = float(Fraction(m.group(2))) == 0.0
            v = 0.0 if (e < 0 or zero) else math.inf
            return -v if m.group(1) == '-' else v
        try:
            return float(Fraction(s))
        except OverflowError:
            return -math.inf if s.startswith('-') else math.inf
    if isinstance(raw, list):
        if raw and all(isnum(x) for x in raw):
            if not (isinstance(real, list) and [type(x) for x in real] == [float] * len(raw) and
                    real == [val(x) for x in raw]):
                ctx.violation('typing:list', 'a list of decimal literals is not typed as a list of floats', case,
                              dict(got=clean_repr(real)))
        kind = 'list'
        if raw and not any(pyfloat_ok(x) for x in raw):
            # the documented string list: no element reads as a number -> exactly the strings written
            kind = 'string-list' + (':wordlike' if any(x.lower() in WORDS_T + WORDS_F for x in raw) else '')
            if not (isinstance(real, list) and len(real) == len(raw) and
                    all(type(a) is str and a == b for a, b in zip(real, raw))):
                ctx.violation('typing:string-list', 'a list of strings (no element reads as a number) is not passed on as '
                              'the strings written', case, dict(got=clean_repr(real)))
    elif raw.lower() in WORDS_T + WORDS_F:
        if real is not (raw.lower() in WORDS_T):
            ctx.violation('typing:bool', 'a documented boolean word is not typed as that boolean', case,
                          dict(got=clean_repr(real)))
        kind = 'bool'
    elif isnum(raw):
        if not (type(real) is float and real == val(raw)):
            ctx.violation('typing:number', 'a decimal literal is not typed as the float it denotes', case,
                          dict(got=clean_repr(real)))
        kind = 'number'
    elif not pyfloat_ok(raw):
        # the documented string variable: neither a boolean word nor a number -> the string as written
        kind = 'string' + (':uppercase' if raw != raw.lower() else '')
        if not (type(real) is str and real == raw):
            ctx.violation('typing:string', 'a string value (neither a boolean word nor a number) is not passed on as written',
                          case, dict(got=clean_repr(real)))
    else:
        kind = 'other:' + type(real).__name__
    ctx.case(key=('transform', raw if not isinstance(raw, list) else tuple(raw)), bucket='transform:' + kind,
             sample=dict(raw=raw, typed=clean_repr(real)))


HAND_VALUES = ['true', 'True', 'YES', 'Yeah', 'yup', 'Certainly', 'UH-HUH', 'false', 'No', 'NOPE', 'no-way', 'Hell-No',
               'y', 'n', 'on', 'off', '1', '0', '', ' ', ' 12 ', '\t3.5', '1e5', '1E5', '1e+5', '1.e5', '.e5', '1e',
               '1e+', '1_0', '1__0', '_1', '1_', '1_.5', '1._5', '1e_5', '1e5_0', '1_e5', 'inf', '-inf', '+Inf',
               'infinity', 'infinit', 'nan', '-nan', '+NAN', 'na n', '0x1p3', '1,5', '1e400', '-1e400',
               '1e-400', '123456789012345678901234567890', '0.1', '-.5', '+.5e-3', '5.', 'truee', 'no ', ' no', 'nope.',
               '1 2', 'e', '.', '-', '+', '--1', '+-1', '1-', 'H2-He', 'uh-huh', 'Uh-Huh', 'certainly', 'TRUE', 'FALSE']


def transform_stream(ctx):
    rng = ctx.rng
    from taurex.parameter import ParameterParser
    for v in NON_ASCII:
        sec = {'k': v}
        try:
            r = ParameterParser().transform(sec, 'k')
            ctx.malformed_outcome('non-ascii:%s' % type(r).__name__)
        except Exception as e:
            ctx.malformed_outcome('non-ascii:' + type(e).__name__)
    for v in HAND_VALUES:
        eval_transform(ctx, v)
    for v in (['1', '2.5'], ['1', 'x'], [], ['true'], ['inf', 'nan'], ['1_0', '2'], ['1__0', '2'], [' 1', '2 '],
              ['H2', 'He'], ['', '1'], ['1e5'], ['no', '1'], ['N2', 'NO'], ['H2O', 'CO2', 'NO'], ['yes', 'no'], ['True'],
              ['K', 'Pa'], ['nope', 'x', 'Yup']):
        eval_transform(ctx, v)
    for _ in range(ctx.n(3000, 60000)):
        m = int(rng.integers(0, 6))
        if m <= 1:
            v = num_literal(rng)
            if rng.random() < 0.15:
                # damage the literal
                i = int(rng.integers(0, len(v) + 1))
                v = v[:i] + str(rng.choice(list('_e.+- x'))) + v[i:]
        elif m == 2:
            v = bool_literal(rng)
            if rng.random() < 0.2:
                v = v + str(rng.choice(['s', ' ', '-', '!']))
        elif m == 3:
            v = str_literal(rng)
        else:
            v = list_literal(rng)
        eval_transform(ctx, v)


# ----------------------------------------------------------------------------- look-up stream
def factories():
    from taurex.parameter import factory as F
    return {'temperature': F.temp_factory, 'pressure': F.pressure_factory, 'chemistry': F.chemistry_factory,
            'gas': F.gas_factory, 'planet': F.planet_factory, 'star': F.star_factory, 'model': F.model_factory,
            'optimizer': F.optimizer_factory, 'observation': F.observation_factory,
            'instrument': F.instrument_factory}


def real_candidates(sec, kw, mixin=False):
    from taurex.parameter.classfactory import ClassFactory
    cf = ClassFactory()
    attr = G.CF_ATTR[sec][1 if mixin else 0]
    out = []
    for c in getattr(cf, attr):
        if kw in G.keywords_of(c):
            out.append(G.class_path(c))
    return sorted(out)


def lookup_stream(ctx):
    from taurex.parameter import factory as F
    reg = gen()['registry']
    fac = factories()
    sb = G.bases()
    for sec in G.SECTIONS:
        if sec == 'prior':
            continue
        words = sorted({w for k in reg[sec]['classes'] + reg[sec]['mixins'] for w in k['keywords']})
        probes = words + [w.upper() for w in words[:3]] + ['nonexistent', '', 'custom', words[0] + 'x' if words else 'x']
        for mixin in (False, True):
            for kw in probes:
                cands = real_candidates(sec, kw, mixin)
                real = None
                try:
                    if mixin:
                        if sec == 'planet':
                            from taurex.planet import Planet
                            real = F.mixin_factory(kw, Planet)
                        else:
                            real = F.mixin_factory(kw, sb[sec])
                    elif sec in fac:
                        real = fac[sec](kw)
                    else:
                        real = None if not cands else load_class(cands[0])
                except NotImplementedError:
                    real = None
                rp = G.class_path(real) if real is not None else None
                case = dict(kind='lookup', sec=sec, mixin=mixin, kw=kw)
                if kw in words and len(cands) > 1:
                    ctx.violation('ambiguous-keyword:%s:%s' % (sec, kw),
                                  'a selector keyword is claimed by more than one class of its section', case,
                                  dict(candidates=cands))
                if not BUILD_BROKEN:
                    d = ctx.model().call('c15.lookup', C.S(sec), '1' if mixin else '0', C.S(kw))
                    a, b, mc = d.opt(d.str), d.opt(d.str), d.list(d.str)
                    ctx.check_eq('C15 factory look-up vs Factory.lookup (%s)' % sec,
                                 (rp if len(cands) <= 1 else 'ambiguous', cands),
                                 (a if len(mc) <= 1 else 'ambiguous', sorted(mc)), case)
                    ctx.check_eq('C15 Factory.lookup on the reversed class list', a if len(mc) <= 1 else None,
                                 b if len(mc) <= 1 else None, case)
                ctx.case(key=('lookup', sec, mixin, kw), bucket='lookup:' + ('hit' if cands else 'miss'))
    # priors
    from taurex.parameter.factory import create_prior
    pk = reg['prior']['classes']
    names = sorted({n for k in pk for n in (k['name'], k['name'].lower(), k['name'].upper())}) + \
        ['uniform ', 'Unif', 'gaussian', 'LOGGAUSSIAN', 'logUniform', 'nonexistent']
    for n in sorted(set(names)):
        try:
            with contextlib.redirect_stdout(io.StringIO()):
                obj = create_prior('%s()' % n) if n.isidentifier() else None
            rp = G.class_path(type(obj)) if obj is not None else None
        except ValueError:
            rp = None
        except Exception as e:
            rp = 'raised:' + type(e).__name__
        if not n.isidentifier():
            continue
        if not BUILD_BROKEN:
            d = ctx.model().call('c15.prior', C.S(n))
            ctx.check_eq('C15 create_prior look-up vs Factory.lookupPrior', rp, d.opt(d.str),
                         dict(kind='prior', name=n))
        ctx.case(key=('prior', n), bucket='lookup:prior')


# ----------------------------------------------------------------------------- [Fitting] prior definitions
PRIOR_CLASSES = ['Uniform', 'LogUniform', 'Gaussian', 'LogGaussian']


def gen_prior_case(rng, i):
    """one input file whose [Fitting] section gives 1-3 parameters a prior as text: each of the four documented prior classes
    (any letter case of the name) with a random subset of its documented keys in random order (`lin_std` without `lin_mean`,
    `lin_bounds` next to `bounds`, no key at all, …), literals in the spellings of the documented syntax (generator and
    renderer of harness/c08.py)"""
    from harness import c08
    names = ['H2O', 'T', 'planet_radius'][:int(rng.integers(1, 4))]
    priors = []
    for j, n in enumerate(names):
        call = c08.gen_call(rng, i + j)
        priors.append([n, c08.render(rng, call), [[k, int(c), [str(t) for t in toks]] for k, c, toks in call['args']]])
    us = [0.5, 0.8413447460685429, 0.1, 0.9] + [float(u) for u in rng.random(2)]
    return dict(kind='fitting-prior', priors=priors, us=us)


def eval_prior_case(ctx, case, scratch):
    """the keys written in a prior definition of the [Fitting] section: (i) each reaches the constructor of the prior class the
    name selects, as a keyword with the value given (recorded on entry, like every other component); (ii) the prior the parser
    hands out is the prior of that class with those arguments: class, space, boundaries and sample(u) are those of
    Priors.createPrior (the C08 model, driver_c08) on the keys and numbers of the text, so a key that is accepted but has no
    effect on the prior is seen."""
    from harness import c08
    import taurex.core.priors as TP
    from taurex.parameter import ParameterParser
    fn = os.path.join(scratch, 'prior_case.par')
    with open(fn, 'w') as f:
        f.write('[Fitting]\n')
        for n, text, _ in case['priors']:
            f.write('%s:fit = True\n%s:prior = "%s"\n' % (n, n, text))
    entered = []
    saved = {}

    def wrap(cls):
        orig = cls.__dict__['__init__']

        def init(self, *a, **kw):
            if type(self) is cls:
                entered.append((cls.__name__, list(a), dict(kw)))
            return orig(self, *a, **kw)
        saved[cls] = orig
        cls.__init__ = init
    for cn in PRIOR_CLASSES:
        wrap(getattr(TP, cn))
    small = dict(kind='fitting-prior', priors=case['priors'], us=case['us'])
    try:
        try:
            pp = ParameterParser()
            with contextlib.redirect_stdout(io.StringIO()):
                pp.read(fn)
                fit = pp.generate_fitting_parameters()
            err = None
        except Exception as e:
            fit, err = None, e
    finally:
        for cls, orig in saved.items():
            cls.__init__ = orig
    if err is not None:
        # documented class names with documented keys: a rejection is only in order for a degenerate distribution
        ctx.malformed_outcome('fitting-prior:rejected:' + type(err).__name__)
        ctx.case(key=None, bucket='fitting-prior:rejected')
        return
    us = [float(u) for u in case['us']]
    zs = [c08.ndtri(u) for u in us]
    z10, z90 = c08.z1090()
    for idx, (n, text, args) in enumerate(case['priors']):
        here = dict(small, param=n)
        cname = text.split('(')[0].strip()
        cls = [c for c in PRIOR_CLASSES if cname in (c, c.lower(), c.upper())][0]
        keys = tuple(sorted(k for k, _, _ in args))
        ctx.case(key=('fitting-prior', cls, keys), sample=dict(text=text), bucket='fitting-prior:%s(%s)' % (cls, ','.join(keys)))
        p = fit[n]['prior']
        want_kw = {k: (float(t[0]) if c == 0 else [float(x) for x in t]) for k, c, t in args}
        # (i) constructor entry
        got = entered[idx] if idx < len(entered) else None
        got_kw = None if got is None else {k: ([float(x) for x in v] if isinstance(v, (list, tuple)) else float(v))
                                           for k, v in got[2].items()}
        if got is None or got[0] != cls or got[1] or got_kw != want_kw:
            ctx.violation('fitting-prior:key-not-reaching-constructor:%s' % cls,
                          'a key of a [Fitting] prior definition does not reach the constructor of the selected prior class '
                          'with the value given', here, dict(want=[cls, want_kw], got=None if got is None else [got[0], got[1], got_kw]))
            continue
        kwargs = {k: (tuple(v) if isinstance(v, list) else v) for k, v in want_kw.items()}
        if c08.outside_quantifier(cls, kwargs):
            ctx.malformed_outcome('fitting-prior:degenerate-width')
            continue
        # (ii) the prior handed out is the prior of that class with those arguments
        fcall = dict(fn=cls, args=[(k, c, [float(x) for x in t]) for k, c, t in args])
        d = ctx.model('C08').call('c08.create', C.F(z10), C.F(z90), C.F(0.5), C.F(0.25), *c08.call_tokens(fcall, C.F),
                                  C.L(us), C.L(zs), C.L([]))
        mcode = d.nat()
        if mcode != 0:
            ctx.malformed_outcome('fitting-prior:model-outcome-%d' % mcode)
            continue
        if type(p).__name__ != cls:
            ctx.violation('fitting-prior:class:%s' % cls, 'the prior of a [Fitting] definition is not an instance of the class '
                          'its name selects', here, dict(got=type(p).__name__))
            continue
        impl = c08.observe(p, us, [])
        mod = c08.read_eval(d)
        nm = len(ctx.mismatches)
        c08.compare_eval(ctx, 'C15 [Fitting] prior vs Priors.createPrior on the written keys', impl, mod, here)
        if len(ctx.mismatches) > nm:
            ctx.violation('fitting-prior:key-without-effect:%s(%s)' % (cls, ','.join(keys)),
                          'a prior defined in the [Fitting] section is not the prior of the named class with the keys and values '
                          'written: a key reached the constructor but the prior handed out does not carry its value', here,
                          dict(impl={k: impl[k] for k in ('mode', 'lo', 'hi', 'samples')},
                               model={k: mod[k] for k in ('mode', 'lo', 'hi', 'samples')}))


def prior_stream(ctx, scratch):
    for i in range(ctx.n(60, 600)):
        eval_prior_case(ctx, gen_prior_case(ctx.rng, i), scratch)



# ----------------------------------------------------------------------------- documentation predicates
def doc_field(sec):
    return SEC_FIELD.get(sec, sec)


def check_docs(ctx, scratch):
    """every documented selector of a class of the package resolves to exactly one discovered class (the documented
    one); every documented key is accepted — evaluated on the implementation; then compared with the model tables"""
    from taurex.parameter.factory import get_keywordarg_dict
    from taurex.parameter.classfactory import ClassFactory
    docs = gen()['docs']
    cf = ClassFactory()
    bad_sel, bad_key = set(), set()
    for e in docs['selectors']:
        sec, kw = e['sec'], e['keyword']
        if sec == 'prior':
            cands = sorted(G.class_path(p) for p in cf.priorKlasses
                           if kw in (p.__name__, p.__name__.lower(), p.__name__.upper()))
        else:
            cands = real_candidates(sec, kw)
        ok = len(cands) == 1 and (e['cls'] is None or cands[0] == e['cls'])
        ctx.case(key=('docsel', sec, kw), bucket='doc-selector:' + ('resolves' if ok else
                                                                     ('unresolved' if e['inPackage'] else 'plugin')))
        if not ok:
            bad_sel.add((sec, kw))
            if e['inPackage']:
                ctx.violation('selector:%s=%s' % (doc_field(sec), kw),
                              'documented selector `%s = %s` (%s) resolves to %s; the package class claiming it: %s'
                              % (doc_field(sec), kw, ' '.join(e['where'][:2]),
                                 cands if cands else 'no class', e['claimed_by'] or e['cls']),
                              dict(kind='docs'), dict(candidates=cands, documented_class=e['cls'],
                                                      claimed_by=e['claimed_by']))
    fac = factories()
    for e in docs['keys']:
        sec, kw, key = e['sec'], e['keyword'], e['key']
        if kw == '':
            ok = observation_key_accepted(scratch, key)
            cname = 'parser'
        else:
            cands = real_candidates(sec, kw)
            cname = cands[0].rsplit('.', 1)[1] if cands else 'none'
            ok = False
            if len(cands) == 1:
                ok = key in get_keywordarg_dict(load_class(cands[0]))
            if not ok and sec == 'instrument':
                ok = instrument_key_consumed(scratch, kw, key)
        ctx.case(key=('dockey', sec, kw, key), bucket='doc-key:' + ('accepted' if ok else 'rejected'))
        if not ok:
            bad_key.add((sec, kw, key))
            ctx.violation('dockey:%s:%s:%s' % (sec, cname, key),
                          'documented key `%s` (%s) of `%s = %s` is not a keyword the component accepts'
                          % (key, ' '.join(e['where'][:2]), doc_field(sec), kw), dict(kind='docs'),
                          dict(section=sec, selector=kw, key=key))
    if not BUILD_BROKEN:
        d = ctx.model().call('c15.docs')
        msel = set(d.list(lambda: (d.str(), d.str(), d.bool())))
        mkey = set(d.list(lambda: (d.str(), d.str(), d.str())))
        nsel, nkey = d.nat(), d.nat()
        ctx.check_eq('C15 documented selectors that do not resolve: implementation vs model tables',
                     sorted(bad_sel), sorted((a, b) for a, b, _ in msel), dict(kind='docs'))
        ctx.check_eq('C15 documented keys that are not accepted: implementation vs model tables',
                     sorted(bad_key), sorted(mkey), dict(kind='docs'))
        ctx.check_eq('C15 size of the documentation tables', (len(docs['selectors']), len(docs['keys'])),
                     (nsel, nkey), dict(kind='docs'))


def observation_key_accepted(scratch, key):
    """behavioural: `[Observation] key = file` is consumed by the parser (does not fall through to the selector)"""
    from taurex.parameter import ParameterParser
    p = os.path.join(scratch, 'dockey.par')
    with open(p, 'w') as fh:
        fh.write('[Observation]\n%s = %s\n' % (key, os.path.join(scratch, 'aux', 'obs.dat')))
    pp = ParameterParser()
    pp.read(p)
    try:
        with contextlib.redirect_stdout(io.StringIO()):
            pp.generate_observation()
    except KeyError:
        return False
    except Exception:
        return True
    return True


def instrument_key_consumed(scratch, sel, key):
    """behavioural: `[Instrument] key = 3` changes what generate_instrument returns"""
    from taurex.parameter import ParameterParser
    outs = []
    for body in ('', '%s = 3\n' % key):
        p = os.path.join(scratch, 'dockey.par')
        with open(p, 'w') as fh:
            fh.write('[Instrument]\ninstrument = %s\n%s' % (sel, body))
        pp = ParameterParser()
        pp.read(p)
        try:
            r = pp.generate_instrument()
            outs.append((type(r[0]).__name__, r[1], clean_repr(sorted(vars(r[0]).items(), key=lambda x: x[0]))))
        except Exception as e:
            outs.append(('raised', type(e).__name__))
    return outs[0] != outs[1] and outs[1][0] != 'raised'


# ----------------------------------------------------------------------------- CLI vs library
def make_opacities(scratch, rng):
    import pickle
    d = os.path.join(scratch, 'opac')
    os.makedirs(d, exist_ok=True)
    wn = np.linspace(400.0, 6000.0, 48)
    t = np.array([150.0, 800.0, 1600.0, 3000.0])
    p = np.array([1e-7, 1e-3, 1e0, 1e2])
    for mol in ('H2O', 'CH4', 'CO2'):
        xs = 10 ** rng.uniform(-27, -20, size=(len(p), len(t), len(wn)))
        with open(os.path.join(d, mol + '.TauREx.pickle'), 'wb') as fh:
            pickle.dump({'name': mol, 'wno': wn, 't': t, 'p': p, 'xsecarr': xs}, fh)
    for pair in ('H2-H2', 'H2-He'):
        with open(os.path.join(d, pair + '.db'), 'wb') as fh:
            pickle.dump({'wno': wn, 't': t, 'xsecarr': 10 ** rng.uniform(-52, -46, size=(len(t), len(wn)))}, fh)
    return d


def clear_caches():
    from taurex.cache import OpacityCache, CIACache
    try:
        OpacityCache().clear_cache()
    except Exception:
        pass
    try:
        CIACache().cia_dict = {}
    except Exception:
        pass


def fnum(rng, lo, hi, log=False):
    x = 10 ** rng.uniform(math.log10(lo), math.log10(hi)) if log else rng.uniform(lo, hi)
    s = str(rng.choice(['%.4g' % x, '%.3e' % x, repr(float('%.5g' % x))]))
    return s, float(s)


def gen_cli_case(rng, opac):
    """a runnable input file + the library-side specification of the same components"""
    f, spec = [], {}
    f.append(('Global', dict(scalars=[('xsec_path', opac), ('cia_path', opac)], subs=[])))
    ratio_s, ratio = fnum(rng, 0.05, 0.3)
    gases, gspec = [], []
    for mol in rng.choice(['H2O', 'CH4', 'CO2'], size=int(rng.integers(1, 4)), replace=False):
        mol = str(mol)
        if rng.random() < 0.6:
            ms, mv = fnum(rng, 1e-7, 1e-3, log=True)
            gases.append((mol, [('gas_type', rcase(rng, 'constant')), ('mix_ratio', ms)]))
            gspec.append(('taurex.data.profiles.chemistry.gas.constantgas.ConstantGas',
                          dict(molecule_name=mol, mix_ratio=mv)))
        else:
            a, av = fnum(rng, 1e-6, 1e-3, log=True)
            b, bv = fnum(rng, 1e-9, 1e-6, log=True)
            c, cv = fnum(rng, 1e2, 1e4, log=True)
            gases.append((mol, [('gas_type', str(rng.choice(['twolayer', '2layer']))), ('mix_ratio_surface', a),
                                ('mix_ratio_top', b), ('mix_ratio_P', c)]))
            gspec.append(('taurex.data.profiles.chemistry.gas.twolayergas.TwoLayerGas',
                          dict(molecule_name=mol, mix_ratio_surface=av, mix_ratio_top=bv, mix_ratio_P=cv)))
    f.append(('Chemistry', dict(scalars=[('chemistry_type', str(rng.choice(['taurex', 'free', 'Taurex']))),
                                         ('fill_gases', ['H2', 'He']), ('ratio', ratio_s)], subs=gases)))
    spec['chemistry'] = ('taurex.data.profiles.chemistry.taurexchemistry.TaurexChemistry',
                         dict(fill_gases=['H2', 'He'], ratio=ratio), gspec)
    m = int(rng.integers(0, 3))
    if m == 0:
        ts, tv = fnum(rng, 400, 2500)
        f.append(('Temperature', dict(scalars=[('profile_type', rcase(rng, 'isothermal')), ('T', ts)], subs=[])))
        spec['temperature'] = ('taurex.data.profiles.temperature.isothermal.Isothermal', dict(T=tv))
    elif m == 1:
        ts, tv = fnum(rng, 800, 2000)
        ks, kv = fnum(rng, 0.005, 0.05)
        f.append(('Temperature', dict(scalars=[('profile_type', str(rng.choice(['guillot', 'guillot2010']))),
                                               ('T_irr', ts), ('kappa_irr', ks)], subs=[])))
        spec['temperature'] = ('taurex.data.profiles.temperature.guillot.Guillot2010', dict(T_irr=tv, kappa_irr=kv))
    else:
        a, av = fnum(rng, 1000, 2000)
        b, bv = fnum(rng, 300, 900)
        f.append(('Temperature', dict(scalars=[('profile_type', 'npoint'), ('T_surface', a), ('T_top', b)], subs=[])))
        spec['temperature'] = ('taurex.data.profiles.temperature.npoint.NPoint', dict(T_surface=av, T_top=bv))
    nl = int(rng.integers(4, 16))
    a, av = fnum(rng, 1e-3, 1e0, log=True)
    b, bv = fnum(rng, 1e5, 1e7, log=True)
    f.append(('Pressure', dict(scalars=[('profile_type', str(rng.choice(['Simple', 'simple', 'hydrostatic']))),
                                        ('atm_min_pressure', a), ('atm_max_pressure', b), ('nlayers', str(nl))],
                               subs=[])))
    spec['pressure'] = ('taurex.data.profiles.pressure.pressureprofile.SimplePressureProfile',
                        dict(atm_min_pressure=av, atm_max_pressure=bv, nlayers=float(nl)))
    a, av = fnum(rng, 0.3, 3)
    b, bv = fnum(rng, 0.5, 1.8)
    psc = [('planet_mass', a), ('planet_radius', b)]
    if rng.random() < 0.7:
        psc = [('planet_type', str(rng.choice(['simple', 'Simple', 'sphere'])))] + psc
    f.append(('Planet', dict(scalars=psc, subs=[])))
    spec['planet'] = ('taurex.data.planet.Planet', dict(planet_mass=av, planet_radius=bv))
    a, av = fnum(rng, 3500, 7000)
    b, bv = fnum(rng, 0.5, 1.5)
    f.append(('Star', dict(scalars=[('star_type', 'blackbody'), ('temperature', a), ('radius', b)], subs=[])))
    spec['star'] = ('taurex.data.stellar.star.BlackbodyStar', dict(temperature=av, radius=bv))
    mk = int(rng.integers(0, 3))
    mname = [['transmission', 'transit'], ['emission', 'eclipse'], ['direct', 'directimage']][mk]
    mcls = ['taurex.model.transmission.TransmissionModel', 'taurex.model.emission.EmissionModel',
            'taurex.model.directimage.DirectImageModel'][mk]
    msc = [('model_type', rcase(rng, str(rng.choice(mname))))]
    mkw = {}
    if mk > 0 and rng.random() < 0.5:
        ng = int(rng.integers(2, 6))
        msc.append(('ngauss', str(ng)))
        mkw['ngauss'] = float(ng)
    if mk == 0 and rng.random() < 0.5:
        w = str(rng.choice(['true', 'False', 'yes', 'no']))
        msc.append(('new_path_method', w))
        mkw['new_path_method'] = w.lower() in WORDS_T
    subs = [(str(rng.choice(['Absorption', 'Molecules'])), [])]
    cspec = [('taurex.contributions.absorption.AbsorptionContribution', {})]
    if rng.random() < 0.6:
        pairs = [str(x) for x in rng.choice(['H2-H2', 'H2-He'], size=int(rng.integers(1, 3)), replace=False)]
        subs.append(('CIA', [('cia_pairs', pairs)]))
        cspec.append(('taurex.contributions.cia.CIAContribution', dict(cia_pairs=pairs)))
    if rng.random() < 0.5:
        subs.append(('Rayleigh', []))
        cspec.append(('taurex.contributions.rayleigh.RayleighContribution', {}))
    if rng.random() < 0.3:
        a, av = fnum(rng, 1e1, 1e4, log=True)
        subs.append((str(rng.choice(['SimpleClouds', 'ThickClouds'])), [('clouds_pressure', a)]))
        cspec.append(('taurex.contributions.simpleclouds.SimpleCloudsContribution', dict(clouds_pressure=av)))
    if rng.random() < 0.3:
        a, av = fnum(rng, 1e-12, 1e-8, log=True)
        b, bv = fnum(rng, 1e3, 1e5, log=True)
        c, cv = fnum(rng, 1e0, 1e2, log=True)
        subs.append(('FlatMie', [('flat_mix_ratio', a), ('flat_bottomP', b), ('flat_topP', c)]))
        cspec.append(('taurex.contributions.flatmie.FlatMieContribution',
                      dict(flat_mix_ratio=av, flat_bottomP=bv, flat_topP=cv)))
    if rng.random() < 0.25:
        a, av = fnum(rng, 0.01, 1)
        b, bv = fnum(rng, 1e-12, 1e-9, log=True)
        subs.append(('LeeMie', [('lee_mie_radius', a), ('lee_mie_mix_ratio', b)]))
        cspec.append(('taurex.contributions.leemie.LeeMieContribution', dict(lee_mie_radius=av, lee_mie_mix_ratio=bv)))
    f.append(('Model', dict(scalars=msc, subs=subs)))
    spec['model'] = (mcls, mkw, cspec)
    order = [0] + [int(i) + 1 for i in rng.permutation(len(f) - 1)]
    f = [f[i] for i in order]
    meta = [('cli', mcls.rsplit('.', 1)[1], tuple(s for s, _ in subs), spec['temperature'][0].rsplit('.', 1)[1],
             tuple(g[0].rsplit('.', 1)[1] for g in gspec))]
    return dict(file=f, customs=[], meta=meta, flavour='cli', malformed=None, spec=spec)


def targeted_malformed(rng, base):
    """one defect at a time on an otherwise valid, fully buildable file: the defect is the only possible error"""
    out = []
    f0 = base['file']

    def variant(kind, slot, header, edit, target=None):
        f = []
        for name, sec in f0:
            sc = list(sec['scalars'])
            subs = [(n, list(kv)) for n, kv in sec['subs']]
            if name == header:
                sc, subs = edit(sc, subs)
            f.append((name, dict(scalars=sc, subs=subs)))
        out.append(dict(file=f, customs=[], meta=base['meta'] + [('targeted', kind, slot)], flavour='targeted',
                        malformed=dict(kind=kind, slot=slot, target=target or slot, header=header)))
    variant('unknown_contribution', 'model', 'Model',
            lambda sc, subs: (sc, subs + [(str(rng.choice(['Foo', 'BHMie', 'Clouds', 'Mie'])), [])]), 'contribution')
    variant('contribution_case', 'model', 'Model',
            lambda sc, subs: (sc, [(subs[0][0].lower(), subs[0][1])] + subs[1:]), 'contribution')
    variant('unknown_subkey', 'model', 'Model',
            lambda sc, subs: (sc, subs[:-1] + [(subs[-1][0], subs[-1][1] + [('zzz_unknown', '1.0')])]), 'contribution')
    variant('unknown_subkey', 'chemistry', 'Chemistry',
            lambda sc, subs: (sc, [(subs[0][0], subs[0][1] + [('mix_ratios', '1e-4')])] + subs[1:]), 'gas')
    for slot in ('chemistry', 'temperature', 'pressure', 'planet', 'star', 'model'):
        hdr = SEC_HEADER[slot]
        fld = SEC_FIELD[slot]
        variant('unknown_key', slot, hdr, lambda sc, subs: (sc + [('zzz_unknown', '1.0')], subs))
        variant('unknown_selector', slot, hdr,
                lambda sc, subs, fld=fld: ([(k, v) for k, v in sc if k != fld] + [(fld, 'nonexistent')], subs))
        if slot != 'planet':
            variant('missing_selector', slot, hdr,
                    lambda sc, subs, fld=fld: ([(k, v) for k, v in sc if k != fld], subs))
    variant('unknown_selector', 'chemistry', 'Chemistry',
            lambda sc, subs: (sc, [(subs[0][0], [(k, ('twopointt' if k == 'gas_type' else v)) for k, v in subs[0][1]])]
                              + subs[1:]), 'gas')
    return out


def composite_stream(ctx, scratch):
    """every composite `mixin+base` selector the registry allows: a valid section, then the same section with ONE
    unknown key (misspelt keys of the base and of the mixin, a key of an unrelated class) — must raise"""
    rng = ctx.rng
    reg = gen()['registry']
    aux = os.path.join(scratch, 'aux')
    np.savetxt(os.path.join(aux, 'chem.dat'), np.full((6, 2), 1e-4))
    np.savetxt(os.path.join(aux, 'temp.dat'), np.linspace(1500, 500, 6))
    needed = {'ChemistryFile': [('gases', ['H2O', 'CH4']), ('filename', os.path.join(aux, 'chem.dat'))],
              'TemperatureFile': [('filename', os.path.join(aux, 'temp.dat'))]}
    allkeys = sorted({a for sec in G.SECTIONS for k in reg[sec]['classes'] for a in k['args']})
    for sec in G.SECTIONS:
        if sec not in SEC_HEADER or not reg[sec]['mixins']:
            continue
        hdr, field = SEC_HEADER[sec], SEC_FIELD[sec]
        for m in reg[sec]['mixins']:
            if not m['keywords']:
                continue
            for k in reg[sec]['classes']:
                if not k['keywords']:
                    continue
                sel = rcase(rng, str(rng.choice(m['keywords']))) + '+' + rcase(rng, str(rng.choice(k['keywords'])))
                valid = [(field, sel)] + needed.get(k['name'], [])
                for key, d in m['mixinKwargs']:
                    valid.append((key, '1.5'))
                accepted = {a for a, _ in k['kwargs']} | {a for a, _ in m['mixinKwargs']} | {field, 'python_file'}
                base = dict(file=[(hdr, dict(scalars=valid, subs=[]))], customs=[], flavour='targeted', malformed=None,
                            meta=[('composite', sec, sel.lower(), 'valid')])
                res = eval_file(ctx, base, scratch)
                buildable = res is not None and res[0][sec]['exc'] is None and res[0][sec]['ret'] is not None
                ctx.bucket('composite:%s:%s' % (sec, 'buildable' if buildable else 'constructor-fails'))
                bad = []
                for key in [a for a, _ in k['kwargs']][:4] + [a for a, _ in m['mixinKwargs']]:
                    bad += [key[:-1], key + 's', key.swapcase(), key[:1] + key]
                bad += [str(x) for x in rng.choice(allkeys, size=4, replace=False)] + ['zzz_unknown', 'Tiso']
                seen = set()
                for b in bad:
                    if not b or b in accepted or b in seen:
                        continue
                    seen.add(b)
                    mc = dict(file=[(hdr, dict(scalars=valid + [(b, '1.0')], subs=[]))], customs=[],
                              flavour='targeted' if buildable else 'composite-unbuildable',
                              malformed=dict(kind='unknown_key', slot=sec, target=sec, header=hdr),
                              meta=[('composite', sec, sel.lower(), b)])
                    nv = len(ctx.violations)
                    eval_file(ctx, mc, scratch)
                    for v in ctx.violations[nv:]:
                        v['case'] = dict(kind='file', file=mc['file'], customs=[], custom_src={},
                                         malformed=mc['malformed'], flavour=mc['flavour'], meta=mc['meta'])


def keycase_stream(ctx, scratch):
    """keys are case-sensitive names of constructor keywords: a documented key written in ANOTHER letter case is not a key of
    the component - it must be reported (or, were it accepted, reach the constructor), never silently dropped.  Every plain
    selector of every section with up to three of its keys, and the two sections ParameterParser short-cuts (snr instrument,
    file-key observation): one valid section, then the same section with ONE key re-spelt in another letter case"""
    rng = ctx.rng
    reg = gen()['registry']
    aux = os.path.join(scratch, 'aux')
    np.savetxt(os.path.join(aux, 'chem.dat'), np.full((6, 2), 1e-4))
    np.savetxt(os.path.join(aux, 'temp.dat'), np.linspace(1500, 500, 6))
    needed = {'ChemistryFile': [('gases', ['H2O', 'CH4']), ('filename', os.path.join(aux, 'chem.dat'))],
              'TemperatureFile': [('filename', os.path.join(aux, 'temp.dat'))]}

    def respell(key):
        out = []
        for v in (key.swapcase(), key.lower(), key.upper(), key.capitalize()):
            if v != key and v not in out:
                out.append(v)
        return out

    def one(sec, hdr, valid, accepted, key, newkey, tag, replace):
        sc = [((newkey if k == key else k), v) for k, v in valid] if replace else valid + [(newkey, '1.0')]
        return dict(file=[(hdr, dict(scalars=sc, subs=[]))], customs=[], flavour=tag,
                    malformed=dict(kind='unknown_key', slot=sec, target=sec, header=hdr),
                    meta=[('keycase', sec, tag, key, newkey, replace)])

    def judge(mc):
        nv = len(ctx.violations)
        eval_file(ctx, mc, scratch)
        ctx.bucket('keycase:%s' % mc['malformed']['slot'])
        for v in ctx.violations[nv:]:
            v['case'] = dict(kind='file', file=mc['file'], customs=[], custom_src={}, malformed=mc['malformed'],
                             flavour=mc['flavour'], meta=mc['meta'])
    for sec in SLOTS:
        if sec not in reg:
            continue
        hdr, field = SEC_HEADER[sec], SEC_FIELD[sec]
        for k in reg[sec]['classes']:
            if not k['keywords'] or not k['kwargs']:
                continue
            sel = str(rng.choice(k['keywords']))
            valid = [(field, sel)] + needed.get(k['name'], [])
            accepted = {a for a, _ in k['kwargs']} | set(k['args']) | {field, 'python_file', 'num_observations'}
            base = dict(file=[(hdr, dict(scalars=valid, subs=[]))], customs=[], flavour='targeted', malformed=None,
                        meta=[('keycase', sec, sel, 'valid')])
            res = eval_file(ctx, base, scratch)
            buildable = res is not None and res[0][sec]['exc'] is None and res[0][sec]['ret'] is not None
            keys = [a for a, _ in k['kwargs'] if a not in dict(valid)]
            pick = [keys[int(i)] for i in rng.permutation(len(keys))[:ctx.n(2, 6)]]
            for key in pick:
                for nk in respell(key)[:ctx.n(2, 4)]:
                    if nk in accepted:
                        continue
                    judge(one(sec, hdr, valid, accepted, key, nk, 'targeted' if buildable else 'keycase-unbuildable', False))
    # the snr short-cut of [Instrument]: the one documented key is `SNR`
    for sel in ('snr', 'signalnoise', 'SNR'):
        valid = [('instrument', sel), ('SNR', num_literal(rng, positive=True))]
        for nk in ('snr', 'Snr', 'sNR', 'snR'):
            for replace in (True, False):
                mc = one('instrument', 'Instrument', valid, set(), 'SNR', nk, 'targeted', replace)
                if not replace:
                    mc['file'][0][1]['scalars'][-1] = (nk, num_literal(rng, positive=True))
                judge(mc)
    # the file-key short-cuts of [Observation]
    obsfile = os.path.join(aux, 'obs.dat')
    for key in OBS_FILE_KEYS:
        for nk in respell(key)[:2]:
            mc = one('observation', 'Observation', [(key, obsfile if key != 'taurex_spectrum' else 'self')], set(), key, nk,
                     'targeted', False)
            mc['file'][0][1]['scalars'][-1] = (nk, obsfile)
            judge(mc)


EXT_STEMS = ['LinearSlope', 'GradientProfile', 'TwoStreamModel', 'Tp', 'RetrievedProfileVersion']
EXT_SUFFIXES = ['WarmTop', 'ColdTop', 'A', 'B', 'Inverted', 'X2', '']
EXT_MIX_STEMS = ['OffsetMixin', 'TemperatureJitterMixin', 'Shift']


def gen_extension_case(rng, it):
    """classes of an extension directory (documented `Extension Path Method`: a .py file whose classes carry input_keywords):
    2-4 temperature profiles and 1-2 temperature mixins, names drawn from families that share a long common prefix, and a
    sequence of input files (plain and composite `+` selectors over these classes and the built-in tempscalar mixin), all
    read one after the other in the same process"""
    def names(stems, n):
        stem = str(rng.choice(stems))
        out = []
        for sfx in rng.permutation(EXT_SUFFIXES):
            nm = stem + str(sfx)
            if len(out) < n and nm not in out:
                out.append(nm)
        return out
    bases = [dict(name=nm + '_%d' % it if rng.random() < 0.3 else nm, keyword='ext-%s-%d' % (nm.lower(), it),
                  kwargs=[('p%d_b%d%s' % (i, j, nm.lower()[-3:]), float(rng.integers(1, 900))) for i in range(int(rng.integers(1, 4)))])
             for j, nm in enumerate(names(EXT_STEMS, int(rng.integers(2, 5))))]     # key names unique per class (b<j>, x<j>):
    mixins = [dict(name=nm, keyword='extmix-%s-%d' % (nm.lower(), it),
                   kwargs=[('m%d_x%d%s' % (i, j, nm.lower()[-3:]), float(rng.integers(1, 900))) for i in range(int(rng.integers(1, 3)))])
              for j, nm in enumerate(names(EXT_MIX_STEMS, int(rng.integers(1, 3))))]  # which of two classes sharing a key name receives it is not stated
    seq = []
    mk = [m['keyword'] for m in mixins] + ['tempscalar']
    for rep in range(2):
        for j in rng.permutation(len(bases)):
            b = bases[int(j)]
            nm = int(rng.integers(0, 3))
            ms = [str(x) for x in rng.choice(mk, size=min(nm, len(mk)), replace=False)]
            keys = [(k, num_literal(rng, positive=True)) for k, _ in b['kwargs'] if rng.random() < 0.6]
            for m in mixins:
                if m['keyword'] in ms:
                    keys += [(k, num_literal(rng, positive=True)) for k, _ in m['kwargs'] if rng.random() < 0.6]
            if 'tempscalar' in ms and rng.random() < 0.6:
                keys.append(('scale_factor', num_literal(rng, positive=True)))
            seq.append(dict(selector='+'.join(ms + [b['keyword']]), keys=keys))
    return dict(kind='extension', it=it, bases=bases, mixins=mixins, files=seq)


def extension_source(case):
    src = ['import numpy as np', 'from taurex.temperature import TemperatureProfile',
           'from taurex.mixin import TemperatureMixin', '']
    for b in case['bases']:
        sig = ', '.join(['self'] + ['%s=%r' % (k, v) for k, v in b['kwargs']])
        src += ['class %s(TemperatureProfile):' % b['name'],
                '    def __init__(%s):' % sig,
                '        super().__init__(%r)' % b['name'],
                '        self._ext_kw = dict(%s)' % ', '.join('%s=%s' % (k, k) for k, _ in b['kwargs']),
                '    @property', '    def profile(self):', '        return np.full(self.nlayers, 1000.0)',
                '    @classmethod', '    def input_keywords(cls):', '        return [%r]' % b['keyword'], '']
    for m in case['mixins']:
        sig = ', '.join(['self'] + ['%s=%r' % (k, v) for k, v in m['kwargs']])
        src += ['class %s(TemperatureMixin):' % m['name'],
                '    def __init_mixin__(%s):' % sig,
                '        self._ext_mix_%s = dict(%s)' % (m['name'], ', '.join('%s=%s' % (k, k) for k, _ in m['kwargs'])),
                '    @classmethod', '    def input_keywords(cls):', '        return [%r]' % m['keyword'], '']
    return '\n'.join(src) + '\n'


def eval_extension(ctx, scratch, case):
    """every selector over extension classes resolves to exactly the classes its parts name (each part looked up on its own
    through the same factories), and the keys of the section reach those classes' constructors with the values written"""
    from taurex.parameter.classfactory import ClassFactory
    from taurex.parameter import ParameterParser, factory as F
    from taurex.temperature import TemperatureProfile
    d = tempfile.mkdtemp(prefix='ext_', dir=scratch)
    with open(os.path.join(d, 'ext_profiles_%d.py' % int(case['it'])), 'w') as fh:
        fh.write(extension_source(case))
    cf = ClassFactory()
    try:
        # the documented Extension Path Method itself ([Global] extension_paths -> ClassFactory.set_extension_paths).  On the
        # pinned tree load_extension_paths logged through a missing attribute (self.info) and raised AttributeError for every
        # non-empty path; found by this stream, repaired in /repo (DESIGN §6, findings/c15_extension_path_loader.py)
        try:
            cf.set_extension_paths(paths=[d])
        except Exception as e:  # noqa
            ctx.violation('extension-path-loader-raises', 'ClassFactory.set_extension_paths on a directory of well-formed '
                          'custom-class files raised %r' % (e,), case)
            return
        ctx.bucket('extension:loaded-through-set_extension_paths')
        byname = {c.__name__: c for c in list(cf.temperatureKlasses) + list(cf.temperatureMixinKlasses)}
        missing = [x['name'] for x in case['bases'] + case['mixins'] if x['name'] not in byname]
        if missing:
            ctx.malformed_outcome('extension-classes-not-loaded')
            return
        info = {x['keyword']: x for x in case['bases'] + case['mixins']}
        for f in case['files']:
            parts = f['selector'].split('+')
            path = os.path.join(scratch, 'ext.par')
            write_file(path, [('Temperature', dict(scalars=[('profile_type', f['selector'])] + [tuple(kv) for kv in f['keys']],
                                                   subs=[]))])
            ctx.case(key=('extension', len(parts), len(f['keys'])), bucket='stream:extension:%s' % (
                'composite' if len(parts) > 1 else 'plain'), sample=dict(selector=f['selector']))
            small = dict(case, failing_file=f)
            want_base = F.temp_factory(parts[-1])
            want_mix = [F.mixin_factory(m, TemperatureProfile) for m in parts[:-1]]
            pp = ParameterParser()
            pp.read(path)
            try:
                obj = pp.generate_temperature_profile()
            except Exception as e:  # noqa
                ctx.violation('extension-selector-raises:temperature', 'a well-formed [Temperature] section over classes of '
                              'the extension path raised %r' % (e,), small)
                return
            ctx.disagreements_checked += 1
            got = type(obj).__bases__ if parts[:-1] else (type(obj),)
            if tuple(got) != tuple(want_mix) + (want_base,):
                ctx.violation('selector-resolves-to-another-class:temperature',
                              'profile_type = %s built an object of %s, the selector names %s'
                              % (f['selector'], [c.__name__ for c in got], [c.__name__ for c in want_mix + [want_base]]), small)
                return
            given = {k: oracle_typed(v) for k, v in f['keys']}

            def same(received, kwargs):
                # keys written in a spelling the documented typing does not settle (1_0, inf, ...) are not judged here
                return isinstance(received, dict) and set(received) == {k for k, _ in kwargs} and all(
                    given.get(k, dv) is NotImplemented or (type(received[k]) is float and received[k] == given.get(k, dv))
                    for k, dv in kwargs)
            exp = {k: given.get(k, dv) for k, dv in info[parts[-1]]['kwargs']}
            ok = same(getattr(obj, '_ext_kw', None), info[parts[-1]]['kwargs'])
            for m in parts[:-1]:
                if m in info:
                    ok = ok and same(getattr(obj, '_ext_mix_' + info[m]['name'], None), info[m]['kwargs'])
                elif given.get('scale_factor', NotImplemented) is not NotImplemented:
                    ok = ok and obj.scaleFactor == given['scale_factor']
            if not ok:
                ctx.violation('value:temperature:extension', 'the keys of a [Temperature] section over extension classes did not '
                              'reach the constructors with the values written', small,
                              dict(base_received=getattr(obj, '_ext_kw', None), expected=repr(exp)))
                return
    finally:
        cf.set_extension_paths(paths=None)
        shutil.rmtree(d, ignore_errors=True)


def extension_stream(ctx, scratch):
    for it in range(ctx.n(4, 40)):
        eval_extension(ctx, scratch, gen_extension_case(ctx.rng, it))


def makefree_stream(ctx, scratch):
    """the documented composite `makefree+file` chemistry WITH gas sub-sections: every [[gas]] sub-section reaches the built
    chemistry, exactly as `enhance_class(ChemistryFile, MakeFreeMixin, ...).addGas(...)` through the library"""
    from taurex.parameter import ParameterParser
    from taurex.mixin import enhance_class, MakeFreeMixin
    from taurex.chemistry import ChemistryFile, ConstantGas
    rng = ctx.rng
    aux = os.path.join(scratch, 'aux')
    nl = 6
    for it in range(ctx.n(4, 24)):
        base_gases = ['H2O', 'CH4', 'H2', 'He']
        tab = np.stack([np.full(nl, 10 ** rng.uniform(-6, -3)), np.full(nl, 10 ** rng.uniform(-6, -3)),
                        np.full(nl, 0.8), np.full(nl, 0.19)], axis=1)
        cf = os.path.join(aux, 'mf_chem_%d.dat' % it)
        np.savetxt(cf, tab)
        pool = ['CH4', 'TiO', 'CO2', 'NH3', 'H2O', 'VO']
        subs = [str(x) for x in rng.choice(pool, size=int(rng.integers(1, 4)), replace=False)]
        mixes = {g: float(10 ** rng.uniform(-7, -3)) for g in subs}
        f = [('Chemistry', dict(scalars=[('chemistry_type', rcase(rng, 'makefree') + '+' + rcase(rng, 'file')), ('filename', cf),
                                         ('gases', list(base_gases))],
                                subs=[(g, [('gas_type', 'constant'), ('mix_ratio', repr(mixes[g]))]) for g in subs]))]
        path = os.path.join(scratch, 'makefree.par')
        write_file(path, f)
        small = dict(kind='makefree', file=f)
        ctx.case(key=('makefree', tuple(sorted(subs))), bucket='stream:makefree+file-with-gases', sample=dict(subs=subs))
        try:
            pp = ParameterParser()
            pp.read(path)
            chem = pp.generate_chemistry_profile()
            lib = enhance_class(ChemistryFile, MakeFreeMixin, gases=list(base_gases), filename=cf)
            for g in subs:
                lib.addGas(ConstantGas(g, mix_ratio=mixes[g]))
            T, P = np.full(nl, 1000.0), np.logspace(5, 0, nl)
            chem.initialize_chemistry(nl, T, P)
            lib.initialize_chemistry(nl, T, P)
            got, want = list(chem.gases), list(lib.gases)
            # public view of the added gases: each is a fitting parameter named after its molecule, holding its mix ratio
            fp_got = {k: float(v[2]()) for k, v in chem.fitting_parameters().items()}
            fp_want = {k: float(v[2]()) for k, v in lib.fitting_parameters().items()}
            ok = sorted(got) == sorted(want) and fp_got == fp_want and all(g in fp_got for g in subs) and \
                C.close(np.asarray(chem.mixProfile, float).ravel(), np.asarray(lib.mixProfile, float).ravel(), rel=1e-12)
        except Exception as e:  # noqa
            ctx.violation('makefree-raises', 'building chemistry_type = makefree+file with gas sub-sections raised %r' % (e,),
                          small)
            continue
        ctx.disagreements_checked += 1
        if not ok:
            ctx.violation('makefree-subsections-dropped', 'the gas sub-sections of a makefree+file chemistry section did not '
                          'reach the chemistry as they do through the library (gases from the file %r, through the library %r)'
                          % (got, want), small)


def case_stream(ctx):
    """selectors are case-insensitive (the documentation itself writes `Simple`, `Simple`, `custom`): the real
    determine_klass must resolve every lower-case keyword, written in any letter case, to the same class"""
    from taurex.parameter import factory as F
    rng = ctx.rng
    reg = gen()['registry']
    fac = factories()
    sb = G.bases()
    for sec, f in sorted(fac.items()):
        field = SEC_FIELD[sec]
        for k in reg[sec]['classes']:
            for kw in k['keywords']:
                if kw != kw.lower() or kw == kw.upper():
                    continue
                try:
                    ref = F.determine_klass({field: kw}, field, f, sb[sec])[1]
                except Exception as e:  # noqa
                    ref = 'raised:' + type(e).__name__
                variants = {kw.upper(), kw.capitalize(), kw.swapcase(),
                            ''.join(c.upper() if rng.random() < 0.5 else c for c in kw)} - {kw}
                for v in sorted(variants):
                    try:
                        got = F.determine_klass({field: v}, field, f, sb[sec])[1]
                    except Exception as e:  # noqa
                        got = 'raised:' + type(e).__name__
                    ctx.case(key=('case', sec, v), bucket='selector-case')
                    if got is not ref:
                        ctx.violation('selector-case:%s' % field,
                                      'selector `%s = %s` does not resolve to the class of `%s`' % (field, v, kw),
                                      dict(kind='case', sec=sec, written=v, keyword=kw),
                                      dict(lower=clean_repr(ref), written=clean_repr(got)))
                    if not BUILD_BROKEN and sec in ('temperature', 'pressure', 'planet', 'star', 'optimizer'):
                        d = ctx.model().call('c15.expected', '0', enc_file(
                            [(SEC_HEADER[sec], dict(scalars=[(field, v)], subs=[]))]))
                        g = dec_graph(d)[sec]
                        if g is not None and g[0] == 'ok':
                            ctx.check_eq('C15 selector letter case: determine_klass vs Factory.expected',
                                         G.class_path(got) if inspect.isclass(got) else got, g[1]['cls'],
                                         dict(kind='case', sec=sec, written=v))
                        elif g is not None and g[1] == 'NotImplementedError':
                            ctx.check_eq('C15 selector letter case: determine_klass vs Factory.expected',
                                         got, 'raised:NotImplementedError', dict(kind='case', sec=sec, written=v))


def build_library(spec):
    """the same components through the library API"""
    cpath, ckw, gs = spec['chemistry']
    chem = load_class(cpath)(**ckw)
    for gp, gkw in gs:
        chem.addGas(load_class(gp)(**gkw))
    comp = {}
    for name in ('temperature', 'pressure', 'planet', 'star'):
        comp[name] = load_class(spec[name][0])(**spec[name][1])
    mp, mkw, cs = spec['model']
    model = load_class(mp)(planet=comp['planet'], star=comp['star'], pressure_profile=comp['pressure'],
                           temperature_profile=comp['temperature'], chemistry=chem, **mkw)
    for cp, ckw2 in cs:
        model.add_contribution(load_class(cp)(**ckw2))
    model.build()
    return model


def eval_cli(ctx, case, scratch):
    import h5py
    import taurex.taurex as T
    path = os.path.join(scratch, 'cli.par')
    out_h5 = os.path.join(scratch, 'cli_out.h5')
    out_dat = os.path.join(scratch, 'cli_out.dat')
    for p in (out_h5, out_dat):
        if os.path.exists(p):
            os.remove(p)
    write_file(path, case['file'])
    small = dict(kind='cli', file=case['file'], spec=case['spec'])
    clear_caches()
    argv = sys.argv
    sys.argv = ['taurex', '-i', path, '-o', out_h5, '-S', out_dat]
    was = REC.installed
    try:
        with contextlib.redirect_stdout(io.StringIO()):
            T.main()
    except BaseException as e:  # noqa
        if isinstance(e, KeyboardInterrupt):
            raise
        ctx.violation('cli-raised', 'the command-line program failed on a well-formed input file: %r' % (e,), small)
        return
    finally:
        sys.argv = argv
    with h5py.File(out_h5, 'r') as h:
        cli_wn = h['Output/Spectra/native_wngrid'][...]
        cli_sp = h['Output/Spectra/native_spectrum'][...]
    dat = np.loadtxt(out_dat)
    model = build_library(case['spec'])
    wn, flux, tau, _ = model.model()
    ctx.disagreements_checked += 3
    ok = (len(wn) == len(cli_wn) and C.close(cli_wn, wn, rel=1e-12) and C.close(cli_sp, flux, rel=1e-12, abs_=1e-300))
    order = np.argsort(10000 / wn)
    dorder = np.argsort(dat[:, 0])
    ok2 = dat.shape[0] == len(wn) and C.close(dat[dorder, 0], (10000 / wn)[order], rel=1e-12) and \
        C.close(dat[dorder, 1], np.asarray(flux)[order], rel=1e-12, abs_=1e-300)
    ctx.case(key=tuple(case['meta']), bucket='stream:cli', sample=dict(file=case['file'], spectrum=flux[:3]))
    ctx.bucket('cli:' + case['spec']['model'][0].rsplit('.', 1)[1])
    if not (ok and ok2):
        ctx.violation('cli-differs-from-library',
                      'taurex -i f -o out.h5 -S out.dat does not give the spectrum of the same components built '
                      'through the library', small,
                      dict(hdf5_ok=bool(ok), dat_ok=bool(ok2), cli=cli_sp[:4], lib=np.asarray(flux)[:4],
                           nonconstant=bool(np.ptp(flux) > 0)))
    if not np.ptp(flux) > 0:
        ctx.bucket('cli:flat-spectrum')


def eval_cli_instrument(ctx, case, scratch):
    """program flow with [Binning] + [Instrument]: every key of the instrument section (SNR, num_observations) reaches the
    instrument call; the stored instrument spectrum / noise are those of the same instrument driven through the library"""
    import h5py
    import taurex.taurex as T
    from taurex.binning import SimpleBinner
    from taurex.instruments.snr import SNRInstrument
    inst = case['instrument']
    lo, hi, nb = inst['grid']
    f = list(case['file']) + [
        ('Binning', dict(scalars=[('bin_type', 'manual'), ('wavenumber_grid', [repr(lo), repr(hi), str(nb)])], subs=[])),
        ('Instrument', dict(scalars=[('instrument', 'snr'), ('SNR', repr(inst['snr'])),
                                     ('num_observations', str(inst['nobs']))], subs=[]))]
    path = os.path.join(scratch, 'cli_inst.par')
    out_h5 = os.path.join(scratch, 'cli_inst_out.h5')
    if os.path.exists(out_h5):
        os.remove(out_h5)
    write_file(path, f)
    small = dict(kind='cli_instrument', file=f, spec=case['spec'], instrument=inst)
    clear_caches()
    argv = sys.argv
    sys.argv = ['taurex', '-i', path, '-o', out_h5]
    try:
        with contextlib.redirect_stdout(io.StringIO()):
            T.main()
    except BaseException as e:  # noqa
        if isinstance(e, KeyboardInterrupt):
            raise
        ctx.violation('cli-raised:instrument', 'the command-line program failed on a well-formed input file with '
                      '[Binning] and [Instrument]: %r' % (e,), small)
        return
    finally:
        sys.argv = argv
    with h5py.File(out_h5, 'r') as h:
        g = h['Output/Spectra']
        got = {k: g[k][...] for k in ('instrument_wngrid', 'instrument_spectrum', 'instrument_noise') if k in g}
    model = build_library(case['spec'])
    res = model.model()
    lib = SNRInstrument(SNR=inst['snr'], binner=SimpleBinner(np.linspace(lo, hi, nb))).model_noise(
        model, model_res=res, num_observations=inst['nobs'])
    ctx.disagreements_checked += 3
    ctx.case(key=('cli-instrument', inst['nobs'], nb), bucket='stream:cli-instrument',
             sample=dict(instrument=inst, noise=np.asarray(lib[2])[:3]))
    ok = len(got) == 3 and C.close(got['instrument_wngrid'], lib[0], rel=1e-12) \
        and C.close(got['instrument_spectrum'], lib[1], rel=1e-10, abs_=1e-300) \
        and C.close(got['instrument_noise'], lib[2], rel=1e-10, abs_=1e-300)
    if not ok:
        ctx.violation('cli-instrument-differs-from-library',
                      'taurex -i f -o out.h5 with [Instrument] instrument=snr, SNR, num_observations does not store the '
                      'spectrum / noise of the same instrument called through the library with those values', small,
                      dict(stored={k: np.asarray(v)[:3] for k, v in got.items()}, lib_noise=np.asarray(lib[2])[:3],
                           lib_spectrum=np.asarray(lib[1])[:3]))


# ----------------------------------------------------------------------------- run / replay / search
def portable(x, scratch):
    """make a case replayable in another scratch directory"""
    import json
    return json.loads(json.dumps(C.jsonable(x)).replace(scratch, '$SCRATCH'))


def unportable(x, scratch):
    import json
    return json.loads(json.dumps(x).replace('$SCRATCH', scratch))


class Session:
    def __init__(self, ctx):
        self.ctx = ctx
        self.scratch = tempfile.mkdtemp(prefix='c15_')
        self.cwd = os.getcwd()

    def __enter__(self):
        gen()
        quiet()
        os.chdir(self.scratch)
        REC.install()
        return self

    def __exit__(self, *a):
        REC.uninstall()
        os.chdir(self.cwd)
        clear_caches()
        shutil.rmtree(self.scratch, ignore_errors=True)
        # make the violations / mismatches recorded during this session replayable elsewhere
        for lst in (self.ctx.violations, self.ctx.mismatches):
            for v in lst:
                if v and 'case' in v:
                    v['case'] = portable(v['case'], self.scratch)
                    if 'detail' in v:
                        v['detail'] = portable(v['detail'], self.scratch)
        return False


def attach_sources(case):
    src = {}
    for p, _ in case.get('customs', []):
        try:
            src[p] = open(p).read()
        except OSError:
            pass
    return src


def run(ctx):
    with Session(ctx) as s:
        rng = ctx.rng
        check_docs(ctx, prepare_aux(s.scratch))
        lookup_stream(ctx)
        case_stream(ctx)
        transform_stream(ctx)
        composite_stream(ctx, s.scratch)
        keycase_stream(ctx, s.scratch)
        makefree_stream(ctx, s.scratch)
        fg = FileGen(rng, s.scratch)
        n = ctx.n(1500, 24000)
        for i in range(n):
            fl = ['plain', 'plain', 'mixin', 'custom'][i % 4]
            case = fg.file(fl)
            if i % 3 == 2:
                case = fg.malform(case)
            if i % 4 in (1, 3):
                # history quota: the same parser object is asked for (some of) its components a second time
                k = int(rng.integers(1, len(SLOTS) + 1))
                case['repeat'] = [SLOTS[int(j)] for j in rng.permutation(len(SLOTS))[:k]]
            case['custom_src'] = attach_sources(case)
            nv = len(ctx.violations)
            eval_file(ctx, case, s.scratch)
            for v in ctx.violations[nv:]:
                v['case'] = dict(kind='file', file=case['file'], customs=case['customs'],
                                 custom_src=case['custom_src'], malformed=case.get('malformed'),
                                 flavour=case.get('flavour'), meta=case['meta'], repeat=case.get('repeat'))
        opac = make_opacities(s.scratch, rng)
        for i in range(ctx.n(24, 240)):
            case = gen_cli_case(rng, opac)
            eval_cli(ctx, case, s.scratch)
            clear_caches()
            if i % 3 == 0:
                nv = len(ctx.violations)
                case['instrument'] = dict(grid=[float(rng.integers(500, 900)), float(rng.integers(4000, 5800)),
                                                int(rng.integers(8, 30))], snr=float(rng.integers(5, 200)),
                                          nobs=int(rng.integers(1, 12)))
                eval_cli_instrument(ctx, case, s.scratch)
                clear_caches()
            eval_file(ctx, case, s.scratch, count=False)
            if i % 4 == 0:
                for mc in targeted_malformed(rng, case):
                    nv = len(ctx.violations)
                    eval_file(ctx, mc, s.scratch)
                    for v in ctx.violations[nv:]:
                        v['case'] = dict(kind='file', file=mc['file'], customs=[], custom_src={},
                                         malformed=mc['malformed'], flavour='targeted', meta=mc['meta'])
        extension_stream(ctx, s.scratch)
        prior_stream(ctx, s.scratch)


def prepare_aux(scratch):
    os.makedirs(os.path.join(scratch, 'aux'), exist_ok=True)
    wl = np.linspace(1, 5, 6)
    np.savetxt(os.path.join(scratch, 'aux', 'obs.dat'), np.vstack([wl, 0.01 + 0 * wl, 1e-4 + 0 * wl]).T)
    return scratch


def replay(ctx, case):
    if isinstance(case.get('case'), dict) and 'file' not in case and 'raw' not in case:
        case = case['case']          # a replay file written by main.py wraps the case
    kind = case.get('kind', 'file')
    with Session(ctx) as s:
        prepare_aux(s.scratch)
        case = unportable(case, s.scratch)
        if kind == 'fitting-prior':
            eval_prior_case(ctx, case, s.scratch)
            return
        if kind == 'docs':
            check_docs(ctx, s.scratch)
        elif kind == 'transform':
            eval_transform(ctx, case['raw'])
        elif kind in ('lookup', 'prior'):
            lookup_stream(ctx)
        elif kind == 'case':
            case_stream(ctx)
        elif kind == 'makefree':
            makefree_stream(ctx, s.scratch)
        elif kind == 'extension':
            eval_extension(ctx, s.scratch, case)
        elif kind in ('cli', 'cli_instrument'):
            opac = make_opacities(s.scratch, np.random.default_rng(int(case.get('opac_seed', 0))))
            c = dict(case)
            c['file'] = [(n, dict(scalars=[tuple(x) if not isinstance(x[1], list) else (x[0], x[1]) for x in sec['scalars']],
                                  subs=[(a, [tuple(y) for y in b]) for a, b in sec['subs']]))
                         for n, sec in case['file']]
            c['file'] = [(n, dict(scalars=[(k, (opac if k in ('xsec_path', 'cia_path') else v)) for k, v in sec['scalars']],
                                  subs=sec['subs'])) for n, sec in c['file']]
            c['spec'] = {k: tuple(v) for k, v in case['spec'].items()}
            c.setdefault('meta', [('cli', 'replay')])
            if kind == 'cli_instrument':
                c['file'] = [x for x in c['file'] if x[0] not in ('Binning', 'Instrument')]
                eval_cli_instrument(ctx, c, s.scratch)
            else:
                eval_cli(ctx, c, s.scratch)
        else:
            for p, src in case.get('custom_src', {}).items():
                with open(p, 'w') as fh:
                    fh.write(src)
            c = dict(case)
            c['file'] = [(n, dict(scalars=[(k, v) for k, v in sec['scalars']],
                                  subs=[(a, [(k, v) for k, v in b]) for a, b in sec['subs']]))
                         for n, sec in case['file']]
            c['customs'] = [(p, ms) for p, ms in case.get('customs', [])]
            for _, ms in c['customs']:
                for m in ms:
                    m['kwargs'] = [(k, detuple(v)) for k, v in m['kwargs']]
                    m['mixinKwargs'] = [(k, detuple(v)) for k, v in m['mixinKwargs']]
            c['meta'] = [tuple(m) if isinstance(m, list) else m for m in case.get('meta', [])]
            c['meta'] = [tuple(tuple(x) if isinstance(x, list) else x for x in m) for m in c['meta']]
            eval_file(ctx, c, s.scratch)


def detuple(v):
    """JSON turned the value tuples into lists: restore ('scalar', (...)) / ('list', [(...)])"""
    if v[0] == 'scalar':
        return ('scalar', tuple(v[1]))
    if v[0] == 'list':
        return ('list', [tuple(x) for x in v[1]])
    return tuple(v)


def search(ctx):
    """failing-input search when a theorem over the regenerated tables, the audit or the correspondence broke:
    the property's predicates on the implementation alone (documentation tables, keyword ambiguity, typing,
    generated files) — run() already evaluates all of them; here the documentation and look-up predicates are
    re-evaluated and a larger file stream is tried"""
    with Session(ctx) as s:
        prepare_aux(s.scratch)
        global BUILD_BROKEN
        keep = BUILD_BROKEN
        BUILD_BROKEN = True
        try:
            check_docs(ctx, s.scratch)
            lookup_stream(ctx)
            fg = FileGen(ctx.rng, s.scratch)
            for i in range(400):
                case = fg.file(['plain', 'mixin', 'custom'][i % 3])
                if i % 2:
                    case = fg.malform(case)
                eval_file(ctx, case, s.scratch, count=False)
                if ctx.violations:
                    break
        finally:
            BUILD_BROKEN = keep
