"""C19 — clouds and hazes act only inside their declared pressure range.

Correspondence: `sigma_xsec` of the real SimpleClouds / FlatMie / LeeMie contributions after `prepare()` and the
transmittance/depth of real TransmissionModels containing them, against `Taurex.Haze` (Lean).  The property's own
predicates (opaque at/below the cloud top, untouched above, zero outside the haze window, declared magnitude inside,
unset = whole atmosphere, inverted = sorted for the grey haze) are evaluated on the implementation for every case."""
import math
import numpy as np
from harness import common as C
from harness import fm_common as FM
from harness import c01 as T

RULE = ('real TransmissionModel (2-30 layers, 1-5 wavenumbers, thin/mid/thick absorber) + one of: cloud deck with top '
        'inside / exactly on a layer pressure / +-1ulp of it / above / below the grid; grey haze and Lee haze with '
        'bounds set / unset / one unset / inverted / sub-Pascal / exactly on levels / wholly above / wholly below / '
        'zero width; the same classes DECLARED IN AN INPUT FILE ([Model] section text -> ParameterParser -> factory.create_model / '
        'generate_contributions / create_klass) with non-integer values, bounds left out (= unset), other keywords left out '
        '(= constructor default, cloud top included), in one session after a section of the same class that declares every '
        'keyword; one case in five on a whole-number wavenumber grid held as an int64 / int32 array; every cloud case also with the '
        'deck attached by add_contribution() to the built, already run cloud-free model (deck evaluated last); every haze case '
        'also judged on the optical depth added along each ray (sigma x density x chord, altitude grid of a default-ray-tracer twin)'
        '; models DECLARING SEVERAL hazes / clouds at once (grey + Lee, two grey / two Lee hazes with other windows, haze + haze + '
        'cloud deck, either order, by add_contribution() or in one input file): every haze sigma vs its model value, the optical '
        'depth added along each ray vs the SUM of the per-haze model values, a refused declared contribution is a violation'
        '. distinct non-trivial = distinct (kind, bound class, layers, method, route) where the contribution '
        'affects some but not all layers')
ASSUMPTIONS = ['np.searchsorted(side="right") on a sorted array = number of elements <= v (Interp.searchRight)',
               'x**y (numpy power) modelled as exp(y*log x) for x > 0; pi is passed in as np.pi',
               'np.inf arithmetic: 0+inf = inf, exp(-inf) = 0, inf > 10',
               'the cloud deck is the first contribution after build() sorts by .order (3 < 5)',
               'pressure levels strictly decreasing with altitude, layer pressures inside their levels (C11)',
               'rounding not modelled: sigma compared to 1e-9 relative',
               'input-file route: the atmosphere components are built in Python and handed to ParameterParser.generate_model; the '
               'section text holds repr(float) of every declared value (ConfigObj + ParameterParser.transform turn it back into '
               'the same float); the constructor defaults are read from the class signature (inspect), not through the factory; '
               'Haze.declaredArgs (op c19.declare) is compared with the values the built contribution holds',
               'source tie of the cloudy run (Props/C19Src.lean src_cloudy_run_*, Props/C19SrcProps.lean): the regenerated '
               'path_integral / contribute / compute_absorption / prepare_each are run at the extended carrier XR '
               '(Proofs/C19Ext.lean): a real, +inf, -inf or nan; IEEE rules for the special values (x+inf=inf, inf-inf=nan, '
               '0*inf=nan, comparisons with nan false, exp(-inf)=0), the real carrier on finite arguments (unsigned zero, '
               'no rounding); np.inf is the value pinf, every other input is finite']

# ---- source tie (harness/translate.py, dialect 'shaped'): re-translated on every run into lean/TaurexModel/Gen/SrcC19.lean;
# lean/Props/C19Src.lean proves each definition equal to the model function of TaurexModel/Haze.lean.
_PE = dict(model='skip', wngrid='skip')
SRC_SPECS = [
    dict(module='taurex/contributions/simpleclouds.py', cls='SimpleCloudsContribution', func='prepare_each',
         lean='clouds_prepare_each', dialect='shaped', params=_PE, lens={'wngrid': 'nW'},
         attrs={'model.nLayers': ('nL', 'nat'), 'model.pressureProfile': ('P', 'arr'),
                'self._cloud_pressure': ('p0', 's'), 'self._contrib': ('contrib_attr', 'arr2')},
         dims={'model.pressureProfile': ['nL']}, local_attrs=['self._contrib'], ignore_stores=['self.sigma_xsec'],
         yields='single', returns='arr2'),
    # what the suspended generator has PUBLISHED in `self.sigma_xsec` at its yield (the array `contribute` reads when
    # model_full_contrib re-runs path_integral for the component): the same source translated with `publish`
    dict(module='taurex/contributions/simpleclouds.py', cls='SimpleCloudsContribution', func='prepare_each',
         lean='clouds_prepare_each_published', callname='clouds_prepare_each_published', dialect='shaped', params=_PE,
         lens={'wngrid': 'nW'},
         attrs={'model.nLayers': ('nL', 'nat'), 'model.pressureProfile': ('P', 'arr'),
                'self._cloud_pressure': ('p0', 's'), 'self._contrib': ('contrib_attr', 'arr2')},
         dims={'model.pressureProfile': ['nL']}, local_attrs=['self._contrib'], ignore_stores=['self.sigma_xsec'],
         publish='self.sigma_xsec', yields='single', returns='arr2'),
    dict(module='taurex/contributions/simpleclouds.py', cls='SimpleCloudsContribution', func='contribute',
         lean='clouds_contribute', dialect='shaped',
         params=dict(model='skip', start_layer='skip', end_layer='skip', density_offset='skip', layer='nat',
                     density='skip', tau='arr2', path_length='skip'),
         attrs={'self.sigma_xsec': ('sigma', 'arr2')}, dims={'tau': ['nL', 'nW'], 'self.sigma_xsec': ['nL', 'nW']},
         out='tau', returns='arr2'),
    dict(module='taurex/contributions/leemie.py', cls='LeeMieContribution', func='prepare_each',
         lean='lee_prepare_each', dialect='shaped', params=dict(model='skip', wngrid='arr'), lens={'wngrid': 'nW'},
         dims={'wngrid': ['nW'], 'model.pressureProfile': ['nL'], 'pressure_profile': ['nL']},
         attrs={'model.nLayers': ('nL', 'nat'), 'model.pressureProfile': ('P', 'arr'),
                'self._nlayers': ('nlayers', 'nat'), 'self._ngrid': ('ngrid', 'nat'),
                'self.mieBottomPressure': ('bottomRaw', 's'), 'self.mieTopPressure': ('topRaw', 's'),
                'self.mieRadius': ('a', 's'), 'self.mieQ': ('q', 's'), 'self.mieMixing': ('mix', 's')},
         local_attrs=['self._nlayers', 'self._ngrid'], ignore_stores=['self.sigma_xsec'], yields='single',
         returns='arr2'),
    dict(module='taurex/contributions/flatmie.py', cls='FlatMieContribution', func='prepare_each',
         lean='flat_prepare_each', dialect='shaped', params=_PE, lens={'wngrid': 'nW'},
         dims={'model.pressure.pressure_profile_levels': ['(nL + 1)']},
         attrs={'model.nLayers': ('nL', 'nat'), 'model.pressure.pressure_profile_levels': ('plev', 'arr'),
                'self._nlayers': ('nlayers', 'nat'), 'self._ngrid': ('ngrid', 'nat'),
                'self.mieBottomPressure': ('bottomRaw', 's'), 'self.mieTopPressure': ('topRaw', 's'),
                'self.mieMixing': ('mix', 's')},
         local_attrs=['self._nlayers', 'self._ngrid'], ignore_stores=['self.sigma_xsec'], yields='single',
         returns='arr2'),
]
# the run the cloud theorems are about: `TransmissionModel.path_integral` (the loop over the layers, the loop over the
# contribution list with its `tau[layer].min() > 10` break), the `contribute` methods Python's dynamic dispatch reaches, the
# chord lengths and `compute_absorption` (`np.exp(-tau)`).  The specs are C01's (harness/c01.py), re-translated here into
# Gen/SrcC19.lean; Props/C19SrcProps.lean instantiates them at the extended carrier `XR` (Proofs/C19Ext.lean: the reals plus
# +inf, -inf, nan with numpy's float rules for them), where `np.inf` is a value.
_C01 = {s['lean']: s for s in T.SRC_SPECS}
SRC_SPECS += [dict(_C01[k]) for k in ('contribute_tau', 'contribution_contribute', 'contribute_cia', 'cia_contribute',
                                      'compute_path_length_old', 'compute_absorption', 'parallel_vector',
                                      'compute_path_length', 'path_integral')]

E10 = T.E10


# ----------------------------------------------------------------------------------------- helpers

def _invalid_params(ctx, e):
    """a parameter set the model itself rejects as invalid (InvalidModelException and subclasses) is outside every
    property's quantifier: recorded in the malformed stream, never judged"""
    from taurex.exceptions import InvalidModelException
    if isinstance(e, InvalidModelException):
        ctx.malformed_outcome('invalid-model-after-setters:' + type(e).__name__)
        return True
    return False

def base_spec(rng, k):
    regime = ['thin', 'mid', 'thick', 'mid'][k % 4]
    nl = int(rng.integers(2, 31)) if rng.random() < 0.8 else int(rng.integers(2, 5))
    spec = FM.gen_spec(rng, nlayers=nl, regime=regime, same_grid=True, nwn=int(rng.integers(1, 6)), with_cia=False)
    spec['new_path_method'] = bool((k // 4) % 2)
    if k % 5 == 3:
        # a table whose wavenumber grid holds whole numbers in an INTEGER array (np.arange(1000, 3000, 50)): the grid the
        # contributions are prepared on is then an integer array
        for o in spec['opacities']:
            o['wn'] = np.floor(np.asarray(o['wn'], float))
            o['wn_dtype'] = ['int64', 'int32'][(k // 5) % 2]
        spec['wn_dtype'] = spec['opacities'][0]['wn_dtype']
    others = [dict(type='absorption')]
    if rng.random() < 0.3:
        others.append(dict(type='rayleigh'))
    spec['others'] = others
    return spec


def levels_of(spec):
    """pressure levels / layer pressures exactly as SimplePressureProfile computes them"""
    lev = np.logspace(math.log10(spec['pmin']), math.log10(spec['pmax']), spec['nlayers'] + 1)[::-1]
    P = lev[:-1] * np.sqrt(lev[1:] / lev[:-1])
    return lev, P


def with_contribs(spec, extra):
    s = dict(spec)
    cs = list(spec['others']) + ([extra] if extra is not None else [])
    if extra is not None and spec.get('extra_first'):
        cs = [extra] + list(spec['others'])
    s['contributions'] = cs
    return s


def find(m, name):
    return [c for c in m.contribution_list if type(c).__name__ == name][0]


def bound_class(rng, lev, P, kind):
    """(class name, bottomP, topP) in Pa; lev/P descending (surface first)"""
    pmax, pmin = lev[0], lev[-1]
    n = len(P)
    u = lambda a, b: float(10 ** rng.uniform(math.log10(a), math.log10(b)))
    pick = (lambda: float(lev[int(rng.integers(0, n + 1))])) if kind == 'flat' else (lambda: float(P[int(rng.integers(0, n))]))
    classes = ['set', 'unset', 'top-unset', 'bottom-unset', 'inverted', 'on-grid', 'above', 'below', 'zero-width',
               'subpascal', 'straddle', 'ulp']
    c = classes[int(rng.integers(0, len(classes)))]
    a, b = sorted([u(pmin, pmax), u(pmin, pmax)])
    if c == 'set':
        return c, b, a
    if c == 'unset':
        return c, -1, -1
    if c == 'top-unset':
        return c, b, -1
    if c == 'bottom-unset':
        return c, -1, a
    if c == 'inverted':
        return c, a, b
    if c == 'on-grid':
        x, y = sorted([pick(), pick()])
        return c, y, x
    if c == 'above':
        return c, pmin * u(1e-3, 0.9), pmin * u(1e-6, 1e-3)
    if c == 'below':
        return c, pmax * u(1e2, 1e4), pmax * u(1.1, 1e2)
    if c == 'zero-width':
        return c, a, a
    if c == 'subpascal':
        return c, b, float(min(a, 1.0) * 10 ** rng.uniform(-6, -0.1))
    if c == 'straddle':
        return c, pmax * u(1.0, 1e3), pmin * u(1e-3, 1.0)
    x = pick()
    return c, float(np.nextafter(x, rng.choice([0.0, np.inf]))), float(np.nextafter(pick(), rng.choice([0.0, np.inf])) * 0.5)


# ----------------------------------------------------------------------------------------- input-file route
# A cloud / haze DECLARED IN AN INPUT FILE: the [Model] section is written as text, read by ParameterParser (ConfigObj and
# its text -> number conversion) and turned into the model by ParameterParser.generate_model -> factory.create_model ->
# generate_contributions -> create_klass.  `spec['omit']` lists the keywords of the cloud / haze that the section leaves
# out (a bound left unset; a magnitude left at the constructor's default): `spec['extra']` holds the values the
# contribution must then act with.  All cases of a run share one Python session, so sections of the same class with
# other / fewer keywords have been turned into objects before.
SECTION = {'absorption': ('Absorption', 'AbsorptionContribution'), 'rayleigh': ('Rayleigh', 'RayleighContribution'),
           'clouds': ('SimpleClouds', 'SimpleCloudsContribution'), 'flatmie': ('FlatMie', 'FlatMieContribution'),
           'leemie': ('LeeMie', 'LeeMieContribution')}
BOUND_KEYS = ('flat_bottomP', 'flat_topP', 'lee_mie_bottomP', 'lee_mie_topP')


def sig_defaults(ctype):
    """{keyword: default} of the contribution's constructor, read from its signature (not through the factory)"""
    import inspect
    import taurex.contributions as tc
    klass = getattr(tc, SECTION[ctype][1])
    return {k: v.default for k, v in inspect.signature(klass.__init__).parameters.items()
            if k != 'self' and v.default is not inspect.Parameter.empty}


def model_section(s):
    """text of the [Model] section of the input file that declares the contribution list of `s`"""
    omit = set(s.get('omit') or [])
    lines = ['[Model]', 'model_type = transmission', 'new_path_method = %s' % bool(s.get('new_path_method', False))]
    for c in s['contributions']:
        lines.append('    [[%s]]' % SECTION[c['type']][0])
        for k, v in c.items():
            if k != 'type' and k not in omit:
                lines.append('    %s = %s' % (k, repr(v) if isinstance(v, int) else repr(float(v))))
    return '\n'.join(lines) + '\n'


def build_via_file(s):
    import os
    import shutil
    import tempfile
    from taurex.data import Planet
    from taurex.data.stellar import BlackbodyStar
    from taurex.data.profiles.pressure import SimplePressureProfile
    from taurex.parameter import ParameterParser
    FM.spec_install(s)
    planet = Planet(planet_mass=float(s.get('planet_mass', 1.0)), planet_radius=float(s.get('planet_radius', 1.0)))
    star = BlackbodyStar(temperature=float(s.get('star_temperature', 5700.0)), radius=float(s.get('star_radius', 1.0)))
    pres = SimplePressureProfile(nlayers=int(s.get('nlayers', 10)), atm_min_pressure=float(s.get('pmin', 1e-2)),
                                 atm_max_pressure=float(s.get('pmax', 1e6)))
    temp = FM.make_temperature(s.get('temperature', dict(type='isothermal', T=1500.0)))
    chem = FM.make_chemistry(s)
    tmp = tempfile.mkdtemp(prefix='verif_c19_')
    try:
        fn = os.path.join(tmp, 'model.par')
        with open(fn, 'w') as fh:
            fh.write(model_section(s))
        pp = ParameterParser()
        pp.read(fn)
        m = pp.generate_model(chemistry=chem, pressure=pres, temperature=temp, planet=planet, star=star)
    finally:
        shutil.rmtree(tmp, ignore_errors=True)
    m.build()
    return m


def run_real(s):
    """(model, wn, depth, trans, profiles, contributions) of the spec, built directly or through an input file"""
    if s.get('route') == 'parfile':
        if s.get('omit') and s.get('extra2') is not None:
            # the session a case with left-out keywords is judged in (part of the case, so that it replays on its own): an
            # input file declaring the same class with EVERY keyword (other values) has been turned into a model before
            build_via_file(with_contribs(dict(s, omit=[]), s['extra2']))
        m = build_via_file(s)
        return (m,) + T.observe(m)
    return T.run_real(s)


def to_parfile(rng, spec):
    """the same case declared in an input file; bounds that are unset are (mostly) left out of the section, a fifth of the
    other keywords is left out too and then stands at the constructor's default"""
    spec['route'] = 'parfile'
    ex = spec['extra']
    dflt = sig_defaults(ex['type'])
    omit = []
    for k in list(ex):
        if k == 'type':
            continue
        if k in BOUND_KEYS:
            if ex[k] < 0 and rng.random() < 0.7:
                omit.append(k)
        elif rng.random() < (0.3 if k == 'clouds_pressure' else 0.2):
            ex[k] = float(dflt[k])
            omit.append(k)
            if k == 'clouds_pressure':
                spec['cls'] = 'default-top'
    spec['omit'] = omit
    return spec


def check_declared(ctx, m, spec):
    """the keyword values the contribution object holds after the input-file route: against Haze.declaredArgs (model) and
    against the declaration itself (a declared value unchanged; a bound left out = unset; another keyword left out = the
    constructor's default)"""
    ex = spec['extra']
    obj = find(m, SECTION[ex['type']][1])
    dflt = sig_defaults(ex['type'])
    names = list(dflt)
    omit = list(spec.get('omit') or [])
    decl = [k for k in ex if k != 'type' and k not in omit]
    fp = obj.fitting_parameters()
    got = [float(fp[k][2]()) for k in names]
    sm = dict(kind=spec['kind'], cls=spec['cls'], route='parfile', extra=ex, omit=omit)
    d = ctx.model().call('c19.declare', C.L(names, C.S), C.L([float(dflt[k]) for k in names]), C.L(decl, C.S),
                         C.L([float(ex[k]) for k in decl]))
    ctx.check_eq('keyword values of the %s declared in an input file vs Haze.declaredArgs' % SECTION[ex['type']][0],
                 got, d.opt(d.list), sm)
    ctx.bucket('route:parfile:' + ex['type'])
    for k in omit:
        ctx.bucket('route:parfile:left-out:' + k)
    for k, v in zip(names, got):
        if k in decl and v != float(ex[k]):
            ctx.violation('declared-value-changed:' + k, 'the %s reaches the contribution with another value than the '
                          'input file declares' % k, spec, dict(declared=float(ex[k]), held=v))
        elif k in omit and k in BOUND_KEYS and not v < 0:
            ctx.violation('left-out-bound-not-unset:' + k, 'a haze bound the input file leaves out is not unset', spec,
                          dict(held=v))
        elif k in omit and k not in BOUND_KEYS and v != float(dflt[k]):
            ctx.violation('left-out-keyword-not-default:' + k, 'a keyword the input file leaves out does not stand at the '
                          'constructor default', spec, dict(default=float(dflt[k]), held=v))


# ----------------------------------------------------------------------------------------- cloud
def gen_cloud(rng, k):
    spec = base_spec(rng, k)
    lev, P = levels_of(spec)
    cls = ['inside', 'on-layer', 'ulp-above', 'ulp-below', 'above-grid', 'below-grid', 'on-level'][k % 7]
    i = int(rng.integers(0, len(P)))
    if cls == 'inside':
        p0 = float(10 ** rng.uniform(math.log10(lev[-1]), math.log10(lev[0])))
    elif cls == 'on-layer':
        p0 = float(P[i])
    elif cls == 'ulp-above':
        p0 = float(np.nextafter(P[i], np.inf))
    elif cls == 'ulp-below':
        p0 = float(np.nextafter(P[i], 0.0))
    elif cls == 'above-grid':
        p0 = float(lev[-1] * 10 ** rng.uniform(-4, -0.01))
    elif cls == 'below-grid':
        p0 = float(lev[0] * 10 ** rng.uniform(0.01, 4))
    else:
        p0 = float(lev[int(rng.integers(0, len(lev)))])
    spec['kind'] = 'cloud'
    spec['cls'] = cls
    spec['extra'] = dict(type='clouds', clouds_pressure=p0)
    spec['extra2'] = dict(type='clouds', clouds_pressure=float(P[int(rng.integers(0, len(P)))] * rng.choice([1.0, 0.7, 1.6])))
    spec['extra_first'] = bool(rng.random() < 0.5)
    return spec


def eval_cloud(ctx, spec):
    p0 = spec['extra']['clouds_pressure']
    try:
        m, wn, depth, trans, p, contribs = run_real(with_contribs(spec, spec['extra']))
        cloud = find(m, 'SimpleCloudsContribution')
        csig = np.array(cloud.sigma_xsec, float)
        order = [type(c).__name__ for c in m.contribution_list]
        m0, wn0, depth0, trans0, p_0, contribs0 = T.run_real(with_contribs(spec, None))
    except Exception as e:
        ctx.violation('cloud-raises:' + type(e).__name__, 'model with a cloud deck raised %r' % (e,), spec)
        return
    if spec.get('route') == 'parfile':
        check_declared(ctx, m, spec)
    n, nwn = p['nlayers'], len(wn)
    P = p['P']
    rp, rs, z, dz = p['rp'], p['rs'], p['z'], p['dz']
    cloudy = P >= p0
    new = bool(spec['new_path_method'])
    # correspondence with the Lean model
    d = ctx.model().call('c19.cloud', C.N(1 if new else 0), C.F(rp), C.F(rs), C.L(z), C.L(dz), C.L(p['zb']),
                         C.L(p['density']), C.N(nwn), C.L(P), C.F(p0),
                         C.L(contribs0, lambda ks: C.N(ks[0]) + ' ' + C.LL(ks[1].tolist())))
    mtr = np.array(d.list(lambda: d.list())).reshape(n, nwn)
    mdepth = np.array(d.list())
    ctx.disagreements_checked += 1
    if order[0] != 'SimpleCloudsContribution':
        ctx.mismatch('cloud deck is not the first contribution after build()', spec, dict(order=order))
    for l in range(n):
        ok = T.trans_close(trans[l], mtr[l]) or (np.all(trans[l] <= E10 * (1 + 1e-9)) and np.all(mtr[l] <= E10 * (1 + 1e-9))
                                                and not cloudy[l])
        if not ok:
            ctx.mismatch('exp(-tau) with cloud vs Haze.cloudyTrans', spec, dict(layer=l, impl=trans[l], model=mtr[l]))
            break
    band = E10 * float(np.sum(2 * (rp + z) * dz)) / rs ** 2
    ctx.check_close('depth with cloud vs Haze.cloudyDepth', depth, mdepth, spec, rel=1e-9, abs_=band)
    with np.errstate(over='ignore'):
        ctx.check_eq('cloud sigma_xsec is opaque (exp(-sigma) = 0) exactly where P >= p0 and zero elsewhere',
                     [bool(x) for x in np.all(np.exp(-csig) == 0.0, axis=1)] + [bool(np.all(csig[~cloudy] == 0))],
                     [bool(x) for x in cloudy] + [True], spec)
    # the property's own predicates
    if np.any(trans[cloudy] != 0.0):
        ctx.violation('cloud-not-opaque:' + spec['cls'], 'a layer at or below the cloud top is not opaque (exp(-tau) != 0)',
                      spec, dict(p0=p0, P=P, trans=trans[cloudy][:3]))
    clear = ~cloudy
    if np.any(clear) and not C.close(trans[clear].ravel(), trans0[clear].ravel(), rel=1e-12):
        ctx.violation('cloud-touches-clear-layers:' + spec['cls'], 'a layer above the cloud top changed', spec,
                      dict(p0=p0, P=P, with_cloud=trans[clear][:3], without=trans0[clear][:3]))
    floor = (rp ** 2 + float(np.sum((2 * (rp + z) * dz)[cloudy]))) / rs ** 2
    if np.any(depth < floor * (1 - 1e-12)) or np.any(depth < depth0 * (1 - 1e-12)):
        ctx.violation('cloud-depth-below-floor:' + spec['cls'],
                      'depth below the documented integral with the cloudy layers opaque', spec,
                      dict(depth=depth, floor=floor, without=depth0))
    late_deck(ctx, spec, m0, mtr, cloudy, trans0, depth0, floor)
    part = bool(np.any(cloudy) and np.any(clear))
    route = spec.get('route') or 'python'
    ctx.case(key=('cloud', spec['cls'], n, new, route) if part else None,
             sample=dict(kind='cloud', cls=spec['cls'], p0=p0, nlayers=n, cloudy=int(cloudy.sum()), depth=depth[:2],
                         route=route, omit=spec.get('omit')),
             bucket=('cloud:' if route == 'python' else 'cloud:input-file:') + spec['cls'])
    ctx.bucket('cloud-layers:' + ('none' if not cloudy.any() else 'all' if cloudy.all() else 'some'))
    if spec.get('wn_dtype'):
        ctx.bucket('cloud:wavenumber-grid-dtype:' + spec['wn_dtype'])
    reuse_check(ctx, spec, m)


def late_deck(ctx, spec, m0, mtr, cloudy, trans0, depth0, floor):
    """the deck attached with the public add_contribution() to a model that is already built and has already run, and the
    model run again (no second build(), so the list is not re-sorted by `.order`): the deck is then evaluated AFTER the
    contributions that were there.  The layers above the top must still be untouched, the layers at or below it opaque.
    Where the absorbers alone push a whole row above tau = 10 the loop over the contributions stops before the deck (the
    licensed cut-off): opaque then means a transmittance below exp(-10) (the deck-first model value is 0)."""
    p0 = spec['extra']['clouds_pressure']
    try:
        m0.add_contribution(FM.make_contribution(spec['extra']))
        wn, depth, trans, p, contribs = T.observe(m0)
        order = [type(c).__name__ for c in m0.contribution_list]
    except Exception as e:
        ctx.violation('cloud-raises:late-attached:' + type(e).__name__, 'a cloud deck attached to a built model with '
                      'add_contribution() raised %r when the model was run again' % (e,), spec)
        return
    ctx.bucket('cloud:deck-attached-after-build:evaluated-' + ('first' if order[0] == 'SimpleCloudsContribution' else 'last'))
    case = dict(spec, late_attached=True)
    clear = ~cloudy
    ctx.disagreements_checked += 1
    for l in range(len(cloudy)):
        if cloudy[l]:
            ok = np.all(trans[l] <= E10 * (1 + 1e-9)) and np.all(mtr[l] == 0)
        else:
            ok = T.trans_close(trans[l], mtr[l]) or (np.all(trans[l] <= E10 * (1 + 1e-9)) and np.all(mtr[l] <= E10 * (1 + 1e-9)))
        if not ok:
            ctx.mismatch('exp(-tau) with a cloud deck attached after build() vs Haze.cloudyTrans', case,
                         dict(layer=l, impl=trans[l], model=mtr[l], order=order))
            break
    if np.any(trans[cloudy] > E10 * (1 + 1e-9)):
        ctx.violation('cloud-not-opaque:late-attached', 'a cloud deck attached to a built model (evaluated after the other '
                      'contributions): a layer at or below the cloud top is not opaque', case,
                      dict(p0=p0, trans=trans[cloudy][:3], order=order))
    if np.any(clear) and not C.close(trans[clear].ravel(), trans0[clear].ravel(), rel=1e-12):
        ctx.violation('cloud-touches-clear-layers:late-attached', 'a cloud deck attached to a built model (evaluated after '
                      'the other contributions) changed a layer above the cloud top', case,
                      dict(p0=p0, with_cloud=trans[clear][:3], without=trans0[clear][:3], order=order))
    # licensed: a cloudy row the absorbers saturated before the deck was reached keeps exp(-tau) < exp(-10) instead of 0
    band = E10 * float(np.sum((2 * (p['rp'] + p['z']) * p['dz'])[cloudy])) / p['rs'] ** 2
    if np.any(depth < floor * (1 - 1e-12) - band) or np.any(depth < depth0 * (1 - 1e-12)):
        ctx.violation('cloud-depth-below-floor:late-attached', 'a cloud deck attached to a built model: depth below the '
                      'documented integral with the cloudy layers opaque', case,
                      dict(depth=depth, floor=floor, without=depth0, order=order))


def ray_extinction(ctx, spec, kind, sig, trans, trans0, p):
    """the extinction the haze adds along every ray: -ln(T_with) + ln(T_without) of tangent layer l must be the declared
    cross-section times the column the ray crosses, sum_k sigma[l+k] * n[l+k] * chord_l[k], with the chords of the ray through
    the spherical shells of the model's hydrostatic altitude grid (both ray tracers).  The altitude grid is read from a twin
    model run with the default ray tracer (the grid is a property of the atmosphere, not of the ray tracer)."""
    new = bool(spec['new_path_method'])
    try:
        if new:
            twin = T.run_real(dict(with_contribs(spec, spec['extra']), new_path_method=False))
            g = twin[4]
        else:
            g = p
    except Exception as e:
        ctx.violation(kind + '-raises:twin:' + type(e).__name__, 'the same model with the default ray tracer raised %r' % (e,), spec)
        return
    rp, z, dz, zb, dens = g['rp'], g['z'], g['dz'], g['zb'], g['density']
    paths = T.chords_new(rp, zb, z, dz) if new else T.chords_old(rp, z, dz)
    n = len(z)
    ctx.bucket(kind + ':ray-extinction:' + ('new-path-method' if new else 'default-path-method'))
    with np.errstate(divide='ignore', invalid='ignore'):
        for l in range(n):
            exp_add = (sig[l:] * (paths[l] * dens[l:])[:, None]).sum(axis=0)
            live = (trans[l] > E10 * 1.001) & (trans0[l] > E10 * 1.001)          # rows the tau > 10 cut-off did not touch
            if not np.any(live):
                continue
            t0 = -np.log(trans0[l][live])
            got = -np.log(trans[l][live]) - t0
            want = exp_add[live]
            tol = 1e-8 * np.abs(want) + 1e-11 * (1 + t0 + np.abs(want))
            if np.any(np.abs(got - want) > tol):
                ctx.violation(kind + '-ray-extinction:' + ('new-path-method' if new else 'default-path-method'),
                              'the optical depth the haze adds to a ray is not its declared cross-section times the number '
                              'density times the chord of the ray through each layer', spec,
                              dict(layer=l, added=got, expected=want, new_path_method=new))
                return


# ----------------------------------------------------------------------------------------- hazes
def gen_haze(rng, k, kind):
    spec = base_spec(rng, k)
    lev, P = levels_of(spec)
    cls, bottom, top = bound_class(rng, lev, P, kind)
    spec['kind'] = kind
    spec['cls'] = cls
    if kind == 'flat':
        spec['extra'] = dict(type='flatmie', flat_mix_ratio=float(10 ** rng.uniform(-32, -18)), flat_bottomP=bottom,
                             flat_topP=top)
    else:
        spec['extra'] = dict(type='leemie', lee_mie_radius=float(10 ** rng.uniform(-2, 0.5)),
                             lee_mie_q=float(rng.uniform(0.1, 60)), lee_mie_mix_ratio=float(10 ** rng.uniform(-20, -6)),
                             lee_mie_bottomP=bottom, lee_mie_topP=top)
    spec['extra_first'] = bool(rng.random() < 0.5)
    cls2, bottom2, top2 = bound_class(rng, lev, P, kind)
    e2 = dict(spec['extra'])
    if kind == 'flat':
        e2.update(flat_bottomP=bottom2, flat_topP=top2, flat_mix_ratio=e2['flat_mix_ratio'] * float(rng.choice([1.0, 3.0])))
    else:
        e2.update(lee_mie_bottomP=bottom2, lee_mie_topP=top2, lee_mie_radius=e2['lee_mie_radius'] * float(rng.choice([1.0, 0.5])))
    spec['extra2'] = e2
    return spec


def reuse_check(ctx, spec, m):
    """the same model object after `model[name] = value` must give what a freshly built model gives"""
    e2 = spec.get('extra2')
    if e2 is None:
        return
    try:
        for name, v in e2.items():
            if name != 'type':
                m[name] = v
        wn, depth, trans, _ = m.model()
        cname = {'clouds': 'SimpleCloudsContribution', 'flatmie': 'FlatMieContribution', 'leemie': 'LeeMieContribution'}[e2['type']]
        sig = np.array(find(m, cname).sigma_xsec, float)
        m2, wn2, depth2, trans2, p2, c2 = T.run_real(with_contribs(spec, e2))
        sig2 = np.array(find(m2, cname).sigma_xsec, float)
    except Exception as e:
        if _invalid_params(ctx, e):
            return
        ctx.violation('stale-state:raises:' + type(e).__name__, 'reused model raised %r after parameter setters' % (e,), spec)
        return
    ctx.bucket('reuse-check:' + spec['kind'])
    if not (np.array_equal(sig, sig2) and np.array_equal(np.asarray(trans), trans2) and np.array_equal(np.asarray(depth), depth2)):
        ctx.violation('stale-state:' + spec['kind'], 'a model reused after model[name] = value differs from a freshly built one',
                      spec, dict(params=e2, reused=np.asarray(depth), fresh=depth2, sigma_reused=sig[:, 0], sigma_fresh=sig2[:, 0]))


def swapped(extra):
    e = dict(extra)
    if e['type'] == 'flatmie':
        e['flat_bottomP'], e['flat_topP'] = extra['flat_topP'], extra['flat_bottomP']
    return e


def eval_haze(ctx, spec):
    kind = spec['kind']
    ex = spec['extra']
    try:
        m, wn, depth, trans, p, contribs = run_real(with_contribs(spec, ex))
        hz = find(m, 'FlatMieContribution' if kind == 'flat' else 'LeeMieContribution')
        sig = np.array(hz.sigma_xsec, float)
        m0, wn0, depth0, trans0, p_0, contribs0 = T.run_real(with_contribs(spec, None))
    except Exception as e:
        ctx.violation(kind + '-raises:' + spec['cls'] + ':' + type(e).__name__,
                      'model with a haze raised %r' % (e,), spec)
        return
    if spec.get('route') == 'parfile':
        check_declared(ctx, m, spec)
    n, nwn = p['nlayers'], len(wn)
    P, lev = p['P'], p['Plev']
    sm = dict(kind=kind, cls=spec['cls'], extra=ex, nlayers=n, pmin=spec['pmin'], pmax=spec['pmax'])
    if sig.shape != (n, nwn) or not np.all(np.isfinite(sig)) or np.any(sig < 0):
        ctx.violation(kind + '-sigma-invalid:' + spec['cls'], 'haze sigma_xsec has a wrong shape, is negative or not finite',
                      spec, dict(shape=sig.shape, sigma=sig[:, 0]))
        return
    llev = np.log10(lev)                       # descending; layer l spans [llev[l+1], llev[l]]
    if kind == 'flat':
        bottom, top, mix = ex['flat_bottomP'], ex['flat_topP'], ex['flat_mix_ratio']
        d = ctx.model().call('c19.flat', C.L(lev), C.F(bottom), C.F(top), C.F(mix))
        msig = np.array(d.list())
        lb = llev.max() if bottom < 0 else math.log10(bottom) if bottom > 0 else -np.inf
        lt = llev.min() if top < 0 else math.log10(top) if top > 0 else -np.inf
        lo, hi = min(lb, lt), max(lb, lt)
        ov = np.maximum(np.minimum(hi, llev[:-1]) - np.maximum(lo, llev[1:]), 0.0)
        width = llev[:-1] - llev[1:]
        # the weights are normalised by the largest overlap, so an overlap at rounding level (a bound within an ulp
        # of the outermost level) decides between "nothing" and "full mix": whether log10 rounds up or down is not
        # modelled, such cases are only judged on the layers that are outside by a margin
        e12 = 1e-12 * (1 + abs(lo) + abs(hi))
        ov_wide = np.maximum(np.minimum(hi + e12, llev[:-1]) - np.maximum(lo - e12, llev[1:]), 0.0)
        degenerate = bool(ov.max() <= 1e-9 * width.max() and ov_wide.max() > 0)
        if degenerate:
            ctx.bucket('flat:only-overlap-is-at-rounding-level')
        else:
            ctx.check_close('FlatMie sigma_xsec vs Haze.flatSigma', sig[:, 0], msig, spec, rel=1e-9, abs_=1e-12 * abs(mix))
        if not np.all(sig == sig[:, :1]):
            ctx.violation('flat-not-grey', 'grey haze opacity depends on wavenumber', spec, dict(sigma=sig[:3]))
        s = sig[:, 0]
        eps = 1e-12 * (1 + abs(lo) + abs(hi))       # log10 of a bound that is within an ulp of a level: rounding
        outside = (llev[:-1] <= lo - eps) | (llev[1:] >= hi + eps)
        if np.any(s[outside] != 0):
            ctx.violation('flat-outside-nonzero:' + spec['cls'], 'extinction in a layer wholly outside the window', spec,
                          dict(sigma=s, lo=lo, hi=hi, levels=llev))
        sure = ov > 1e-9 * width
        if ov.max() > 1e-9 * width.max():
            expect = mix * ov / ov.max()
            bad = sure & ~np.isclose(s, expect, rtol=1e-6, atol=0)
            if np.any(bad) or np.any(s > mix * (1 + 1e-12)) or np.any(s[sure] <= 0):
                ctx.violation('flat-inside-magnitude:' + spec['cls'],
                              'overlapping layers must carry mix * overlap/max overlap (0 < w <= 1)', spec,
                              dict(sigma=s, expected=expect, lo=lo, hi=hi, levels=llev))
            if not C.close(float(s.max()), mix, rel=1e-12):
                ctx.violation('flat-max-not-mix:' + spec['cls'], 'the layer with the largest overlap must carry exactly mix',
                              spec, dict(max=float(s.max()), mix=mix))
        elif np.any(s != 0) and ov.max() == 0 and not degenerate:
            ctx.violation('flat-empty-window-nonzero:' + spec['cls'], 'no layer overlaps the window but extinction was added',
                          spec, dict(sigma=s, lo=lo, hi=hi, levels=llev))
        if bottom < 0 and top < 0 and not np.allclose(s, mix, rtol=1e-9, atol=0):
            ctx.violation('flat-unset-not-whole', 'both bounds unset must cover the whole atmosphere with mix', spec,
                          dict(sigma=s, mix=mix))
        if bottom > 0 and top > 0:
            try:
                m2 = FM.build_model(with_contribs(spec, swapped(ex)))
                m2.model()
                s2 = np.array(find(m2, 'FlatMieContribution').sigma_xsec, float)
                if not np.array_equal(s2, sig):
                    ctx.violation('flat-inverted-differs', 'swapping top and bottom changed the grey haze', spec,
                                  dict(sigma=s, swapped=s2[:, 0]))
            except Exception as e:
                ctx.violation('flat-raises-swapped:' + type(e).__name__, 'swapped bounds raised %r' % (e,), spec)
        affected = s > 0
    else:
        bottom, top = ex['lee_mie_bottomP'], ex['lee_mie_topP']
        a, q, mix = ex['lee_mie_radius'], ex['lee_mie_q'], ex['lee_mie_mix_ratio']
        d = ctx.model().call('c19.lee', C.L(P), C.F(bottom), C.F(top), C.F(np.pi), C.F(a), C.F(q), C.F(mix), C.L(wn))
        msig = np.array(d.list(lambda: d.list())).reshape(n, nwn)
        ctx.check_close('LeeMie sigma_xsec vs Haze.leeSigma', sig.ravel(), msig.ravel(), spec, rel=1e-9, abs_=1e-300)
        pb = P[0] if bottom < 0 else bottom
        pt = P[-1] if top < 0 else top
        x = 2 * np.pi * a * wn / 10000.0
        law = 5.0 / (q * x ** -4.0 + x ** 0.2) * np.pi * (a * 1e-6) ** 2
        inside = (P <= pb) & (P >= pt)
        wholly_out = (lev[1:] > pb) | (lev[:-1] < pt)          # the whole layer extent outside [pt, pb]
        if np.any(sig[wholly_out] != 0) or np.any(sig[~inside] != 0):
            ctx.violation('lee-outside-nonzero:' + spec['cls'], 'extinction in a layer outside the window', spec,
                          dict(sigma=sig[:, 0], top=pt, bottom=pb, P=P))
        if np.any(inside) and not C.close(sig[inside].ravel(), (law[None, :] * mix * np.ones((int(inside.sum()), 1))).ravel(),
                                          rel=1e-9):
            ctx.violation('lee-inside-law:' + spec['cls'], 'inside the window the opacity must be Qext*pi*a^2*mix', spec,
                          dict(sigma=sig[inside][:2], expected=law * mix))
        if bottom < 0 and top < 0 and not np.all(inside):
            ctx.violation('lee-unset-not-whole', 'both bounds unset must cover the whole atmosphere', spec, dict(P=P))
        if pt > pb:
            ctx.bucket('lee:inverted-window-gives-no-extinction')
        affected = inside
    # effect on the spectrum: a tangent layer whose whole slant path (layers l..n-1) is free of haze is untouched;
    # nothing becomes more transparent
    free = np.array([not np.any(affected[l:]) for l in range(n)])
    if np.any(free) and not C.close(trans[free].ravel(), trans0[free].ravel(), rel=1e-12):
        ctx.violation(kind + '-touches-layers-above:' + spec['cls'],
                      'a tangent layer whose path lies wholly above the haze changed', spec,
                      dict(with_haze=trans[free][:3], without=trans0[free][:3]))
    lic = np.all(trans <= E10 * (1 + 1e-9), axis=1)[:, None]      # licensed: the whole row is saturated (tau > 10)
    if np.any((trans > trans0 * (1 + 1e-9)) & ~lic):
        ctx.violation(kind + '-more-transparent:' + spec['cls'], 'adding a haze increased a transmittance', spec,
                      dict(with_haze=trans[:3], without=trans0[:3]))
    ray_extinction(ctx, spec, kind, sig, trans, trans0, p)
    part = bool(np.any(affected) and not np.all(affected))
    route = spec.get('route') or 'python'
    if spec.get('wn_dtype'):
        ctx.bucket(kind + ':wavenumber-grid-dtype:' + spec['wn_dtype'])
    ctx.case(key=(kind, spec['cls'], n, bool(spec['new_path_method']), route) if part else None,
             sample=dict(sm, sigma=sig[:4, 0], model=(msig[:4] if kind == 'flat' else msig[:4, 0]), route=route,
                         omit=spec.get('omit')),
             bucket=kind + (':' if route == 'python' else ':input-file:') + spec['cls'])
    ctx.bucket(kind + '-layers:' + ('none' if not affected.any() else 'all' if affected.all() else 'some'))
    reuse_check(ctx, spec, m)


# ----------------------------------------------------------------------------------------- several hazes / clouds at once
# A forward model that DECLARES SEVERAL hazes / clouds (grey + Lee haze, two grey hazes with other windows, haze + haze +
# cloud deck, in either order; built by add_contribution() or declared in an input file): every declared haze must add its
# extinction in its own window.  The sigma of every attached haze is compared with the Lean model's value for that haze
# (Haze.flatSigma / Haze.leeSigma) and the optical depth the hazes add to each ray with the SUM of the per-haze model values
# (x density x chord).  A declared, distinct contribution object that add_contribution() refuses is the property failing
# ("declared haze adds no extinction"), not a malformed input.
MIXES = [('flat', 'lee'), ('lee', 'flat'), ('flat', 'flat'), ('lee', 'lee'), ('flat', 'lee', 'clouds'),
         ('clouds', 'flat', 'flat'), ('lee', 'clouds', 'flat'), ('flat', 'lee', 'flat'), ('lee', 'lee', 'flat')]
FILE_MIXES = [('flat', 'lee'), ('lee', 'flat'), ('flat', 'lee', 'clouds'), ('clouds', 'lee', 'flat')]
CLASSNAME = {'clouds': 'SimpleCloudsContribution', 'flatmie': 'FlatMieContribution', 'leemie': 'LeeMieContribution'}


def gen_multi(rng, k, parfile=False):
    spec = base_spec(rng, k)
    lev, P = levels_of(spec)
    mix = (FILE_MIXES if parfile else MIXES)[k % len(FILE_MIXES if parfile else MIXES)]
    hazes, classes = [], []
    for t in mix:
        if t == 'clouds':
            hazes.append(dict(type='clouds', clouds_pressure=float(10 ** rng.uniform(math.log10(lev[-1]), math.log10(lev[0])))))
            classes.append('inside')
            continue
        cls, bottom, top = bound_class(rng, lev, P, t)
        classes.append(cls)
        if t == 'flat':
            hazes.append(dict(type='flatmie', flat_mix_ratio=float(10 ** rng.uniform(-32, -18)), flat_bottomP=bottom,
                              flat_topP=top))
        else:
            hazes.append(dict(type='leemie', lee_mie_radius=float(10 ** rng.uniform(-2, 0.5)),
                              lee_mie_q=float(rng.uniform(0.1, 60)), lee_mie_mix_ratio=float(10 ** rng.uniform(-20, -6)),
                              lee_mie_bottomP=bottom, lee_mie_topP=top))
    spec['kind'] = 'multi'
    spec['mix'] = list(mix)
    spec['classes'] = classes
    spec['hazes'] = hazes
    spec['extra'] = None
    spec['extra_first'] = bool(rng.random() < 0.5)
    if parfile:
        spec['route'] = 'parfile'
    return spec


def flat_rounding_level(lev, bottom, top):
    """the grey haze whose only overlap with the layers is at rounding level (see eval_haze): not modelled"""
    llev = np.log10(lev)
    lb = llev.max() if bottom < 0 else math.log10(bottom) if bottom > 0 else -np.inf
    lt = llev.min() if top < 0 else math.log10(top) if top > 0 else -np.inf
    lo, hi = min(lb, lt), max(lb, lt)
    ov = np.maximum(np.minimum(hi, llev[:-1]) - np.maximum(lo, llev[1:]), 0.0)
    width = llev[:-1] - llev[1:]
    e12 = 1e-12 * (1 + abs(lo) + abs(hi))
    ov_wide = np.maximum(np.minimum(hi + e12, llev[:-1]) - np.maximum(lo - e12, llev[1:]), 0.0)
    return bool(ov.max() <= 1e-9 * width.max() and ov_wide.max() > 0)


def eval_multi(ctx, spec):
    hz = [dict(h) for h in spec['hazes']]
    mixname = '+'.join(spec['mix'])
    route = spec.get('route') or 'python'
    declared = (hz + list(spec['others'])) if spec.get('extra_first') else (list(spec['others']) + hz)
    objs = {}
    if route == 'parfile':
        try:
            m = build_via_file(dict(spec, contributions=declared))
        except Exception as e:
            ctx.violation('declared-haze-adds-no-extinction:input-file:' + type(e).__name__,
                          'an input file declaring several hazes / clouds (%s) is not turned into a model: %r'
                          % (mixname, e), spec)
            return
        for i, h in enumerate(hz):
            got = [c for c in m.contribution_list if type(c).__name__ == CLASSNAME[h['type']]]
            if len(got) != 1:
                ctx.violation('declared-haze-adds-no-extinction:input-file:' + h['type'],
                              'a haze / cloud declared in the input file next to others is not in the model', spec,
                              dict(contributions=[type(c).__name__ for c in m.contribution_list]))
                return
            objs[i] = got[0]
    else:
        try:
            m = FM.build_model(dict(spec, contributions=[]), build=False)
        except Exception as e:
            ctx.violation('multi-raises:' + type(e).__name__, 'model raised %r' % (e,), spec)
            return
        for c in declared:
            o = FM.make_contribution(c)
            try:
                m.add_contribution(o)
            except Exception as e:
                ctx.violation('declared-haze-adds-no-extinction:' + c['type'],
                              'a distinct %s object declared next to %s is refused by add_contribution(): %r'
                              % (type(o).__name__, [type(x).__name__ for x in m.contribution_list], e), spec,
                              dict(refused=c, attached=[type(x).__name__ for x in m.contribution_list]))
                return
            for i, h in enumerate(hz):
                if c is h:
                    objs[i] = o
    try:
        if route != 'parfile':
            m.build()
        wn, depth, trans, p, contribs = T.observe(m)
        m0, wn0, depth0, trans0, p_0, contribs0 = T.run_real(with_contribs(spec, None))
    except Exception as e:
        ctx.violation('multi-raises:' + type(e).__name__, 'model declaring several hazes / clouds (%s) raised %r'
                      % (mixname, e), spec)
        return
    for i, h in enumerate(hz):
        if not any(c is objs[i] for c in m.contribution_list):
            ctx.violation('declared-haze-adds-no-extinction:' + h['type'], 'a declared haze / cloud is not in the built model',
                          spec, dict(contributions=[type(c).__name__ for c in m.contribution_list]))
            return
    n, nwn = p['nlayers'], len(wn)
    P, lev = p['P'], p['Plev']
    total = np.zeros((n, nwn))
    total_held = np.zeros((n, nwn))     # what the haze objects hold (each judged against the model just below)
    cloudy = np.zeros(n, bool)
    rounding = False
    active = 0
    for i, h in enumerate(hz):
        sm = dict(kind='multi', mix=spec['mix'], index=i, haze=h, nlayers=n, pmin=spec['pmin'], pmax=spec['pmax'], route=route)
        if h['type'] == 'clouds':
            cloudy |= P >= h['clouds_pressure']
            continue
        sig = np.array(objs[i].sigma_xsec, float)
        if sig.shape != (n, nwn) or not np.all(np.isfinite(sig)) or np.any(sig < 0):
            ctx.violation('multi-sigma-invalid:' + h['type'], 'sigma_xsec of a haze declared next to others has a wrong shape, '
                          'is negative or not finite', spec, dict(index=i, shape=sig.shape))
            return
        if h['type'] == 'flatmie':
            bottom, top, mix = h['flat_bottomP'], h['flat_topP'], h['flat_mix_ratio']
            d = ctx.model().call('c19.flat', C.L(lev), C.F(bottom), C.F(top), C.F(mix))
            ms = np.array(d.list())
            if flat_rounding_level(lev, bottom, top):
                ctx.bucket('multi:flat:only-overlap-is-at-rounding-level')
                rounding = True
                continue
            ctx.check_close('FlatMie sigma_xsec vs Haze.flatSigma (model declaring several hazes / clouds)',
                            sig.ravel(), np.repeat(ms, nwn), sm, rel=1e-9, abs_=1e-12 * abs(mix))
            msig = np.repeat(ms[:, None], nwn, axis=1)
        else:
            d = ctx.model().call('c19.lee', C.L(P), C.F(h['lee_mie_bottomP']), C.F(h['lee_mie_topP']), C.F(np.pi),
                                 C.F(h['lee_mie_radius']), C.F(h['lee_mie_q']), C.F(h['lee_mie_mix_ratio']), C.L(wn))
            msig = np.array(d.list(lambda: d.list())).reshape(n, nwn)
            ctx.check_close('LeeMie sigma_xsec vs Haze.leeSigma (model declaring several hazes / clouds)',
                            sig.ravel(), msig.ravel(), sm, rel=1e-9, abs_=1e-300)
        total = total + msig
        total_held = total_held + sig
        part = np.any(msig > 0, axis=1)
        active += int(part.any() and not part.all())
    if np.any(trans[cloudy] != 0.0):
        ctx.violation('cloud-not-opaque:multi', 'a cloud deck declared next to hazes: a layer at or below the cloud top is not '
                      'opaque', spec, dict(P=P, trans=trans[cloudy][:3]))
    if rounding:
        ctx.bucket('multi:ray-extinction-not-judged:rounding-level-window')
    else:
        # the optical depth all declared hazes add to each ray vs the SUM of the per-haze cross-sections — those the objects
        # hold, as in eval_haze (each was compared with its model value above; a window bound within rounding of a layer
        # level gives that layer a weight of ~1e-16 of the declared magnitude where the exact model says 0: times the
        # column density that is ~1e-9 in optical depth, a rounding effect the ray predicate must not see)
        ray_extinction(ctx, spec, 'multi', total_held, trans, trans0, p)
    ctx.case(key=('multi', mixname, n, bool(spec['new_path_method']), route) if active >= 2 else None,
             sample=dict(kind='multi', mix=spec['mix'], classes=spec['classes'], nlayers=n, route=route, sigma_sum=total[:4, 0]),
             bucket='multi:' + ('' if route == 'python' else 'input-file:') + mixname)
    ctx.bucket('multi:hazes-acting-on-some-layers:%d' % active)


# ----------------------------------------------------------------------------------------- driver
def eval_case(ctx, spec):
    if spec['kind'] == 'cloud':
        eval_cloud(ctx, spec)
    elif spec['kind'] == 'multi':
        eval_multi(ctx, spec)
    else:
        eval_haze(ctx, spec)


def malformed(ctx):
    rng = ctx.rng
    for k in range(ctx.n(6, 40)):
        kind = ['cloud', 'flat', 'lee'][k % 3]
        spec = gen_cloud(rng, k) if kind == 'cloud' else gen_haze(rng, k, kind)
        if kind == 'cloud':
            spec['extra']['clouds_pressure'] = float('nan') if k % 2 else -1.0
            tag = 'cloud:p0=' + ('nan' if k % 2 else '-1')
        elif kind == 'flat':
            spec['extra']['flat_mix_ratio'] = -abs(spec['extra']['flat_mix_ratio'])
            spec['extra']['flat_topP'] = 0.0
            tag = 'flat:mix<0,top=0'
        else:
            spec['extra']['lee_mie_radius'] = 0.0
            tag = 'lee:a=0'
        try:
            m, wn, depth, trans, p, contribs = T.run_real(with_contribs(spec, spec['extra']))
            ctx.malformed_outcome(tag + ':' + ('finite' if np.all(np.isfinite(depth)) else 'nonfinite'))
        except Exception as e:
            ctx.malformed_outcome(tag + ':' + type(e).__name__)


def run(ctx):
    FM.quiet()
    n = ctx.n(360, 18000)
    for k in range(n):
        which = k % 3
        if which == 0:
            spec = gen_cloud(ctx.rng, k // 3)
        else:
            spec = gen_haze(ctx.rng, k // 3, 'flat' if which == 1 else 'lee')
        eval_case(ctx, spec)
    # the same classes of clouds and hazes DECLARED IN AN INPUT FILE (ParameterParser -> factory), in one session: sections of
    # the same class with explicit, partly left-out and wholly left-out keywords follow one another
    for k in range(ctx.n(240, 4500)):
        which = k % 3
        if which == 0:
            spec = gen_cloud(ctx.rng, k // 3)
        else:
            spec = gen_haze(ctx.rng, k // 3, 'flat' if which == 1 else 'lee')
        eval_case(ctx, to_parfile(ctx.rng, spec))
    # forward models declaring several hazes / clouds at once (add_contribution() route, then the input-file route)
    for k in range(ctx.n(54, 1800)):
        eval_case(ctx, gen_multi(ctx.rng, k))
    for k in range(ctx.n(16, 400)):
        eval_case(ctx, gen_multi(ctx.rng, k, parfile=True))
    malformed(ctx)
    FM.reset_caches()


def replay(ctx, case):
    FM.quiet()
    case = case.get('case', case)        # a replays/*.json payload or a bare case
    eval_case(ctx, case)
    FM.reset_caches()
