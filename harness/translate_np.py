"""The `np` dialect of the source translator (spec key `dialect='np'`): a subclass of `translate.Fn` for the model-level code
of /repo that works on whole numpy arrays and calls procedures for their side effect.  Everything of translate.py applies;
in addition (every rule is derived from the AST, nothing is matched by function name; what is not covered raises
Untranslatable):

  * WHOLE-ARRAY EXPRESSIONS.  A variable / attribute / parameter of kind 'arr' (`Nat → α`) used without a subscript denotes
    the whole array; arithmetic, exp/log/..., calls of element-wise ('elem'/'s' parameter) translated functions and
    conditional expressions on it are numpy's element-wise operations and become `fun j__ => …`.  A scalar operand
    broadcasts (it is the same for every `j__`).  A local variable that holds an array on some path holds one on every
    path (`x = 0.0` followed by `if c: x = np.exp(-a)`): the scalar assignment is the constant array (numpy broadcasting
    gives the same element values); such a variable can then not be used where a scalar is required.
  * reductions over the whole-array axis (its length is the natural-number parameter named by `vec_len`):
      `a.min()`   → left fold `if a[r] < m then a[r] else m` from `a[0]` over r = 1..n-1   (the least element)
      `sum(e)`, `np.sum(e, axis=-1)`, `e.sum()` → left fold `acc + e[r]` from `(0 : α)` over r = 0..n-1
    (`np.sum` adds pair-wise, not left to right: same real number, different rounding — an ASSUMPTION of the users).
  * `np.zeros(shape=…)` / `np.zeros(…)`: a fresh array of zeros; its rank is the number of axes that are neither the
    literal 1 nor the length of a lifted axis (spec `lift_lens`: texts of those lengths); those axes are not represented
    (rank 0: one element; `x[0]` of an array allocated with a leading axis 1 is that element).
    `a[...] = e` / `a[:] = e` overwrite the whole array; `a op= e` on arrays.
  * subscripts made only of `:`/`None`/`...` (reshapes, e.g. `mu[:, None]`) on an element-wise ('elem') or scalar value are
    that value.  (On a whole array only `[...]` and `[:]` are accepted: a `None` would move the axis — except `a[:, None]`
    when the spec declares `newaxis_lifted=True`: the arrays of the function carry a lifted trailing axis, e.g. the
    wavenumber, which the new axis lines up with.)
  * `x = <array variable or 'arr' attribute>` binds another name to the same array.  numpy would alias the two; the
    translation has value semantics, therefore an in-place store into a name that takes part in such an alias is
    Untranslatable.
  * PROCEDURES.  spec key `result='tau'`: the function is called for its effect on the parameter `tau`; falling off its
    end (or a bare `return`) yields the final value of that parameter.  A call statement `f(…, buf, …)` of such a
    translated function re-binds the variable passed in that position: `let buf := f … buf …`.
  * OBJECT LISTS.  `objlists={'self.contribution_list': dict(n='ncontrib', methods={'contribute': dict(lean=…, params=[…],
    kinds={…}, inout='tau')})}`: `for c in self.contribution_list:` is a fold over `range(ncontrib)` (c = the position in
    the list); the call statement `c.contribute(…)` becomes `let buf := contribute c <args> `, where `contribute` is a
    FUNCTION PARAMETER of the generated definition (first argument: the position of the object): which code runs is
    decided by Python's method dispatch, outside the translated text.  Declared assumption: the call changes nothing but
    the `inout` argument and is a function of its arguments and the object.
  * `returns_index=i`: the function returns a tuple and the definition describes its i-th component.  `slice=True`:
    statements whose effect is dead with respect to that result (backward liveness analysis over the structured
    statements, loops to a fixpoint; a dropped statement may only call functions known to be pure, or be a procedure call
    whose mutated argument is dead) are dropped before translation.
  * 2-D RESULTS (the contribution function `tau` of `evaluate_emission`): `np.zeros(shape=(rows, n))` with `n` the length of
    the whole-array axis is a table `Nat → Nat → α`; `A[i] = e` / `A[i] op= e` replace / update row `i` element-wise (e a whole
    array, or a scalar that numpy broadcasts); `x[0]` of a whole array ALL of whose array values have shape `(1, n)`
    (`find_lead1`: allocated `np.zeros(shape=(1, …))`, or element-wise expressions of such arrays and scalars) is the array
    of its n elements; `if isinstance(x, float): A else: B` for a variable that is an array on some paths and a Python float
    on others is translated when both branches have the SAME translation (which branch runs depends on the dynamic type
    only); `returns='arr2'`.
  * `vec_externals={'self.f(x, y)': 'name'}`: the value of that call expression (whole text) is the array parameter
    `name`; attributes of kind 'bool' can be used as conditions.
"""
import ast
import re

from harness.translate import Fn, Untranslatable

PURE_FUNCS = re.compile(r'^((np|numpy|math)\.\w+|isinstance|type|len|pow|float|int|abs|max|min|sum|range|enumerate|zip)$')
PURE_METHODS = {'min', 'max', 'sum', 'ravel', 'copy', 'index'}


def reshape_only(idx):
    idxs = list(idx.elts) if isinstance(idx, ast.Tuple) else [idx]
    ok = True
    has_none = False
    for i in idxs:
        if isinstance(i, ast.Slice) and i.lower is None and i.upper is None and i.step is None:
            continue
        if isinstance(i, ast.Constant) and i.value is None:
            has_none = True
            continue
        if isinstance(i, ast.Constant) and i.value is Ellipsis:
            continue
        ok = False
    return ok, has_none


class FnNp(Fn):
    def __init__(self, spec, tree, src_lines, known):
        super().__init__(spec, tree, src_lines, known)
        self.vec_len = spec.get('vec_len')
        self.objlists = dict(spec.get('objlists', {}))
        self.result = spec.get('result')
        self.ret_index = spec.get('returns_index')
        self.vec_externals = dict(spec.get('vec_externals', {}))
        self.vidx = None
        self.objvars = {}
        self.dropped = set()
        self.vecvars = set()
        self.aliased = set()
        self.known_extra = dict(result=self.result, returns=spec.get('returns', 's'))
        self.objects = dict(spec.get('objects', {}))         # declared object variable -> dict(methods={...})
        self.opaque_defs = dict(spec.get('opaque_defs', {}))  # local name -> [allowed texts of the expression assigned to it]
        self.bool_exprs = dict(spec.get('bool_exprs', {}))   # condition text -> Bool parameter
        self.lift_lens = set(spec.get('lift_lens', ()))      # texts of the lengths of lifted axes (in np.zeros shapes)
        self.unit0 = set()                                   # scalars allocated with a leading axis of length 1
        self.lead1 = set()                                   # whole arrays every array value of which has shape (1, n)
        self.len_alias = {}                                  # local `n = X.shape[0]` -> the declared length name
        self.rows2 = set()                                   # 2-D arrays whose trailing axis is the whole-array axis

    # ------------------------------------------------------------------ classification
    def is_vec(self, node, isarr):
        """does this expression denote a whole array (along the whole-array axis)?"""
        if isinstance(node, ast.Constant):
            return False
        if isinstance(node, ast.Name):
            return bool(isarr(node.id))
        if isinstance(node, ast.Attribute):
            t = ast.unparse(node)
            return t in self.attrs and self.attrs[t][1] == 'arr'
        if isinstance(node, ast.UnaryOp):
            return self.is_vec(node.operand, isarr)
        if isinstance(node, ast.BinOp):
            return self.is_vec(node.left, isarr) or self.is_vec(node.right, isarr)
        if isinstance(node, ast.IfExp):
            return self.is_vec(node.body, isarr) or self.is_vec(node.orelse, isarr)
        if isinstance(node, ast.Subscript) and isinstance(node.value, ast.Name) and node.value.id in self.lead1 \
                and isinstance(node.slice, ast.Constant) and node.slice.value == 0 and type(node.slice.value) is int:
            return bool(isarr(node.value.id))
        if isinstance(node, ast.Subscript):
            ok, _ = reshape_only(node.slice)
            return ok and self.is_vec(node.value, isarr)
        if isinstance(node, ast.Call):
            if ast.unparse(node) in self.vec_externals:
                return True
            f = node.func
            if isinstance(f, ast.Attribute) and f.attr in ('min', 'max', 'sum') and not node.args \
                    and ast.unparse(f.value) not in ('np', 'numpy', 'math'):
                return False
            if isinstance(f, ast.Attribute) and f.attr in ('ravel', 'copy') and not node.args:
                return self.is_vec(f.value, isarr)
            short, full = self.call_name(node)
            if short == 'sum':
                return False
            if self.zeros_shape(node) is not None:
                return False                       # decided by zeros_rank
            if full in self.known:
                if self.known[full].get('returns') == 'arr':
                    return True
                kinds = self.known[full]['arg_kinds']
                return any(self.is_vec(a, isarr) for a, k in zip(node.args, kinds) if k in ('s', 'elem'))
            if short in ('exp', 'log', 'log10', 'sqrt', 'abs', 'fabs', 'maximum', 'minimum', 'max', 'min', 'pow') \
                    or full in self.externals:
                return any(self.is_vec(a, isarr) for a in node.args)      # element-wise functions
            return False
        return False

    def isarr_env(self, env):
        return lambda n: self.kind_of_name(n, env) == 'arr' or (n not in env and n in self.vecvars)

    def zeros_shape(self, node):
        """np.zeros(shape=(a, b)) / np.zeros((a, b)) / np.zeros(n) -> list of axis expressions, else None"""
        if not (isinstance(node, ast.Call) and ast.unparse(node.func) in ('np.zeros', 'numpy.zeros')):
            return None
        shape = None
        if len(node.args) == 1 and not node.keywords:
            shape = node.args[0]
        elif not node.args and len(node.keywords) == 1 and node.keywords[0].arg == 'shape':
            shape = node.keywords[0].value
        if shape is None:
            return None
        return list(shape.elts) if isinstance(shape, ast.Tuple) else [shape]

    def zeros_rank(self, name, shape):
        """number of represented axes: not of literal length 1 and not a lifted axis (`lift_lens`)"""
        return len([a for a in shape if not (isinstance(a, ast.Constant) and a.value == 1)
                    and ast.unparse(a) not in self.lift_lens])

    def simple_stmts(self, stmts):
        for s in stmts:
            if isinstance(s, (ast.For, ast.While)):
                yield from self.simple_stmts(s.body)
                yield from self.simple_stmts(s.orelse)
            elif isinstance(s, ast.If):
                yield from self.simple_stmts(s.body)
                yield from self.simple_stmts(s.orelse)
            else:
                yield s

    def find_vecvars(self):
        """names that hold an array on some path (fixpoint over all assignments of the function)"""
        vec = set(p for p, k in self.kinds.items() if k == 'arr')
        changed = True
        while changed:
            changed = False
            for s in self.simple_stmts(self.node.body):
                if id(s) in self.dropped:
                    continue
                tgt, val = None, None
                if isinstance(s, ast.Assign) and len(s.targets) == 1 and isinstance(s.targets[0], ast.Name):
                    tgt, val = s.targets[0].id, s.value
                elif isinstance(s, ast.AugAssign) and isinstance(s.target, ast.Name):
                    tgt, val = s.target.id, s.value
                if tgt is None or tgt in vec:
                    continue
                shape = self.zeros_shape(val)
                if shape is not None:
                    isv = self.zeros_rank(tgt, shape) == 1
                else:
                    isv = self.is_vec(val, lambda n: n in vec)
                if isv:
                    vec.add(tgt)
                    changed = True
        return vec

    def lead1_value(self, val, lead, vec):
        """is every ARRAY this expression can evaluate to of shape (1, n)?  (a scalar / None is neutral: True)"""
        shape = self.zeros_shape(val)
        if shape is not None:
            return len(shape) == 2 and isinstance(shape[0], ast.Constant) and shape[0].value == 1
        isarr = lambda n: n in vec
        if not self.is_vec(val, isarr):
            return True
        if isinstance(val, ast.Name):
            return val.id in lead
        if isinstance(val, ast.UnaryOp):
            return self.lead1_value(val.operand, lead, vec)
        if isinstance(val, ast.BinOp):
            # numpy broadcasting of (1, n) with a scalar, a (1, n) or an element of a lifted axis: (1, n)
            return all(self.lead1_value(x, lead, vec) for x in (val.left, val.right))
        if isinstance(val, ast.Call):
            short, full = self.call_name(val)
            if short in ('exp', 'log', 'log10', 'sqrt', 'abs', 'fabs') and len(val.args) == 1 and not val.keywords \
                    and full not in self.known and full not in self.externals:
                return self.lead1_value(val.args[0], lead, vec)
        return False

    def find_lead1(self):
        """names of whole arrays whose every array value has shape (1, n) (greatest fixpoint over the plain assignments;
        stores `x[...] = e`, `x op= e` and procedure calls act in place and keep the shape)"""
        vec = self.vecvars
        assigns = {}
        for s in self.simple_stmts(self.node.body):
            if id(s) in self.dropped:
                continue
            if isinstance(s, ast.Assign) and len(s.targets) == 1 and isinstance(s.targets[0], ast.Name) \
                    and s.targets[0].id in vec:
                assigns.setdefault(s.targets[0].id, []).append(s.value)
        lead = set(assigns)
        changed = True
        while changed:
            changed = False
            for n in sorted(lead):
                if not all(self.lead1_value(v, lead, vec) for v in assigns[n]) \
                        or not any(self.is_vec(v, lambda m: m in vec) or self.zeros_shape(v) is not None for v in assigns[n]):
                    lead.discard(n)
                    changed = True
        return lead - set(p for p, k in self.kinds.items() if k == 'arr')

    # ------------------------------------------------------------------ slicing
    def proc_call(self, s):
        """a call statement that mutates one argument: returns (kind, info) or None"""
        if not (isinstance(s, ast.Expr) and isinstance(s.value, ast.Call)):
            return None
        c = s.value
        if isinstance(c.func, ast.Attribute) and isinstance(c.func.value, ast.Name):
            if c.func.value.id in self.objects:
                if c.func.attr in self.objects[c.func.value.id].get('methods', {}):
                    return ('method', c.func.attr)
                return None
            for lst, d in self.objlists.items():
                if c.func.attr in d.get('methods', {}):
                    return ('method', c.func.attr)
        full = ast.unparse(c.func)
        if full in self.known and self.known[full].get('result'):
            return ('known', full)
        return None

    def proc_args(self, c, names):
        """argument expressions of call `c` by parameter name"""
        out = {}
        if len(c.args) > len(names):
            self.fail(c, 'too many arguments')
        for a, n in zip(c.args, names):
            out[n] = a
        for k in c.keywords:
            if k.arg is None or k.arg not in names or k.arg in out:
                self.fail(c, 'unexpected keyword argument')
            out[k.arg] = k.value
        return out

    def proc_target(self, s):
        kind, key = self.proc_call(s)
        c = s.value
        if kind == 'method':
            m = self.method_spec(c, key)
            a = self.proc_args(c, m['params']).get(m['inout'])
        else:
            tgt = self.known[key]
            a = self.proc_args(c, tgt['arg_names']).get(tgt['result'])
        if not isinstance(a, ast.Name):
            self.fail(s, 'the mutated argument of a procedure call must be a plain variable')
        return a.id

    def method_spec(self, c, key):
        obj = c.func.value.id
        if obj in self.objects:
            return self.objects[obj]['methods'][key]
        for lst, d in self.objlists.items():
            if key in d.get('methods', {}):
                return d['methods'][key]
        self.fail(c, 'undeclared method')

    def is_opaque_def(self, s):
        """`name = <expr>` for a declared opaque local whose expression text is one of the declared texts"""
        if isinstance(s, ast.Assign) and len(s.targets) == 1 and isinstance(s.targets[0], ast.Name) \
                and s.targets[0].id in self.opaque_defs:
            if ast.unparse(s.value) in self.opaque_defs[s.targets[0].id]:
                return True
            self.fail(s, 'the definition of the declared object %s changed' % s.targets[0].id)
        return False

    def targets(self, s):
        """names assigned / mutated by a simple statement (None: not an assignment-like statement)"""
        if isinstance(s, ast.Assign):
            out = []
            for t in s.targets:
                for e in (t.elts if isinstance(t, ast.Tuple) else [t]):
                    if isinstance(e, ast.Name):
                        out.append(e.id)
                    elif isinstance(e, ast.Subscript) and isinstance(e.value, ast.Name):
                        out.append(e.value.id)
                    elif isinstance(e, ast.Attribute) and ast.unparse(e).startswith('self.'):
                        out.append(ast.unparse(e))           # an attribute of the object: tracked by its text
                    else:
                        return None
            return out
        if isinstance(s, ast.AugAssign):
            t = s.target
            if isinstance(t, ast.Name):
                return [t.id]
            if isinstance(t, ast.Attribute) and ast.unparse(t).startswith('self.'):
                return [ast.unparse(t)]
            if isinstance(t, ast.Subscript) and isinstance(t.value, ast.Name):
                return [t.value.id]
            return None
        if self.proc_call(s):
            return [self.proc_target(s)]
        return None

    def pure(self, s):
        """no effect other than on the statement's own targets: every call is a known pure function, except that a
        procedure-call statement (effect on its mutated argument only: proved for translated procedures, the declared
        assumption for methods of object lists) may itself be the statement"""
        own = s.value if self.proc_call(s) else None
        for n in ast.walk(s):
            if n is own:
                continue
            if isinstance(n, ast.Call):
                f = n.func
                t = ast.unparse(f)
                if PURE_FUNCS.match(t):
                    continue
                if isinstance(f, ast.Attribute) and f.attr in PURE_METHODS:
                    continue
                if t in self.known and not self.known[t].get('result'):
                    continue
                if t in self.externals:
                    continue
                return False
            if isinstance(n, (ast.Yield, ast.YieldFrom, ast.Await, ast.NamedExpr, ast.Lambda)):
                return False
        return True

    def result_nodes(self):
        out = []
        for n in ast.walk(self.node):
            if isinstance(n, ast.Return) and n.value is not None:
                v = n.value
                if self.ret_index is not None and isinstance(v, ast.Tuple):
                    if self.ret_index >= len(v.elts):
                        self.fail(n, 'returned tuple is shorter than the declared component index')
                    v = v.elts[self.ret_index]
                out.append(v)
        return out

    def compute_slice(self):
        """dead-statement elimination by backward liveness with respect to the declared result"""
        opaque = set(self.tuples) | set(self.nat_externals) | set(self.vec_externals)

        def names(node):
            """variables and `self.x` attributes read or written in `node`; an expression whose value was declared to be
            a parameter (tuples / nat_externals / vec_externals) is opaque"""
            out = set()
            todo = [node]
            while todo:
                n = todo.pop()
                if isinstance(n, ast.expr) and ast.unparse(n) in opaque:
                    continue
                if isinstance(n, ast.Name):
                    out.add(n.id)
                elif isinstance(n, ast.Attribute) and ast.unparse(n).startswith('self.'):
                    out.add(ast.unparse(n))
                todo.extend(ast.iter_child_nodes(n))
            return out

        def component(v):
            if self.ret_index is not None and isinstance(v, ast.Tuple):
                return v.elts[self.ret_index]
            return v

        def inert(s):
            return (isinstance(s, ast.Expr) and isinstance(s.value, ast.Constant)) or isinstance(s, ast.Pass) \
                or isinstance(s, (ast.Import, ast.ImportFrom)) \
                or (isinstance(s, ast.Expr) and isinstance(s.value, ast.Call)
                    and re.search(self.ignore_calls, ast.unparse(s.value)) is not None)

        def transfer(stmts, live, mark):
            """backward liveness over a statement list: returns (live before the list, every statement dead or inert)"""
            alldead = True
            for s in reversed(stmts):
                live, d = xfer(s, live, mark)
                alldead = alldead and d
            return live, alldead

        def xfer(s, live, mark):
            if inert(s):
                return live, True
            if self.is_opaque_def(s):
                if mark:
                    dropped.add(id(s))
                return live, True
            if isinstance(s, ast.Return):
                out = set(self.state) | ({self.result} if self.result else set())
                if s.value is not None:
                    out |= names(component(s.value))
                return out, False
            if isinstance(s, ast.Raise):
                return set(), False
            if isinstance(s, ast.If):
                lb, db = transfer(s.body, live, mark)
                lo, do = transfer(s.orelse, live, mark)
                if db and do and self.pure(s.test):
                    if mark:
                        dropped.add(id(s))
                    return live, True
                return lb | lo | names(s.test), False
            if isinstance(s, ast.For):
                tgt = names(s.target)
                head = set(live) | names(s.iter)
                while True:
                    lb, db = transfer(s.body, head, False)
                    new = head | (lb - tgt)
                    if new == head:
                        break
                    head = new
                lb, db = transfer(s.body, head, mark)
                if s.orelse:
                    return head | names(s), False
                if db and self.pure(s.iter):
                    if mark:
                        dropped.add(id(s))
                    return live, True
                return head, False
            tg = self.targets(s)
            if tg:
                if not (set(tg) & live) and self.pure(s):
                    if mark:
                        dropped.add(id(s))
                    return live, True
                plain = isinstance(s, ast.Assign) and all(
                    isinstance(e, (ast.Name, ast.Attribute))
                    for t in s.targets for e in (t.elts if isinstance(t, ast.Tuple) else [t]))
                if plain:
                    return (live - set(tg)) | names(s.value), False
                return live | names(s), False
            return live | names(s), False

        dropped = set()
        end = set(self.state) | ({self.result} if self.result else set())
        transfer(self.node.body, end, True)
        return dropped

    # ------------------------------------------------------------------ expressions
    def vexpr(self, node, env, idx='j__'):
        old = self.vidx
        self.vidx = idx
        try:
            return self.expr(node, env)
        finally:
            self.vidx = old

    def need_len(self, node):
        if not self.vec_len:
            self.fail(node, 'reduction over an array whose length is not declared (vec_len)')
        if self.vec_len not in self.lens.values() and self.kinds.get(self.vec_len) != 'nat':
            self.add_param(self.var(self.vec_len), 'Nat')
        return self.var(self.vec_len)

    def reduction(self, node, env):
        """a.min() / sum(e) / np.sum(e, axis=-1) / e.sum(): text, or None when `node` is not a reduction"""
        if not isinstance(node, ast.Call):
            return None
        f = node.func
        isarr = self.isarr_env(env)
        what, arg = None, None
        if isinstance(f, ast.Attribute) and f.attr in ('min', 'sum') and not node.args and not node.keywords \
                and ast.unparse(f.value) not in ('np', 'numpy', 'math'):
            what, arg = f.attr, f.value
        elif ast.unparse(f) == 'sum' and len(node.args) == 1 and not node.keywords:
            what, arg = 'sum', node.args[0]
        elif ast.unparse(f) in ('np.sum', 'numpy.sum') and len(node.args) == 1 \
                and (not node.keywords or (len(node.keywords) == 1 and node.keywords[0].arg == 'axis'
                                           and ast.unparse(node.keywords[0].value) in ('-1', '0'))):
            what, arg = 'sum', node.args[0]
        if what is None:
            return None
        if not self.is_vec(arg, isarr):
            self.fail(node, 'reduction of something that is not a whole array')
        n = self.need_len(node)
        body = self.vexpr(arg, env, 'r__')
        if what == 'min':
            return ('(let v__ : Nat → α := fun r__ => %s; (List.range\' 1 (%s - 1)).foldl (fun (m__ : α) (r__ : Nat) => '
                    'if (v__ r__) < m__ then (v__ r__) else m__) (v__ 0))' % (body, n))
        self.literals.add(0)
        return '((List.range\' 0 %s).foldl (fun (a__ : α) (r__ : Nat) => (a__ + %s)) (0 : α))' % (n, body)

    def expr(self, node, env):
        if self.vidx is not None:
            if isinstance(node, ast.Name) and self.kind_of_name(node.id, env) == 'arr':
                return '(%s %s)' % (self.var(node.id), self.vidx)
            if isinstance(node, ast.Attribute):
                t = ast.unparse(node)
                if t in self.attrs and self.attrs[t][1] == 'arr':
                    nm, k = self.attrs[t]
                    if t not in env:
                        self.add_param(nm, self.lean_ty(k))
                    return '(%s %s)' % (nm, self.vidx)
            if isinstance(node, ast.Call) and ast.unparse(node) in self.vec_externals:
                nm = self.vec_externals[ast.unparse(node)]
                self.add_param(nm, 'Nat → α')
                return '(%s %s)' % (nm, self.vidx)
            if isinstance(node, ast.Call) and ast.unparse(node.func) in self.known \
                    and self.known[ast.unparse(node.func)].get('returns') == 'arr':
                idx, self.vidx = self.vidx, None
                try:
                    return '(%s %s)' % (super().expr(node, env), idx)
                finally:
                    self.vidx = idx
        r = self.reduction(node, env)
        if r is not None:
            return r
        if isinstance(node, ast.Subscript) and isinstance(node.value, ast.Name) and node.value.id in self.unit0 \
                and env.get(node.value.id) == 's' and isinstance(node.slice, ast.Constant) and node.slice.value == 0:
            return self.var(node.value.id)             # row 0 of an array allocated with a leading axis of length 1
        if self.vidx is not None and isinstance(node, ast.Subscript) and isinstance(node.value, ast.Name) \
                and node.value.id in self.lead1 and self.kind_of_name(node.value.id, env) == 'arr' \
                and isinstance(node.slice, ast.Constant) and node.slice.value == 0 and type(node.slice.value) is int:
            return '(%s %s)' % (self.var(node.value.id), self.vidx)    # row 0 of an array of shape (1, n): its n elements
        if isinstance(node, ast.Subscript):
            ok, has_none = reshape_only(node.slice)
            if ok:
                if self.is_vec(node.value, self.isarr_env(env)) and has_none:
                    # `a[:, None]`: a trailing new axis.  With `newaxis_lifted` the spec declares that the trailing axis
                    # of the arrays of this function is a lifted (point-wise) axis, which the new axis lines up with
                    idxs = list(node.slice.elts) if isinstance(node.slice, ast.Tuple) else [node.slice]
                    trailing = len(idxs) == 2 and isinstance(idxs[0], ast.Slice) and isinstance(idxs[1], ast.Constant)
                    if not (self.spec.get('newaxis_lifted') and trailing):
                        self.fail(node, 'a new axis on a whole array')
                return self.expr(node.value, env)
        return super().expr(node, env)

    def shape0(self, node):
        """`X.shape[0]` for an array X (variable or attribute text) with a declared length -> that length's name"""
        if isinstance(node, ast.Subscript):
            m = re.fullmatch(r'([\w.]+)\.shape\[0\]', ast.unparse(node))
            if m and m.group(1) in self.lens:
                return self.var(self.lens[m.group(1)])
        return None

    def is_nat(self, node, env):
        return self.shape0(node) is not None or super().is_nat(node, env)

    def nat(self, node, env):
        r = self.shape0(node)
        return r if r is not None else super().nat(node, env)

    def cond(self, node, env):
        if ast.unparse(node) in self.bool_exprs:
            self.add_param(self.bool_exprs[ast.unparse(node)], 'Bool')
            return self.bool_exprs[ast.unparse(node)]
        if isinstance(node, ast.Attribute):
            t = ast.unparse(node)
            if t in self.attrs and self.attrs[t][1] == 'bool':
                self.add_param(self.attrs[t][0], 'Bool')
                return self.attrs[t][0]
        return super().cond(node, env)

    # ------------------------------------------------------------------ statements
    def assigned(self, stmts, env):
        out = []
        for s in stmts:
            if id(s) in self.dropped:
                continue
            if self.proc_call(s):
                new = [self.proc_target(s)]
            else:
                new = Fn.assigned(self, [s], env) if not isinstance(s, (ast.For, ast.If)) else None
                if new is None:
                    new = self.assigned(s.body, env) + self.assigned(s.orelse, env)
            for n in new:
                if n not in out:
                    out.append(n)
        return out

    def inplace(self, node, name):
        if name in self.aliased:
            self.fail(node, 'in-place store into an array that is bound to two names (numpy would alias them)')

    def vec_let(self, name, value, env, ind, pre=None):
        """let name : Nat → α := fun j__ => [pre op] value"""
        body = self.vexpr(value, env)
        if pre:
            body = '(%s %s %s)' % (pre[0], pre[1], body)
        env[name] = 'arr'
        return '%slet %s : Nat → α := fun j__ => %s\n' % (ind, self.var(name), body)

    def call_stmt(self, s, env, ind):
        kind, key = self.proc_call(s)
        c = s.value
        if kind == 'method':
            obj = c.func.value.id
            if obj in self.objects:
                m = self.objects[obj]['methods'][key]
                head = []
            else:
                lst = self.objvars.get(obj)
                if lst is None or key not in self.objlists[lst].get('methods', {}):
                    self.fail(s, 'method call on something that is not an element of a declared object list')
                m = self.objlists[lst]['methods'][key]
                head = [self.var(obj)]
            names, kinds, res, lean = m['params'], m['kinds'], m['inout'], m['lean']
            extra = []
        else:
            tgt = self.known[key]
            names, res, lean = tgt['arg_names'], tgt['result'], tgt['lean']
            kinds = dict(zip(names, tgt['arg_kinds']))
            head = []
            extra = tgt['extra_params']
        amap = self.proc_args(c, names)
        args = list(head)
        tys = ['Nat'] if head else []
        for n in names:
            k = kinds[n]
            if k == 'skip':
                continue
            if n not in amap:
                self.fail(s, 'argument %s of the procedure is not passed' % n)
            a = amap[n]
            if k == 'nat':
                idims = self.known[key]['index_dims'].get(n) if kind == 'known' else None
                args.append(self.index(a, env, idims))
            elif k in ('arr', 'arr2'):
                if not (isinstance(a, ast.Name) and env.get(a.id) == k):
                    if isinstance(a, ast.Attribute) and ast.unparse(a) in self.attrs and self.attrs[ast.unparse(a)][1] == k:
                        nm = self.attrs[ast.unparse(a)][0]
                        self.add_param(nm, self.lean_ty(k))
                        args.append(nm)
                        tys.append('(%s)' % self.lean_ty(k))
                        continue
                    if k == 'arr' and self.is_vec(a, self.isarr_env(env)):
                        args.append('(fun j__ => %s)' % self.vexpr(a, env))      # a whole-array expression
                        tys.append('(%s)' % self.lean_ty(k))
                        continue
                    self.fail(a, 'array argument of a procedure must be an array variable of kind %s' % k)
                args.append(self.var(a.id))
            else:
                args.append(self.expr(a, env))
            tys.append('(%s)' % self.lean_ty(k) if k in ('arr', 'arr2') else self.lean_ty(k))
        for nm, ty in extra:
            self.add_param(nm, ty)
            args.append(nm)
        rk = kinds[res]
        tname = amap[res].id
        if env.get(tname) != rk and not (rk in ('s', 'elem') and env.get(tname) in ('s', 'elem')):
            self.fail(s, 'the mutated argument does not have the declared kind')
        if rk in ('arr', 'arr2'):
            self.inplace(s, tname)
        if kind == 'method':
            rt = '(%s)' % self.lean_ty(rk) if rk in ('arr', 'arr2') else self.lean_ty(rk)
            self.add_param(lean, ' → '.join(tys + [rt]))
        return '%slet %s := (%s %s)\n' % (ind, self.var(tname), lean, ' '.join(args))

    def np_stmt(self, s, env, ind):
        """text of a statement of this dialect (env updated in place), or None"""
        isarr = self.isarr_env(env)
        if self.proc_call(s):
            return self.call_stmt(s, env, ind)
        if isinstance(s, ast.Assign) and len(s.targets) == 1:
            t, v = s.targets[0], s.value
            if isinstance(t, ast.Name):
                m = re.fullmatch(r'(\w+)\.shape\[0\]', ast.unparse(v))
                if m and m.group(1) in self.lens:
                    env[t.id] = 'nat'
                    self.len_alias[t.id] = self.lens[m.group(1)]
                    return '%slet %s := %s\n' % (ind, self.var(t.id), self.var(self.lens[m.group(1)]))
                shape = self.zeros_shape(v)
                if shape is not None:
                    rank = self.zeros_rank(t.id, shape)
                    self.literals.add(0)
                    if rank == 0:
                        # every axis is lifted or of length 1: one element
                        env[t.id] = 's'
                        if isinstance(shape[0], ast.Constant) and shape[0].value == 1:
                            self.unit0.add(t.id)
                        return '%slet %s := (0 : α)\n' % (ind, self.var(t.id))
                    if rank == 1:
                        env[t.id] = 'arr'
                        return '%slet %s : Nat → α := fun _ => (0 : α)\n' % (ind, self.var(t.id))
                    if rank == 2:
                        last = shape[-1]
                        if len(shape) == 2 and self.vec_len and isinstance(last, ast.Name) \
                                and (self.len_alias.get(last.id) == self.vec_len or last.id == self.vec_len):
                            self.rows2.add(t.id)             # (rows, n): the trailing axis is the whole-array axis
                        env[t.id] = 'arr2'
                        return '%slet %s : Nat → Nat → α := fun _ _ => (0 : α)\n' % (ind, self.var(t.id))
                    self.fail(s, 'np.zeros of unsupported rank')
                # another name for an existing array
                if (isinstance(v, ast.Name) and env.get(v.id) in ('arr', 'arr2')) or \
                        (isinstance(v, ast.Attribute) and ast.unparse(v) in self.attrs
                         and self.attrs[ast.unparse(v)][1] in ('arr', 'arr2')):
                    if isinstance(v, ast.Name):
                        k, src = env[v.id], self.var(v.id)
                        self.aliased |= {v.id, t.id}
                    else:
                        src, k = self.attrs[ast.unparse(v)]
                        self.add_param(src, self.lean_ty(k))
                        self.aliased.add(t.id)
                    env[t.id] = k
                    return '%slet %s := %s\n' % (ind, self.var(t.id), src)
                if isinstance(v, ast.Constant) and v.value is None and t.id in self.vecvars:
                    # `x = None` before the array is computed: any numerical use of None raises in Python; totalised
                    # as the zero array
                    self.literals.add(0)
                    env[t.id] = 'arr'
                    return '%slet %s : Nat → α := fun _ => (0 : α)\n' % (ind, self.var(t.id))
                if t.id in self.vecvars or self.is_vec(v, isarr):
                    if env.get(t.id) not in (None, 'arr', 's'):
                        self.fail(s, 'array assigned to a variable of another kind')
                    return self.vec_let(t.id, v, env, ind)
            if isinstance(t, ast.Subscript) and isinstance(t.value, ast.Name) and env.get(t.value.id) == 'arr':
                ok, has_none = reshape_only(t.slice)
                if ok and not has_none:
                    self.inplace(s, t.value.id)
                    return self.vec_let(t.value.id, v, env, ind)
        # whole-element stores into a variable all of whose axes are lifted or of length 1
        tg = s.targets[0] if isinstance(s, ast.Assign) and len(s.targets) == 1 else getattr(s, 'target', None)
        if isinstance(s, (ast.Assign, ast.AugAssign)) and isinstance(tg, ast.Subscript) \
                and isinstance(tg.value, ast.Name) and env.get(tg.value.id) == 's':
            ok, has_none = reshape_only(tg.slice)
            idxs = list(tg.slice.elts) if isinstance(tg.slice, ast.Tuple) else [tg.slice]
            lifted = all(isinstance(i, ast.Name) and i.id in self.lift for i in idxs)
            if (ok and not has_none) or lifted:
                nm = self.var(tg.value.id)
                e = self.expr(s.value, env)
                if isinstance(s, ast.AugAssign):
                    ops = {ast.Add: '+', ast.Sub: '-', ast.Mult: '*', ast.Div: '/'}
                    if type(s.op) not in ops:
                        self.fail(s, 'unsupported augmented assignment')
                    e = '(%s %s %s)' % (nm, ops[type(s.op)], e)
                return '%slet %s := %s\n' % (ind, nm, e)
        # `A[i] = e` / `A[i] op= e`: row i of a 2-D array whose trailing axis is the whole-array axis; e a whole array
        # (element-wise) or a scalar (broadcast)
        if isinstance(s, (ast.Assign, ast.AugAssign)) and isinstance(tg, ast.Subscript) and isinstance(tg.value, ast.Name) \
                and env.get(tg.value.id) == 'arr2' and tg.value.id in self.rows2 and not isinstance(tg.slice, (ast.Tuple, ast.Slice)) \
                and self.is_nat(tg.slice, env):
            nm = self.var(tg.value.id)
            row = self.nat(tg.slice, env)
            self.inplace(s, tg.value.id)
            e = self.vexpr(s.value, env)
            if isinstance(s, ast.AugAssign):
                ops = {ast.Add: '+', ast.Sub: '-', ast.Mult: '*', ast.Div: '/'}
                if type(s.op) not in ops:
                    self.fail(s, 'unsupported augmented assignment')
                e = '((%s i__ j__) %s %s)' % (nm, ops[type(s.op)], e)
            return '%slet %s : Nat → Nat → α := fun i__ j__ => if i__ = %s then %s else %s i__ j__\n' % (ind, nm, row, e, nm)
        # `if isinstance(x, float): A else: B` for a variable that holds an array on some paths and a Python float on the
        # others (a float is read as the constant array: numpy broadcasting gives the same elements).  Which branch runs
        # depends on the dynamic type only; the statement is translated when BOTH branches have the same translation
        if isinstance(s, ast.If) and isinstance(s.test, ast.Call) and ast.unparse(s.test.func) == 'isinstance' \
                and len(s.test.args) == 2 and isinstance(s.test.args[0], ast.Name) and ast.unparse(s.test.args[1]) == 'float' \
                and s.test.args[0].id in self.vecvars and s.orelse and not self.ends_in_return(s.body) \
                and not self.ends_in_return(s.orelse):
            e1, e2 = dict(env), dict(env)
            t1 = self.block(list(s.body), e1, ind, None, inline=True)
            t2 = self.block(list(s.orelse), e2, ind, None, inline=True)
            if t1 != t2 or e1 != e2:
                self.fail(s, 'the branches of a test on the dynamic type differ')
            env.update(e1)
            return t1
        if isinstance(s, ast.If) and not self.ends_in_return(s.body):
            return self.if_stmt(s, env, ind)
        if isinstance(s, ast.AugAssign) and isinstance(s.target, ast.Name) and env.get(s.target.id) == 'arr':
            ops = {ast.Add: '+', ast.Sub: '-', ast.Mult: '*', ast.Div: '/'}
            if type(s.op) not in ops:
                self.fail(s, 'unsupported augmented assignment')
            self.inplace(s, s.target.id)
            return self.vec_let(s.target.id, s.value, env, ind,
                                pre=('(%s j__)' % self.var(s.target.id), ops[type(s.op)]))
        return None

    def only_read_inside(self, s, name):
        """is every read of `name` in the function inside statement `s`?"""
        inside = {id(n) for n in ast.walk(s)}
        for n in ast.walk(self.node):
            if isinstance(n, ast.Name) and n.id == name and isinstance(n.ctx, ast.Load) and id(n) not in inside:
                return False
        return True

    def if_stmt(self, s, env, ind):
        """a conditional that does not return: like translate.py, except that a variable that is first assigned inside
        it and never read outside it stays local to its branch"""
        names = [n for n in self.assigned([s], env) if n in env or not self.only_read_inside(s, n)]
        for n in names:
            if n not in env and n in self.state:
                self.add_param(self.attrs[n][0], self.lean_ty(self.attrs[n][1]))
                env[n] = self.attrs[n][1]
        for n in names:
            if n not in env:
                self.fail(s, 'variable %s assigned only inside a conditional' % n)
        if not names:
            self.fail(s, 'conditional without effect')
        pack = self.state_pack(names)
        body = self.block(s.body, env, ind + '    ', pack)
        other = self.block(s.orelse, env, ind + '    ', pack)
        src = '(if %s then\n%s%s  else\n%s%s  )' % (self.cond(s.test, env), body, ind, other, ind)
        return self.unpack(names, src, ind)

    def return_text(self, s, env):
        v = s.value
        if self.ret_index is not None:
            if isinstance(v, ast.Tuple):
                v = v.elts[self.ret_index]
            elif ast.unparse(v) in self.vec_externals:
                pass
            else:
                self.fail(s, 'the function was declared to return a tuple')
        ret = self.spec.get('returns', 's')
        if ret == 'arr':
            if isinstance(v, ast.Name) and env.get(v.id) == 'arr':
                return self.var(v.id)
            if ast.unparse(v) in self.vec_externals:
                nm = self.vec_externals[ast.unparse(v)]
                self.add_param(nm, 'Nat → α')
                return nm
            if self.is_vec(v, self.isarr_env(env)):
                return 'fun j__ => ' + self.vexpr(v, env)
            self.fail(s, 'an array was declared as the result')
        if ret == 'arr2':
            if isinstance(v, ast.Name) and env.get(v.id) == 'arr2':
                return self.var(v.id)
            if ast.unparse(v) in self.vec_externals:
                nm = self.vec_externals[ast.unparse(v)]
                self.add_param(nm, 'Nat → Nat → α')
                return nm
            self.fail(s, 'a 2-D array was declared as the result')
        if ret == 'bool':
            return self.cond(v, env)
        if ret in ('s', 'elem'):
            if ast.unparse(v) in self.vec_externals:
                nm = self.vec_externals[ast.unparse(v)]
                self.add_param(nm, 'α')
                return nm
            return self.expr(v, env)
        return None

    def block(self, stmts, env, ind, tail, inline=False):
        out = ''
        if not inline:
            env = dict(env)
        if tail is None and self.result and not inline:
            tail = self.var(self.result)                 # falling off the end of a procedure: the mutated parameter
        for i, s in enumerate(stmts):
            rest = stmts[i + 1:]
            if id(s) in self.dropped:
                continue
            t = self.np_stmt(s, env, ind)
            if t is not None:
                out += t
                continue
            if isinstance(s, ast.Return) and s.value is None and self.result and not inline:
                return out + ind + self.var(self.result) + '\n'
            if isinstance(s, ast.Return) and s.value is not None and not inline:
                t = self.return_text(s, env)
                if t is not None:
                    return out + ind + t + '\n'
            if isinstance(s, (ast.Return, ast.Raise)) or (isinstance(s, ast.If) and self.ends_in_return(s.body)):
                return out + Fn.block(self, [s] + rest, env, ind, tail, inline)
            out += Fn.block(self, [s], env, ind, None, inline=True)
        if inline:
            return out
        if tail is None and self.state:
            tail = self.state_tail(env)                  # a state method falls off its end: the result is the state
        if tail is None:
            raise Untranslatable('%s: a path does not end in return' % self.spec['func'])
        return out + ind + tail + '\n'

    def loop(self, s, env, ind):
        it = ast.unparse(s.iter)
        if it in self.objlists and isinstance(s.target, ast.Name) and not s.orelse:
            n = self.objlists[it]['n']
            self.consts.setdefault(n, 'nat')
            self.objvars[s.target.id] = it
            rng = ast.copy_location(ast.Call(func=ast.Name(id='range', ctx=ast.Load()),
                                             args=[ast.Name(id=n, ctx=ast.Load())], keywords=[]), s.iter)
            s2 = ast.copy_location(ast.For(target=s.target, iter=rng, body=s.body, orelse=[]), s)
            ast.fix_missing_locations(s2)
            return Fn.loop(self, s2, env, ind)
        # `for i, m in enumerate(x)` over a lifted axis (i declared in `lift`, x one element of that axis): the body
        # runs for the one point the model describes, with m = that element
        if isinstance(s.iter, ast.Call) and ast.unparse(s.iter.func) == 'enumerate' and len(s.iter.args) == 1 \
                and isinstance(s.target, ast.Tuple) and len(s.target.elts) == 2 and not s.orelse \
                and all(isinstance(e, ast.Name) for e in s.target.elts) and s.target.elts[0].id in self.lift:
            x = s.iter.args[0]
            if not (isinstance(x, ast.Name) and env.get(x.id) in ('s', 'elem')):
                self.fail(s, 'enumerate over something that is not an element-wise value')
            m = s.target.elts[1].id
            env[m] = 's'
            return '%slet %s := %s\n' % (ind, self.var(m), self.var(x.id)) + self.block_inline(s.body, env, ind)
        return super().loop(s, env, ind)

    def translate(self):
        if self.spec.get('slice'):
            self.dropped = self.compute_slice()
        self.vecvars = self.find_vecvars()
        self.lead1 = self.find_lead1()
        return super().translate()
