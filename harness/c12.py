"""C12 — temperature profiles are finite, positive and bounded by their control values.

Correspondence of TaurexModel/Temperature.lean (+ NpInterp.lean) with the real Isothermal, NPoint, Rodgers2000,
TemperatureArray, TemperatureFile and Guillot2010 classes driven through
`initialize_profile(planet, nlayers, pressure)` / `.profile`, plus the property's own predicates evaluated on the
real code for every in-domain case."""
import os
import math
import shutil
import tempfile
import numpy as np
from harness import common as C

# ----------------------------------------------------------------------------- source tie (harness/translate.py)
# Regenerated on every run into lean/TaurexModel/Gen/SrcC12.lean; lean/Props/C12Src.lean proves each definition equal to
# the hand-written model of TaurexModel/Temperature.lean.  dialect='arr': the idioms of harness/translate_arr.py.
_TDIR = 'taurex/data/profiles/temperature/'
_GATTRS = {'self.T_irr': ('T_irr', 's'), 'self.kappa_ir': ('kappa_ir', 's'), 'self.kappa_v1': ('kappa_v1', 's'),
           'self.kappa_v2': ('kappa_v2', 's'), 'self.alpha': ('alpha', 's'), 'self.T_int': ('T_int', 's'),
           'self.planet.gravity': ('planet_gravity', 's'), 'self.pressure_profile': ('pressure', 'elem')}
SRC_SPECS = [
    dict(module=_TDIR + 'isothermal.py', cls='Isothermal', func='profile', lean='isothermal_profile', dialect='arr',
         params={}, returns='arr', attrs={'self.nlayers': ('nlayers', 'nat'), 'self._iso_temp': ('iso_temp', 's')}),
    # Rodgers2000: exponential covariance and the row-normalised correlation; `weights.dot(T)` is the external `dot`
    dict(module=_TDIR + 'rodgers.py', cls='Rodgers2000', func='gen_covariance', callname='self.gen_covariance',
         lean='rodgers_gen_covariance', dialect='arr', params={}, returns='arr2',
         attrs={'self._tp_corr_length': ('corr_length', 's'), 'self.pressure_profile': ('pressure', 'arr')}),
    dict(module=_TDIR + 'rodgers.py', cls='Rodgers2000', func='correlate_temp', callname='self.correlate_temp',
         lean='rodgers_correlate_temp', dialect='arr', params=dict(cov_mat='arr2'), returns='arr', nrows={'cov_mat': 'n'},
         attrs={'self._T_layers': ('T_layers', 'arr')}, lens={'self._T_layers': 'nT'},
         externals={'dot': ('dot', 2)}),
    dict(module=_TDIR + 'rodgers.py', cls='Rodgers2000', func='profile', lean='rodgers_profile', dialect='arr',
         params={}, returns='arr', attrs={'self._covariance': ('covariance', 'optarr2')}),
    # NPoint.profile up to the node lists: (Tnodes, Pnodes) right after `Pnodes = […]` (unset / negative end pressures
    # are taken from the pressure grid); the next statement hands them to check_profile (tied below)
    dict(module=_TDIR + 'npoint.py', cls='NPoint', func='profile', lean='npoint_nodes', dialect='arr', params={},
         attrs={'self._T_surface': ('T_surface', 's'), 'self._T_top': ('T_top', 's'),
                'self._t_points': ('t_points', 'slist'), 'self._p_points': ('p_points', 'slist'),
                'self._P_surface': ('P_surface', 'opt'), 'self._P_top': ('P_top', 'opt'),
                'self.pressure_profile': ('pressure', 'arr')},
         lens={'self.pressure_profile': 'nP'}, ret_kinds=['slist', 'slist'],
         stop_at='Pnodes = [Psurface, *self._p_points, Ptop]', result=['Tnodes', 'Pnodes']),
    # check_profile only raises: the Bool result is "InvalidTemperatureException is raised"; Ppt, Tpt are the node lists
    dict(module=_TDIR + 'npoint.py', cls='NPoint', func='check_profile', callname='self.check_profile',
         lean='npoint_check_profile', dialect='arr', params=dict(Ppt='arr', Tpt='arr'), lens={'Ppt': 'nP'},
         attrs={'self._limit_slope': ('limit_slope', 's')}, returns='bool', raises=True, raise_value='true',
         fall_value='false'),
    # _check_values only raises: the Bool result is "InvalidModelException is raised"
    dict(module=_TDIR + 'guillot.py', cls='Guillot2010', func='_check_values', callname='self._check_values',
         lean='guillot_check_values', dialect='arr', params={}, attrs=_GATTRS, returns='bool', raises=True,
         raise_value='true', fall_value='false'),
    # profile for ONE layer (self.pressure_profile is element-wise); none = InvalidModelException;
    # scipy.special.expn and the power `T4**0.25` are externals (parameters `expn`, `rpow`)
    dict(module=_TDIR + 'guillot.py', cls='Guillot2010', func='profile', lean='guillot_profile', dialect='arr',
         params={}, attrs=_GATTRS, returns='opt', raise_value='none',
         externals={'spe.expn': ('expn', 2), '**': ('rpow', 2)}),
    # ---- dialect 'seq' (harness/translate_seq.py): arrays as lists of run-time length, Python ints, general slices, the
    # shape tests numpy makes at run time as `Except.error "ValueError"`.
    # taurex.util.movingaverage (cumsum trick); `n` is a Python int, `ret[n - 1:] / n` converts it with `toFloat`
    dict(module='taurex/util/util.py', func='movingaverage', lean='movingaverage', dialect='seq',
         params=dict(a='list', n='int'), raises=True),
    # the WHOLE NPoint.profile: node lists, check_profile (the arr translation above), np.interp in log10 P (external
    # `interp x xp fp`, mapped over the abscissae), int(...) window (`pyInt`), `%`, movingaverage, border, slice store.
    # `np.all(Tnodes == Tnodes[0])` compares a Python LIST with a number: False for a Python float, element-wise for a
    # numpy scalar — the Bool parameter `allEq` (both readings are covered by the tie theorems)
    dict(module=_TDIR + 'npoint.py', cls='NPoint', func='profile', lean='npoint_profile', dialect='seq', params={},
         attrs={'self._T_surface': ('T_surface', 's'), 'self._T_top': ('T_top', 's'),
                'self._t_points': ('t_points', 'list'), 'self._p_points': ('p_points', 'list'),
                'self._P_surface': ('P_surface', 'opt'), 'self._P_top': ('P_top', 'opt'),
                'self.pressure_profile': ('pressure', 'list'), 'self._smooth_window': ('smooth_window', 's'),
                'self.nlayers': ('nlayers', 'nat'), 'self._limit_slope': ('limit_slope', 's')},
         raises=True, raise_value='(Except.error "InvalidTemperatureException")',
         b_externals={'np.all(Tnodes == Tnodes[0])': 'allEq'},
         vexternals={'np.interp': dict(lean='interp', args=['s*', 'list', 'list'], ret='s')}),
    # TemperatureArray: __init__ and profile, once per calling pattern (p_points None / given; partial evaluation of the
    # `is None` tests).  interp1d(x, y, bounds_error=False, fill_value=(lo, hi)) is an external that returns a function
    # (the attribute `_func`), np.linspace an external that returns an array, np.interp as above.
    dict(module=_TDIR + 'temparray.py', cls='TemperatureArray', func='__init__', lean='temparray_init_plain',
         callname='TemperatureArray(plain)', dialect='seq', params=dict(tp_array='list', p_points='none', reverse='bool'),
         state=['self._tp_profile']),
    dict(module=_TDIR + 'temparray.py', cls='TemperatureArray', func='__init__', lean='temparray_init_pressure',
         callname='TemperatureArray(pressure)', dialect='seq',
         params=dict(tp_array='list', p_points='list', reverse='bool'),
         state=['self._tp_profile', 'self._p_profile', 'self._func'],
         vexternals={'interp1d(bounds_error,fill_value)': dict(
             lean='interp1d', args=['list', 'list', 'bool', ('tuple', ('s', 's'))], ret=('fn', ('s',), 's'))}),
    dict(module=_TDIR + 'temparray.py', cls='TemperatureArray', func='profile', lean='temparray_profile_plain',
         callname='TemperatureArray.profile(plain)', dialect='seq', params={},
         attrs={'self._tp_profile': ('tp_profile', 'list'), 'self._p_profile': ('p_profile', 'none'),
                'self.nlayers': ('nlayers', 'nat')},
         vexternals={'np.interp': dict(lean='interp', args=['s*', 'list', 'list'], ret='s'),
                     'np.linspace': dict(lean='linspace', args=['s', 's', 'nat'], ret='list')}),
    dict(module=_TDIR + 'temparray.py', cls='TemperatureArray', func='profile', lean='temparray_profile_pressure',
         callname='TemperatureArray.profile(pressure)', dialect='seq', params={},
         attrs={'self._tp_profile': ('tp_profile', 'list'), 'self._p_profile': ('p_profile', 'list'),
                'self.nlayers': ('nlayers', 'nat'), 'self.pressure_profile': ('pressure', 'list'),
                'self._func': ('func', ('fn', ('s',), 's'))}),
]

RULE = ('kinds iso/npoint/rodgers/tarray/tfile/guillot by quota; layers 2-150 (not multiples of ten favoured); real '
        'SimplePressureProfile or irregular descending ArrayPressureProfile grids; NPoint: 0-6 interior nodes, '
        'unset/negative/explicit end pressures inside and beyond the grid, nodes on grid values, tied and equal '
        'temperatures, windows 0-100 (int and float), finite slope limits, inverted/equal nodes interleaved; quota: interior '
        'nodes held as numpy arrays (35%); quota: window = 100 percent over equal / within-1% control temperatures; Guillot quota: '
        'both optical/infrared opacity ratios 1e-10..1e-6 (different or equal) at strong infrared opacity, closed form judged '
        'layer by layer with the cancellation bound 64 eps/gamma on T^4; Rodgers: '
        'default covariance, symmetric and non-symmetric user covariance; arrays of 1..2n values with/without '
        'pressure points in any order; Guillot inside and outside the documented bounds incl. zero opacities and '
        'negative temperatures; 30% of the iso/npoint/rodgers/guillot cases are re-evaluated on the SAME object after 1-3 '
        'parameters were rewritten through its fitting-parameter setters; route "input-file section": profiles built by '
        'create_temperature_profile(section) / a .par file read by ParameterParser from a SUBSET of the constructor keywords '
        '(quota of explicit 0 / 0.0 / [] values; 0-2 sections of the same class built before in the same session), judged for '
        'the parameters Section.resolve gives; route "forward model": one TransmissionModel, 1-4 further evaluations between '
        'which atm_max_pressure / atm_min_pressure / planet_radius / profile parameters are set through the model, '
        'model.temperatureProfile judged on model.pressureProfile after each; route "mixin": every profile class wrapped in the '
        'built-in scaling mixin (enhance_class(<class>, TempScaler) / profile_type = tempscalar+<type>; quota of arrays / files '
        'with one temperature per layer and no pressure points; scale factors 1, below and above 1, optionally rewritten through '
        'the T_scale fitting parameter), .profile evaluated 2-4 times on the SAME object, every evaluation compared with '
        'Temperature.tempScaler over the model of the wrapped class and judged (finite, positive, inside scale x the control '
        'range, constant for equal controls), then the wrapped class\'s own profile read on the same object and judged like a '
        'directly constructed one; the Guillot closed form is also evaluated '
        'independently in Python for every well-conditioned case. distinct non-trivial = distinct (kind, sub-kind, nlayers, '
        'outcome[, route]) with a non-constant profile')
ASSUMPTIONS = [
    'np.interp(x, xp, fp): clamped at both ends, otherwise the LAST j with xp[j] <= x, linear between j and j+1 '
    '(validated directly incl. ties and out-of-range abscissae)',
    'np.linspace(a, b, n)[i] = i*((b-a)/(n-1)) + a with the last element set to b (validated)',
    'taurex.util.movingaverage (cumsum trick) = exact window mean up to rounding (validated)',
    'scipy.interpolate.interp1d(kind=linear, bounds_error=False, fill_value=(lo,hi)) = stable sort by abscissa + '
    'np.interp + fill values outside the node range',
    'scipy.special.expn(2, x) supplied to the model value by value (E2 is a parameter of the Guillot closed form); '
    'guillot_positive assumes 0 <= E2(x) <= exp(-x)/(1+x) on x >= 0 (checked against scipy on a sample every run)',
    'input-file route: the constructor keywords and defaults are read from inspect.signature of the class; a section is a '
    'dict (unique keys); ParameterParser turns numbers into floats and comma lists into lists of floats (container syntax '
    'is external); TemperatureArray is not registered with the ClassFactory and skiprows cannot be given in a .par file '
    '(numpy rejects a float): neither is generated',
    'mixin route: TempScaler.profile = the wrapped class\'s profile times scale_factor, entry by entry (Temperature.tempScaler); '
    'scale factors > 0; a forward model / sampler evaluates .profile any number of times per parameter set',
    'pressure grid and pressure nodes > 0; control temperatures > 0; Rodgers correlation length != 0; smoothing '
    'window a percentage in [0, 100]; distinct pressure points for TemperatureArray',
    'rounding: model on Float vs numpy doubles compared to 1e-10 relative (Guillot: + 1e-15/min(gamma))',
    'source tie (Props/C12Src.lean): T4 ** 0.25 = sqrt(sqrt(T4)); weights.dot(T) (BLAS, addition order unspecified) and '
    'np.sum(cov, axis=0) are read as left-to-right sums starting from 0; the carrier order is total (x == 0.0 of the '
    'code vs. not x<0 and not 0<x of the model differ only for NaN parameters)',
    'source tie, dialect seq (movingaverage, NPoint.profile, TemperatureArray): np.interp(x, xp, fp) is evaluated abscissa '
    'by abscissa; int(x) truncates toward zero and the window product nlayers*(window/100) is not negative; int(k/2) = '
    'k//2 for k >= 0; np.cumsum accumulates from the left; the cumsum trick equals the window means exactly over the reals '
    '(rounding on floats); np.all(Tnodes == Tnodes[0]) is a Bool parameter (False for a Python-float T_surface, '
    'element-wise for a numpy scalar: the restated theorems cover both); interp1d(bounds_error=False, fill_value=(lo,hi)) '
    '= stable sort by abscissa + np.interp + fill values (interp1dModel)',
]

KINDS = ['npoint', 'npoint', 'npoint', 'rodgers', 'tarray', 'guillot', 'npoint', 'iso', 'tfile', 'guillot',
         'npoint_bad', 'rodgers', 'tarray', 'guillot_bad']


def quiet():
    import logging
    import taurex.log
    from taurex.log.logger import root_logger
    taurex.log.disableLogging()
    root_logger.setLevel(logging.CRITICAL + 1)


def O(x, enc=C.F):
    return '0' if x is None else '1 ' + enc(x)


# --------------------------------------------------------------------------------------- generators
def gen_nlayers(rng):
    r = rng.random()
    if r < 0.15:
        return int(rng.integers(2, 8))
    if r < 0.25:
        return int(rng.choice([10, 20, 25, 30, 45, 50, 100]))
    n = int(rng.integers(2, 151))
    if n % 10 == 0 and rng.random() < 0.7:
        n += int(rng.integers(1, 10))
    return n


def gen_pressure(rng, n):
    """real pressure classes; returns (spec, array)"""
    if rng.random() < 0.6:
        lo = float(10 ** rng.uniform(-6, -1))
        hi = float(10 ** rng.uniform(3, 7))
        spec = dict(type='simple', pmin=lo, pmax=hi, n=n)
    else:
        lp = np.sort(rng.uniform(-5, 7, size=n))[::-1]
        # make strictly decreasing
        lp = lp - np.arange(n) * 1e-6
        spec = dict(type='array', p=(10 ** lp).tolist(), n=n)
    return spec


def make_pressure(spec):
    from taurex.data.profiles.pressure import SimplePressureProfile, ArrayPressureProfile
    if spec['type'] == 'simple':
        pp = SimplePressureProfile(nlayers=spec['n'], atm_min_pressure=spec['pmin'], atm_max_pressure=spec['pmax'])
        pp.compute_pressure_profile()
    else:
        pp = ArrayPressureProfile(np.asarray(spec['p'], float))
        pp.compute_pressure_profile()
    return np.asarray(pp.profile, float)


def gen_planet(rng):
    return dict(mass=float(10 ** rng.uniform(-2, 1.3)), radius=float(rng.uniform(0.1, 3.0)))


def gen_window(rng):
    r = rng.random()
    if r < 0.25:
        return int(rng.integers(0, 61))
    if r < 0.5:
        return float(rng.uniform(0, 60))
    if r < 0.6:
        return 10
    if r < 0.7:
        return float(rng.uniform(60, 100))
    if r < 0.8:
        return int(rng.choice([0, 1, 7, 29, 50, 57, 99, 100]))
    return float(rng.uniform(0, 20))


def gen_npoint(rng, bad=False):
    n = gen_nlayers(rng)
    ps = gen_pressure(rng, n)
    P = make_pressure(ps)
    k = int(rng.integers(0, 7))
    lp_hi, lp_lo = np.log10(P[0]), np.log10(P[-1])
    # end pressures: unset / negative / explicit (inside the grid, or beyond it)
    def endp(default_lp, outward):
        r = rng.random()
        if r < 0.4:
            return None
        if r < 0.55:
            return -1.0
        if r < 0.8:
            return float(10 ** (default_lp + outward * rng.uniform(0, 2)))
        return float(10 ** (default_lp - outward * rng.uniform(0, 0.3) * (lp_hi - lp_lo)))
    p_surf = endp(lp_hi, +1)
    p_top = endp(lp_lo, -1)
    a = np.log10(p_surf) if (p_surf is not None and p_surf > 0) else lp_hi
    b = np.log10(p_top) if (p_top is not None and p_top > 0) else lp_lo
    if k and a > b:
        lps = np.sort(rng.uniform(b, a, size=k))[::-1]
        if rng.random() < 0.3:       # nodes sitting exactly on grid values
            inside = [x for x in np.log10(P[1:-1]) if b < x < a]
            for i in range(k):
                if inside and rng.random() < 0.5:
                    lps[i] = inside[int(rng.integers(0, len(inside)))]
            lps = np.sort(lps)[::-1]
        p_points = [float(10 ** x) for x in lps]
    else:
        p_points = [float(10 ** x) for x in np.sort(rng.uniform(min(a, b) - 1, max(a, b) + 1, size=k))[::-1]]
    r = rng.random()
    if r < 0.1:
        t0 = float(rng.uniform(100, 3000))
        temps = [t0] * (k + 2)
    elif r < 0.25:
        pool = rng.uniform(100, 3000, size=2)
        temps = [float(pool[int(rng.integers(0, 2))]) for _ in range(k + 2)]
    else:
        temps = [float(x) for x in rng.uniform(50, 4000, size=k + 2)]
    # quota: a smoothing window that spans the WHOLE profile (100 percent) over control temperatures that are equal or
    # within one percent of each other - the narrowest range the smoothed profile has to stay inside
    whole = bool(rng.random() < 0.05)
    if whole:
        t0 = float(rng.uniform(100, 3000))
        temps = [t0] * (k + 2) if rng.random() < 0.4 else [float(t0 * (1 + rng.uniform(-0.01, 0.01))) for _ in range(k + 2)]
    limit = 9999999
    if rng.random() < 0.25:
        limit = float(10 ** rng.uniform(1.5, 4))
    if bad and k + 2 >= 2:
        r = rng.random()
        allp = p_points
        if r < 0.4 and k >= 2:
            i = int(rng.integers(0, k - 1))
            allp[i], allp[i + 1] = allp[i + 1], allp[i]
        elif r < 0.6 and k >= 1:
            i = int(rng.integers(0, k))
            allp[i] = float(P[0] * 10) if p_surf is None else float(abs(p_surf) * 10 + 1)
        elif r < 0.8 and k >= 2:
            allp[1] = allp[0]
        else:
            p_surf = float(10 ** (b - 1)) if rng.random() < 0.5 else 0.0
    c = dict(kind='npoint', pressure=ps, planet=gen_planet(rng), T_surface=temps[0], T_top=temps[-1],
             P_surface=p_surf, P_top=p_top, temperature_points=temps[1:-1], pressure_points=p_points,
             smoothing_window=gen_window(rng), limit_slope=limit)
    if whole:
        c['smoothing_window'] = 100
        c['sub'] = 'window-whole-profile'
    if k and rng.random() < 0.35:
        # quota: the interior nodes held as numpy arrays (what a caller computing its nodes passes, and what a profile
        # reloaded from a stored output hands to the constructor) instead of python lists
        c['nodes_as'] = 'ndarray'
    return c


def gen_rodgers(rng):
    n = gen_nlayers(rng)
    if n > 90:
        n = int(rng.integers(2, 90))
    ps = gen_pressure(rng, n)
    r = rng.random()
    if r < 0.1:
        temps = [float(rng.uniform(100, 3000))] * n
    else:
        temps = [float(x) for x in rng.uniform(50, 4000, size=n)]
    h = float(rng.uniform(0.3, 12)) if rng.random() < 0.9 else float(-rng.uniform(0.3, 5))
    cov = None
    sub = 'default'
    r = rng.random()
    if r < 0.2:
        m = rng.random((n, n)) + 0.01
        cov = ((m + m.T) / 2).tolist()
        sub = 'user-symmetric'
    elif r < 0.3:
        cov = (rng.random((n, n)) + 0.01).tolist()
        sub = 'user-nonsymmetric'
    return dict(kind='rodgers', pressure=ps, planet=gen_planet(rng), temperature_layers=temps,
                correlation_length=h, covariance=cov, sub=sub)


def gen_tarray(rng, as_file=False):
    n = gen_nlayers(rng)
    ps = gen_pressure(rng, n)
    r = rng.random()
    if r < 0.3:
        m = n
    elif r < 0.4:
        m = 1 if not as_file else 2
    else:
        m = int(rng.integers(2, 2 * n + 2))
    if rng.random() < 0.1:
        tp = [float(rng.uniform(100, 3000))] * m
    else:
        tp = [float(x) for x in rng.uniform(50, 4000, size=m)]
    pp = None
    sub = 'plain-same' if m == n else 'plain-interp'
    if rng.random() < 0.5 and m >= 2:
        lo, hi = rng.uniform(-7, 1), rng.uniform(2, 8)
        if rng.random() < 0.3:       # node range strictly inside the grid: the fill values are used
            lo, hi = rng.uniform(-1, 1), rng.uniform(2, 3)
        lp = rng.uniform(lo, hi, size=m)
        lp = lp + np.arange(m) * 1e-7
        order = rng.random()
        if order < 0.5:
            lp = np.sort(lp)[::-1]
            sub = 'pressure-descending'
        elif order < 0.75:
            lp = np.sort(lp)
            sub = 'pressure-ascending'
        else:
            sub = 'pressure-shuffled'
        pp = [float(10 ** x) for x in lp]
    c = dict(kind='tfile' if as_file else 'tarray', pressure=ps, planet=gen_planet(rng), tp_array=tp,
             p_points=pp, reverse=bool(rng.random() < 0.3) and not as_file, sub=sub)
    if as_file:
        c['press_units'] = 'Pa' if rng.random() < 0.6 else 'bar'
    return c


def gen_guillot(rng, bad=False):
    n = gen_nlayers(rng)
    ps = gen_pressure(rng, n)
    inside = rng.random() < 0.5
    if inside:
        prm = dict(T_irr=float(rng.uniform(1300, 2500)), kappa_irr=float(10 ** rng.uniform(-10, 0)),
                   kappa_v1=float(10 ** rng.uniform(-10, 0)), kappa_v2=float(10 ** rng.uniform(-10, 0)),
                   alpha=float(rng.uniform(0, 1)), T_int=float(rng.uniform(0, 1)))
        if rng.random() < 0.5:      # moderate gammas: no catastrophic cancellation, tight comparison
            k = float(10 ** rng.uniform(-4, 0))
            prm['kappa_irr'] = k
            prm['kappa_v1'] = k * float(10 ** rng.uniform(-2, 2))
            prm['kappa_v2'] = k * float(10 ** rng.uniform(-2, 2))
        if rng.random() < 0.1:
            prm['alpha'] = float(rng.choice([0.0, 1.0]))
        sub = 'documented-bounds'
        if rng.random() < 0.3:
            # quota: BOTH optical-to-infrared opacity ratios tiny (1e-10..1e-6, different or - one case in four - equal),
            # strong infrared opacity: an optically thick column where the two channels still differ (documented bounds)
            kir = float(10 ** rng.uniform(-1.5, 0))
            lo = max(-10.0, -10.0 - math.log10(kir)) + 1e-9
            hi = float(rng.choice([-8.0, -6.0]))
            g1 = float(10 ** rng.uniform(lo, max(hi, lo)))
            g2 = g1 if rng.random() < 0.25 else float(10 ** rng.uniform(lo, max(hi, lo)))
            prm.update(kappa_irr=kir, kappa_v1=max(kir * g1, 1e-10), kappa_v2=max(kir * g2, 1e-10))
            sub = 'documented-bounds-tiny-gammas'
    else:
        k = float(10 ** rng.uniform(-6, 2))
        prm = dict(T_irr=float(rng.uniform(0, 5000)), kappa_irr=k,
                   kappa_v1=k * float(10 ** rng.uniform(-3, 3)), kappa_v2=k * float(10 ** rng.uniform(-3, 3)),
                   alpha=float(rng.uniform(-0.5, 1.5)), T_int=float(rng.uniform(0, 1500)))
        sub = 'outside-bounds'
    if bad:
        r = int(rng.integers(0, 6))
        if r == 0:
            prm['kappa_irr'] = 0.0
        elif r == 1:
            prm['kappa_v1'] = 0.0
        elif r == 2:
            prm['kappa_v2'] = 0.0
        elif r == 3:
            prm['T_irr'] = -abs(prm['T_irr']) - 1.0
        elif r == 4:
            prm['T_int'] = -abs(prm['T_int']) - 1.0
        else:
            prm['kappa_v1'] = 0.0
            prm['T_int'] = -5.0
        sub = 'rejected'
    return dict(kind='guillot', pressure=ps, planet=gen_planet(rng), params=prm, sub=sub)


def gen_case(rng, k):
    c = gen_case0(rng, k)
    if c['kind'] in ('iso', 'npoint', 'rodgers', 'guillot') and rng.random() < 0.3:
        c['update'] = gen_update(rng, c)
    return c


def gen_case0(rng, k):
    kind = KINDS[k % len(KINDS)]
    if kind == 'iso':
        n = gen_nlayers(rng)
        return dict(kind='iso', pressure=gen_pressure(rng, n), planet=gen_planet(rng),
                    T=float(rng.uniform(10, 5000)))
    if kind == 'npoint':
        return gen_npoint(rng)
    if kind == 'npoint_bad':
        return gen_npoint(rng, bad=True)
    if kind == 'rodgers':
        return gen_rodgers(rng)
    if kind == 'tarray':
        return gen_tarray(rng)
    if kind == 'tfile':
        return gen_tarray(rng, as_file=True)
    if kind == 'guillot':
        return gen_guillot(rng)
    return gen_guillot(rng, bad=True)


# --------------------------------------------------------------------------------------- real code
def run_real(c, P, workdir=None, reuse=None):
    """returns (outcome, profile, planet, object) with outcome in ok / invalid / error:<Type>;
    `reuse` = an already constructed profile object whose parameters were updated through its setters"""
    from taurex.data.planet import Planet
    from taurex.exceptions import InvalidModelException
    from taurex.data.profiles.temperature.isothermal import Isothermal
    from taurex.data.profiles.temperature.npoint import NPoint
    from taurex.data.profiles.temperature.rodgers import Rodgers2000
    from taurex.data.profiles.temperature.guillot import Guillot2010
    from taurex.data.profiles.temperature.temparray import TemperatureArray
    from taurex.data.profiles.temperature.file import TemperatureFile
    planet = Planet(planet_mass=c['planet']['mass'], planet_radius=c['planet']['radius'])
    n = len(P)
    kind = c['kind']
    tp = reuse
    try:
        if reuse is not None:
            pass
        elif kind == 'iso':
            tp = Isothermal(T=c['T'])
        elif kind == 'npoint':
            as_nodes = (lambda v: np.array(v, dtype=float)) if c.get('nodes_as') == 'ndarray' else list
            tp = NPoint(T_surface=c['T_surface'], T_top=c['T_top'], P_surface=c['P_surface'], P_top=c['P_top'],
                        temperature_points=as_nodes(c['temperature_points']),
                        pressure_points=as_nodes(c['pressure_points']),
                        smoothing_window=c['smoothing_window'], limit_slope=c['limit_slope'])
        elif kind == 'rodgers':
            cov = None if c['covariance'] is None else np.asarray(c['covariance'], float)
            tp = Rodgers2000(temperature_layers=list(c['temperature_layers']),
                             correlation_length=c['correlation_length'], covariance_matrix=cov)
        elif kind == 'tarray':
            tp = TemperatureArray(tp_array=list(c['tp_array']), p_points=c['p_points'], reverse=c['reverse'])
        elif kind == 'tfile':
            fn = os.path.join(workdir, 'tp.dat')
            conv = 1.0 if c.get('press_units', 'Pa') == 'Pa' else 1e-5
            with open(fn, 'w') as fh:
                fh.write('# T P\n')
                for i, t in enumerate(c['tp_array']):
                    if c['p_points'] is None:
                        fh.write('%r\n' % float(t))
                    else:
                        fh.write('%r %r\n' % (float(t), float(c['p_points'][i]) * conv))
            tp = TemperatureFile(filename=fn, skiprows=1, temp_col=0,
                                 press_col=None if c['p_points'] is None else 1,
                                 press_units=c.get('press_units', 'Pa'))
        elif kind == 'guillot':
            tp = Guillot2010(**c['params'])
        tp.initialize_profile(planet, n, P)
        prof = np.array(tp.profile, dtype=float)
        return 'ok', prof, planet, tp
    except InvalidModelException:
        return 'invalid', None, planet, tp
    except Exception as e:
        return 'error:' + type(e).__name__, None, planet, tp


def dec_outcome(d):
    tag = d.nat()
    if tag == 0:
        return 'ok', np.array(d.list())
    return ('invalid' if tag == 1 else 'error'), None


def run_model(ctx, c, P, planet, tfile_pp=None):
    m = ctx.model()
    n = len(P)
    kind = c['kind']
    if kind == 'iso':
        return 'ok', np.array(m.call('c12.iso', C.F(c['T']), C.N(n)).list())
    if kind == 'npoint':
        d = m.call('c12.npoint', C.F(c['T_surface']), C.F(c['T_top']), O(c['P_surface']), O(c['P_top']),
                   C.L(c['temperature_points']), C.L(c['pressure_points']), C.F(float(c['smoothing_window'])),
                   C.F(float(c['limit_slope'])), C.N(n), C.L(P))
        return dec_outcome(d)
    if kind == 'rodgers':
        cov = c['covariance']
        d = m.call('c12.rodgers', C.L(c['temperature_layers']), C.F(c['correlation_length']),
                   '0' if cov is None else '1 ' + C.LL(cov), C.L(P))
        return 'ok', np.array(d.list())
    if kind in ('tarray', 'tfile'):
        pp = c['p_points'] if tfile_pp is None else tfile_pp
        d = m.call('c12.tarray', C.L(c['tp_array']), '0' if pp is None else '1 ' + C.L(pp),
                   C.N(1 if c.get('reverse') else 0), C.N(n), C.L(P))
        return 'ok', np.array(d.list())
    if kind == 'guillot':
        import scipy.special as spe
        q = c['params']
        g = float(planet.gravity)
        with np.errstate(all='ignore'):
            kir = q['kappa_irr']
            if kir == 0.0:
                e1 = e2 = np.zeros(n)
            else:
                tau = kir * P / g
                e1 = spe.expn(2, (q['kappa_v1'] / kir) * tau)
                e2 = spe.expn(2, (q['kappa_v2'] / kir) * tau)
        d = m.call('c12.guillot', C.F(q['T_irr']), C.F(kir), C.F(q['kappa_v1']), C.F(q['kappa_v2']),
                   C.F(q['alpha']), C.F(q['T_int']), C.F(g), C.L(P), C.L(e1), C.L(e2))
        return dec_outcome(d)
    raise ValueError(kind)


# --------------------------------------------------------------------------------------- oracles
def npoint_nodes(c, P):
    ps, pt = c['P_surface'], c['P_top']
    if ps is None or ps < 0:
        ps = float(P[0])
    if pt is None or pt < 0:
        pt = float(P[-1])
    Pn = [ps] + list(c['pressure_points']) + [pt]
    Tn = [c['T_surface']] + list(c['temperature_points']) + [c['T_top']]
    return Pn, Tn


def npoint_expect(c, P):
    """'invalid' / 'ok' / None (too close to the slope limit to call)"""
    Pn, Tn = npoint_nodes(c, P)
    if any(Pn[i] <= Pn[i + 1] for i in range(len(Pn) - 1)):
        return 'invalid'
    lim = float(c['limit_slope'])
    verdict = 'ok'
    for i in range(len(Pn) - 1):
        s = abs((Tn[i + 1] - Tn[i]) / (np.log10(Pn[i + 1]) - np.log10(Pn[i])))
        if abs(s - lim) <= 1e-9 * lim:
            return None
        if s >= lim:
            verdict = 'invalid'
    return verdict


def guillot_expect(q):
    if q['kappa_irr'] == 0.0:
        return 'invalid'
    if q['kappa_v1'] == 0.0 or q['kappa_v2'] == 0.0:
        return 'invalid'
    if q['T_irr'] < 0 or q['T_int'] < 0:
        return 'invalid'
    if q['kappa_v1'] / q['kappa_irr'] == 0.0 or q['kappa_v2'] / q['kappa_irr'] == 0.0:
        return None          # underflow of the ratio: not judged
    return 'ok'


def guillot_closed_form(P, g, q):
    """the published formula, written independently of the source; (profile, rtol) with rtol None where the formula is too
    ill-conditioned in double precision to judge (tiny gamma: 2/(3 gamma) * (1 - ... ) cancels)"""
    import scipy.special as spe
    kir, k1, k2 = float(q['kappa_irr']), float(q['kappa_v1']), float(q['kappa_v2'])
    tirr, tint, alpha = float(q['T_irr']), float(q['T_int']), float(q['alpha'])
    tau = kir * np.asarray(P, float) / g

    def xi(gamma):
        return (2.0 / 3.0 + 2.0 / (3.0 * gamma) * (1.0 + (gamma * tau / 2.0 - 1.0) * np.exp(-gamma * tau))
                + 2.0 * gamma / 3.0 * (1.0 - tau ** 2 / 2.0) * spe.expn(2, gamma * tau))
    with np.errstate(all='ignore'):
        g1, g2 = k1 / kir, k2 / kir
        t4 = (3.0 * tint ** 4 / 4.0 * (2.0 / 3.0 + tau) + 3.0 * tirr ** 4 / 4.0 * (1.0 - alpha) * xi(g1)
              + 3.0 * tirr ** 4 / 4.0 * alpha * xi(g2))
        prof = t4 ** 0.25
    gmin = min(abs(g1), abs(g2))
    ok = bool(np.all(np.isfinite(prof)) and np.all(t4 > 0) and gmin > 1e-7 and 0.0 <= alpha <= 1.0)
    if (not ok and np.all(np.isfinite(prof)) and np.all(t4 > 0) and 0.0 <= alpha <= 1.0 and 1e-10 <= gmin <= 1e-7
            and g1 > 0 and g2 > 0):
        # tiny gamma: 1 + (gamma tau/2 - 1) exp(-gamma tau) cancels to ~eps ABSOLUTE, i.e. xi carries an absolute error of a
        # few eps/gamma; both channels weigh 3 T_irr^4/4 in total, so T^4 is known to E = 3 T_irr^4/4 * 64 eps/gmin and
        # T = (T^4)^(1/4) to the relative E/(4 T^4), layer by layer (deep layers, where T^4 is large, are judged tightly)
        e4 = 3.0 * tirr ** 4 / 4.0 * 64.0 * 2.220446049250313e-16 / gmin
        return prof, 1e-7 + e4 / (4.0 * t4)
    return prof, ((1e-7 + 1e-13 / gmin) if ok else None)


def in_documented_bounds(q):
    return (1300 <= q['T_irr'] <= 2500 and 1e-10 <= q['kappa_irr'] <= 1 and 1e-10 <= q['kappa_v1'] <= 1 and
            1e-10 <= q['kappa_v2'] <= 1 and 0 <= q['alpha'] <= 1 and 0 <= q['T_int'] <= 1)


# --------------------------------------------------------------------------------------- one case
def gen_update(rng, c):
    """1-3 parameter updates written through the fitting-parameter setters before `.profile` is read again"""
    kind = c['kind']
    cand = []
    if kind == 'iso':
        cand.append(dict(param='T', target=['T'], value=float(rng.uniform(10, 5000))))
    elif kind == 'npoint':
        cand.append(dict(param='T_surface', target=['T_surface'], value=float(rng.uniform(50, 4000))))
        cand.append(dict(param='T_top', target=['T_top'], value=float(rng.uniform(50, 4000))))
        for i, (t, p) in enumerate(zip(c['temperature_points'], c['pressure_points'])):
            cand.append(dict(param='T_point%d' % (i + 1), target=['temperature_points', i],
                             value=float(rng.uniform(50, 4000))))
            cand.append(dict(param='P_point%d' % (i + 1), target=['pressure_points', i],
                             value=float(p * 10 ** rng.uniform(-0.7, 0.7))))
    elif kind == 'rodgers':
        for i in rng.choice(len(c['temperature_layers']), size=min(3, len(c['temperature_layers'])), replace=False):
            cand.append(dict(param='T_%d' % (int(i) + 1), target=['temperature_layers', int(i)],
                             value=float(rng.uniform(50, 4000))))
        cand.append(dict(param='correlation_length', target=['correlation_length'], value=float(rng.uniform(0.3, 12))))
    elif kind == 'guillot':
        q = c['params']
        cand.append(dict(param='T_irr', target=['params', 'T_irr'], value=float(rng.uniform(0, 5000))))
        cand.append(dict(param='kappa_irr', target=['params', 'kappa_irr'],
                         value=float(q['kappa_irr'] * 10 ** rng.uniform(-1, 1)) if q['kappa_irr'] else 0.01))
        cand.append(dict(param='kappa_v1', target=['params', 'kappa_v1'],
                         value=float(rng.choice([0.0, q['kappa_irr'] * 10 ** rng.uniform(-2, 2)]))))
        cand.append(dict(param='alpha', target=['params', 'alpha'], value=float(rng.uniform(0, 1))))
        cand.append(dict(param='T_int_guillot', target=['params', 'T_int'], value=float(rng.uniform(-50, 1000))))
    if not cand:
        return None
    k = int(rng.integers(1, min(3, len(cand)) + 1))
    idx = rng.choice(len(cand), size=k, replace=False)
    return [cand[int(i)] for i in idx]


def apply_update(c, tp):
    import copy
    c2 = copy.deepcopy({k: v for k, v in c.items() if k != 'update'})
    params = tp.fitting_parameters()
    for u in c['update']:
        params[u['param']][3](u['value'])
        t = u['target']
        if len(t) == 1:
            c2[t[0]] = u['value']
        else:
            c2[t[0]][t[1] if isinstance(c2[t[0]], dict) else int(t[1])] = u['value']
    if c2.get('sub') in ('documented-bounds', 'documented-bounds-tiny-gammas', 'outside-bounds', 'rejected'):
        c2['sub'] = 'updated'
    c2['updated'] = True
    return c2


def eval_case(ctx, c):
    quiet()
    if c.get('route') in ('factory', 'parfile'):
        return eval_factory_case(ctx, c)
    if c.get('route') == 'fm':
        return eval_fm_case(ctx, c)
    if c.get('route') == 'mixin':
        return eval_mixin_case(ctx, c)
    tp = judge(ctx, c, dict(c), None)
    if c.get('update') and tp is not None:
        c2 = apply_update(c, tp)
        judge(ctx, c2, dict(c, phase='after-update'), tp)


def judge(ctx, c, small, reuse, given=None):
    """`given` = (P, outcome, profile, planet, object): the real profile was obtained through another route (input-file
    section / forward model) for the parameters `c`; the judgement is the same"""
    kind = c['kind']
    route = c.get('route', 'direct')
    if given is not None:
        P, out_i, prof_i, planet, tp_obj = given
        n = len(P)
    else:
        P = make_pressure(c['pressure'])
        n = len(P)
        workdir = None
        try:
            if kind == 'tfile':
                workdir = tempfile.mkdtemp(prefix='verif_c12_')
            out_i, prof_i, planet, tp_obj = run_real(c, P, workdir, reuse)
        finally:
            if workdir:
                shutil.rmtree(workdir, ignore_errors=True)
    tfile_pp = None
    if 'tfile_pp' in c:
        tfile_pp = c['tfile_pp']
    elif kind == 'tfile' and c['p_points'] is not None:
        conv = 1.0 if c.get('press_units', 'Pa') == 'Pa' else 1e-5
        fac = 1.0 if conv == 1.0 else 1e5
        tfile_pp = [float(float(repr(float(p) * conv)) * fac) for p in c['p_points']]
    out_m, prof_m = run_model(ctx, c, P, planet, tfile_pp)
    sub = c.get('sub', '')
    nonconst = prof_i is not None and len(prof_i) > 1 and float(np.nanmax(prof_i)) > float(np.nanmin(prof_i))
    ctx.case(key=((kind, sub, n, out_i) + (() if route == 'direct' else (route,))) if (nonconst or out_i != 'ok') else None,
             sample=dict(kind=kind, sub=sub, nlayers=n, outcome=out_i,
                         impl=None if prof_i is None else prof_i[:3], model=None if prof_m is None else prof_m[:3]),
             bucket='kind:' + kind + ('/' + sub if sub else ''))
    ctx.bucket('outcome:' + out_i)
    if c.get('updated'):
        ctx.bucket('after-update:' + kind)
    if route != 'direct':
        ctx.bucket('route:%s:%s:%s' % (route, kind, out_i))
    ctx.bucket('layers:' + ('2-9' if n < 10 else '10-49' if n < 50 else '50-150'))
    # ---- correspondence
    ctx.check_eq(kind + ' outcome (ok / invalid / error) vs model', out_i.split(':')[0], out_m, small)
    if out_i == 'ok' and out_m == 'ok':
        rel = 1e-10
        if kind == 'guillot':
            q = c['params']
            gmin = min(abs(q['kappa_v1'] / q['kappa_irr']), abs(q['kappa_v2'] / q['kappa_irr']))
            rel = 1e-10 + 1e-15 / gmin
        if kind == 'guillot':
            # the closed form gives T^4; T is its fourth root.  Where T^4 comes out orders of magnitude below the profile's
            # largest T^4 (parameters outside their documented bounds: the bracket changes sign higher up) it is a difference
            # of large terms, and its rounding error scales with the LARGEST T^4: compared in T^4, with that allowance
            pi4, pm4 = np.asarray(prof_i, float) ** 4, np.asarray(prof_m, float) ** 4
            big = float(np.nanmax(pm4)) if np.any(np.isfinite(pm4)) else 0.0
            ctx.check_close(kind + '.profile vs Temperature model', pi4, pm4, small, rel=4 * rel, abs_=1e-12 * big + 4e-9)
        else:
            ctx.check_close(kind + '.profile vs Temperature model', prof_i, prof_m, small, rel=rel, abs_=0.0)
    # ---- the property's own predicates, on the implementation
    key = kind + (':' + sub if sub else '') + ('' if route == 'direct' else '@' + route)
    if kind == 'npoint':
        exp = npoint_expect(c, P)
        w = float(c['smoothing_window'])
        ctx.bucket('npoint-window:' + ('0-1' if w <= 1 else '1-20' if w <= 20 else '20-60' if w <= 60 else '60-100'))
        if route == 'direct':
            ctx.bucket('npoint-nodes-held-as:' + str(c.get('nodes_as') or 'list')
                       + (':none' if not len(c['temperature_points']) else ''))
        if exp == 'invalid' and out_i != 'invalid':
            ctx.violation('npoint-not-rejected', 'inverted pressure nodes / excessive slope not rejected as an invalid '
                          'model (outcome %s)' % out_i, small)
            return tp_obj
        if exp == 'ok' and out_i != 'ok':
            ctx.violation('npoint-valid-raises', 'valid N-point profile raised (%s)' % out_i, small)
            return tp_obj
    if kind == 'guillot':
        exp = guillot_expect(c['params'])
        if exp == 'invalid' and out_i != 'invalid':
            ctx.violation('guillot-not-rejected', 'zero opacity / negative temperature not rejected as an invalid '
                          'model (outcome %s)' % out_i, small)
            return tp_obj
        if exp == 'ok' and out_i != 'ok':
            ctx.violation('guillot-valid-raises', 'admissible Guillot parameters raised (%s)' % out_i, small)
            return tp_obj
    if kind not in ('npoint', 'guillot') and out_i != 'ok':
        ctx.violation(key + '-raises', 'profile raised (%s) on a valid input' % out_i, small)
        return tp_obj
    if out_i != 'ok':
        # a rejected parameter set stays rejected: asking the SAME object again (the next likelihood call of a sampler, a
        # derived quantity) must raise again, not hand out a profile
        if out_i == 'invalid' and tp_obj is not None:
            from taurex.exceptions import InvalidModelException
            ctx.bucket('rejected:asked-again')
            try:
                with np.errstate(all='ignore'):
                    again = np.array(tp_obj.profile, dtype=float)
                ctx.violation(key + '-rejection-forgotten', 'a parameter set that was rejected as an invalid model is '
                              'accepted when the same object is asked for its profile a second time', small,
                              dict(profile=again[:5]))
            except InvalidModelException:
                pass
            except Exception as e:  # noqa
                ctx.violation(key + '-rejection-changed', 'the second request on a rejected parameter set raised %r instead of '
                              'InvalidModelException' % (e,), small)
        return tp_obj
    if len(prof_i) != n:
        ctx.violation(key + '-length', 'profile has %d values for %d layers' % (len(prof_i), n), small)
        return tp_obj
    judged_positive = True
    if kind == 'guillot':
        q = c['params']
        # "the Guillot profile matches its published closed form": the formula (Guillot 2010 eq. 49, Line et al. 2012)
        # evaluated independently for the parameters of the case on the pressure grid of the case
        ref, rtol = guillot_closed_form(P, float(planet.gravity), q)
        per_layer = rtol is not None and np.ndim(rtol) == 1
        ctx.bucket('guillot-closed-form:' + ('judged-per-layer(tiny gamma)' if per_layer else 'judged' if rtol is not None
                                             else 'ill-conditioned(unjudged)'))
        if per_layer:
            agree = bool(np.all(np.abs(prof_i - ref) <= 1e-6 + rtol * np.maximum(np.abs(prof_i), np.abs(ref))))
            ctx.bucket('guillot-tiny-gammas:' + ('equal' if q['kappa_v1'] == q['kappa_v2'] else 'different')
                       + (':thick' if float(q['kappa_irr']) * float(np.max(P)) / float(planet.gravity) > 1e3 else ':thin'))
        else:
            agree = rtol is None or C.close(prof_i, ref, rel=rtol, abs_=1e-6)
        if not agree:
            dev = float(np.nanmax(np.abs(prof_i / ref - 1)))
            ctx.violation(key + '-closed-form', 'the Guillot profile does not match the published closed form for the '
                          'parameters and the pressure grid it was given (max rel. deviation %.3g)' % dev, small,
                          dict(profile=prof_i[:5], closed_form=ref[:5], pressure=P[:5], params=q))
            return tp_obj
        # the domain of theorem guillot_positive: positive opacities, 0 <= alpha <= 1, non-negative temperatures not both 0
        judged_positive = (in_documented_bounds(q) or (
            q['kappa_irr'] > 0 and q['kappa_v1'] > 0 and q['kappa_v2'] > 0 and 0 <= q['alpha'] <= 1
            and q['T_irr'] >= 0 and q['T_int'] >= 0)) and (q['T_irr'] > 0 or q['T_int'] > 0)
        ctx.bucket('guillot-positivity:' + ('judged' if judged_positive else 'outside-theorem-domain'))
    if kind == 'rodgers' and sub == 'user-nonsymmetric':
        judged_positive = False
    if judged_positive:
        if not np.all(np.isfinite(prof_i)) or not np.all(prof_i > 0):
            ctx.violation(key + '-nonfinite-or-nonpositive', 'temperature not finite / not positive', small,
                          dict(profile=prof_i))
            return tp_obj
    ctrl = None
    if kind == 'iso':
        ctrl = [c['T']]
    elif kind == 'npoint':
        ctrl = npoint_nodes(c, P)[1]
    elif kind == 'rodgers' and sub != 'user-nonsymmetric':
        ctrl = c['temperature_layers']
    elif kind in ('tarray', 'tfile'):
        ctrl = c['tp_array']
    if ctrl is not None:
        lo, hi = min(ctrl), max(ctrl)
        slack = 1e-10 * hi
        if prof_i.min() < lo - slack or prof_i.max() > hi + slack:
            ctx.violation(key + '-out-of-range', 'profile leaves the range of its control temperatures', small,
                          dict(lo=lo, hi=hi, min=float(prof_i.min()), max=float(prof_i.max())))
        if lo == hi and not C.close(prof_i, [lo] * n, rel=1e-12 if kind == 'iso' else 1e-10):
            ctx.violation(key + '-not-constant', 'equal control temperatures do not give a constant profile', small)
    return tp_obj


# --------------------------------------------------------------------------------------- route: input-file section
# A profile built from a `[Temperature]` section: taurex.parameter.factory.create_temperature_profile(section) (directly, or a
# .par file read by ParameterParser).  The constructor receives the section's values over its own defaults
# (TaurexModel/Section.lean `resolve`, theorems section_given / section_default / section_keys / section_history); the
# profile is then judged exactly like a directly constructed one, for the RESOLVED parameters.  Every case carries the
# sections built before it in the same session (`prior`), so that it replays on its own.
FACTORY = {'guillot': 'guillot', 'npoint': 'npoint', 'iso': 'isothermal', 'rodgers': 'rodgers', 'tarray': 'array',
           'tfile': 'file'}
# (TemperatureArray is not registered with the ClassFactory: `profile_type = array` is rejected by the real code)
FACTORY_KINDS = ['guillot', 'npoint', 'guillot', 'tfile', 'npoint', 'guillot', 'iso', 'tfile', 'rodgers', 'npoint',
                 'guillot']


def factory_class(kind):
    from taurex.data.profiles.temperature.isothermal import Isothermal
    from taurex.data.profiles.temperature.npoint import NPoint
    from taurex.data.profiles.temperature.rodgers import Rodgers2000
    from taurex.data.profiles.temperature.guillot import Guillot2010
    from taurex.data.profiles.temperature.temparray import TemperatureArray
    from taurex.data.profiles.temperature.file import TemperatureFile
    return dict(guillot=Guillot2010, npoint=NPoint, iso=Isothermal, rodgers=Rodgers2000, tarray=TemperatureArray,
                tfile=TemperatureFile)[kind]


def ctor_defaults(kind):
    """the constructor's keywords and defaults, read from its signature (independently of the factory's helper)"""
    import inspect
    sig = inspect.signature(factory_class(kind).__init__)
    return [(n, q.default) for n, q in sig.parameters.items()
            if n != 'self' and q.default is not inspect.Parameter.empty]


def pick(rng, keys, p=0.6):
    return [k for k in keys if rng.random() < p]


def gen_section(rng, kind, n, zero_quota, skiprows_ok=True):
    """(section, file) for one profile of `kind` on `n` layers: a SUBSET of the constructor's keywords; `zero_quota`: give
    some keyword an explicit falsy value (0, 0.0, [], False) whose default is different"""
    sec, fil = {}, None
    if kind == 'guillot':
        q = gen_guillot(rng)['params']
        for k_ in pick(rng, list(q)):
            sec[k_] = q[k_]
        if zero_quota:
            r = int(rng.integers(0, 7))
            if r == 0:
                sec['alpha'] = 0.0
            elif r == 1:
                sec['T_int'] = 0.0
            elif r == 2:
                sec['T_int'] = 0
                sec['alpha'] = 0
            elif r == 3:
                sec['T_irr'] = 0.0
            else:
                sec[['kappa_irr', 'kappa_v1', 'kappa_v2'][r - 4]] = 0.0
    elif kind == 'npoint':
        g = gen_npoint(rng)
        for k_ in pick(rng, ['T_surface', 'T_top', 'P_surface', 'P_top', 'smoothing_window', 'limit_slope']):
            sec[k_] = g[k_]
        if rng.random() < 0.6:
            sec['temperature_points'] = list(g['temperature_points'])
            sec['pressure_points'] = list(g['pressure_points'])
        if zero_quota:
            r = int(rng.integers(0, 4))
            if r == 0:
                sec['smoothing_window'] = 0
            elif r == 1:
                sec['smoothing_window'] = 0.0
            elif r == 2:
                sec['temperature_points'] = []
                sec['pressure_points'] = []
            else:
                sec['smoothing_window'] = 0
                sec['temperature_points'] = []
                sec['pressure_points'] = []
    elif kind == 'iso':
        if rng.random() < 0.7:
            sec['T'] = float(rng.uniform(10, 5000))
    elif kind == 'rodgers':
        sec['temperature_layers'] = [float(x) for x in rng.uniform(50, 4000, size=n)]
        if rng.random() < 0.5:
            sec['correlation_length'] = float(rng.uniform(0.3, 12))
    elif kind == 'tarray':
        g = gen_tarray(rng)
        m = len(g['tp_array']) if len(g['tp_array']) <= 2 * n + 2 else n
        if rng.random() < 0.7:
            sec['tp_array'] = list(g['tp_array'][:m])
            if g['p_points'] is not None and rng.random() < 0.7:
                sec['p_points'] = list(g['p_points'][:m])
        elif rng.random() < 0.5:
            sec['p_points'] = [float(10 ** x) for x in sorted(rng.uniform(-2, 6, size=2), reverse=True)]
        if rng.random() < 0.5:
            sec['reverse'] = bool(rng.random() < 0.5) if not zero_quota else False
    else:   # tfile: a table of (T, P) / (P, T) / (T) columns; which column is what is said by the section
        m = int(rng.integers(2, 2 * n + 2))
        layout = ['TP', 'PT', 'T', 'PT'][int(rng.integers(0, 4))] if not zero_quota else 'PT'
        units = ['Pa', 'bar', None][int(rng.integers(0, 3))]
        T = [float(x) for x in rng.uniform(50, 4000, size=m)]
        lp = rng.uniform(-7, 8, size=m) + np.arange(m) * 1e-7
        r = rng.random()
        lp = np.sort(lp)[::-1] if r < 0.5 else np.sort(lp) if r < 0.75 else lp
        Pcol = [float(10 ** x) * (1.0 if units != 'bar' else 1e-5) for x in lp]
        # (a .par file delivers numbers as floats, and numpy.loadtxt rejects skiprows=1.0: no skiprows on that route)
        header = bool(rng.random() < 0.4) and skiprows_ok
        lines = ['T P'] if header else ['# scratch profile']      # loadtxt: skiprows counts every line, then '#' lines go
        for i in range(m):
            cols = dict(TP=[T[i], Pcol[i]], PT=[Pcol[i], T[i]], T=[T[i]])[layout]
            lines.append(' '.join(repr(v) for v in cols))
        fil = dict(lines=lines)
        sec['filename'] = '@file'
        if header:
            sec['skiprows'] = 1
        elif (zero_quota or rng.random() < 0.3) and skiprows_ok:
            sec['skiprows'] = 0
        if layout == 'PT':
            sec['temp_col'] = 1
            sec['press_col'] = 0
        else:
            if zero_quota or rng.random() < 0.4:
                sec['temp_col'] = 0
            if layout == 'TP' and rng.random() < 0.7:
                sec['press_col'] = 1
        if units is not None:
            sec['press_units'] = units
    return sec, fil


def gen_factory_case(rng, k):
    kind = FACTORY_KINDS[k % len(FACTORY_KINDS)]
    n = gen_nlayers(rng)
    if kind == 'rodgers' and n > 90:
        n = int(rng.integers(2, 90))
    zero_quota = (k // len(FACTORY_KINDS)) % 3 == 0 and kind in ('guillot', 'npoint', 'tfile')
    route = 'parfile' if k % 4 == 3 else 'factory'
    sec, fil = gen_section(rng, kind, n, zero_quota, skiprows_ok=(route == 'factory'))
    prior = []
    for _ in range(int(rng.integers(0, 3))):         # what the session built before, same class
        psec, pfil = gen_section(rng, kind, n, False)
        if kind == 'tfile':                          # one scratch table per case: earlier sections read it their own way
            psec = {k_: v for k_, v in psec.items() if k_ not in ('skiprows', 'temp_col', 'press_col')}
            psec.update({k_: sec[k_] for k_ in ('skiprows',) if k_ in sec})
            if rng.random() < 0.5:
                psec['temp_col'] = 0
            if len(fil['lines'][-1].split()) == 2 and rng.random() < 0.7:
                psec['temp_col'], psec['press_col'] = (1, 0) if rng.random() < 0.5 else (0, 1)
        prior.append(psec)
    return dict(route=route, kind=kind, pressure=gen_pressure(rng, n), planet=gen_planet(rng), section=sec, prior=prior,
                file=fil, zero_quota=bool(zero_quota))


def par_value(v):
    if isinstance(v, bool):
        return 'True' if v else 'False'
    if isinstance(v, (list, tuple)):
        return ', '.join(repr(float(x)) for x in v) + (',' if len(v) < 2 else '')
    if isinstance(v, str):
        return v
    return repr(v)


def build_from_section(kind, sec, route, workdir, tag):
    """the real route: a dict handed to create_temperature_profile, or a .par file read by ParameterParser"""
    sec = {k_: (os.path.join(workdir, 'tp.dat') if v == '@file' else v) for k_, v in sec.items()}
    if route == 'factory':
        from taurex.parameter.factory import create_temperature_profile
        cfg = {'profile_type': FACTORY[kind]}
        for k_, v in sec.items():
            cfg[k_] = list(v) if isinstance(v, list) else v
        return create_temperature_profile(cfg)
    from taurex.parameter import ParameterParser
    fn = os.path.join(workdir, 'in_%s.par' % tag)
    with open(fn, 'w') as fh:
        fh.write('[Temperature]\nprofile_type = %s\n' % FACTORY[kind])
        for k_, v in sec.items():
            fh.write('%s = %s\n' % (k_, par_value(v)))
    pp = ParameterParser()
    pp.read(fn)
    return pp.generate_temperature_profile()


def resolve_by_model(ctx, kind, sections):
    """Section.session on opaque tokens: for every section the constructor's keyword arguments as (name, source) with source
    'd' (the constructor default) or the index of the section the value comes from"""
    defaults = ctor_defaults(kind)
    enc_d = C.N(len(defaults)) + ''.join(' %s d:%s' % (n_, n_) for n_, _ in defaults)
    enc_s = C.N(len(sections))
    for i, sec in enumerate(sections):
        enc_s += ' ' + C.N(len(sec)) + ''.join(' %s %d:%s' % (k_, i, k_) for k_ in sec)
    d = ctx.model().call('c12.section', enc_d, enc_s)
    out = []
    nsec = d.nat()
    for i in range(nsec):
        if d.nat() == 0:
            out.append(None)
            continue
        toks = [d.tok() for _ in range(d.nat())]
        kw = {}
        for (n_, dv), t in zip(defaults, toks):
            src, name = t.split(':', 1)
            kw[n_] = dv if src == 'd' else sections[int(src)][name]
        out.append(kw)
    return out


def case_from_kwargs(c, kw):
    """the directly-constructed case that has the keyword arguments `kw` (the format judge / run_model understand)"""
    kind = c['kind']
    e = dict(kind=kind, route=c['route'], pressure=c['pressure'], planet=c['planet'], sub='section')
    if kind == 'guillot':
        e['params'] = {k_: float(kw[k_]) for k_ in ('T_irr', 'kappa_irr', 'kappa_v1', 'kappa_v2', 'alpha', 'T_int')}
    elif kind == 'npoint':
        for k_ in ('T_surface', 'T_top', 'P_surface', 'P_top', 'smoothing_window', 'limit_slope'):
            e[k_] = kw[k_]
        e['temperature_points'] = list(kw['temperature_points'])
        e['pressure_points'] = list(kw['pressure_points'])
    elif kind == 'iso':
        e['T'] = float(kw['T'])
    elif kind == 'rodgers':
        e.update(temperature_layers=list(kw['temperature_layers']), correlation_length=float(kw['correlation_length']),
                 covariance=None, sub='default')
    elif kind == 'tarray':
        e.update(tp_array=list(kw['tp_array']), p_points=None if kw['p_points'] is None else list(kw['p_points']),
                 reverse=bool(kw['reverse']), sub='section-plain' if kw['p_points'] is None else 'section-pressure')
    else:
        rows = [ln.split() for ln in c['file']['lines'][int(kw['skiprows']):] if not ln.startswith('#')]
        tcol = [float(r[int(kw['temp_col'])]) for r in rows]
        pcol = None
        if kw['press_col'] is not None:
            fac = 1.0 if kw['press_units'] == 'Pa' else 1e5
            pcol = [float(r[int(kw['press_col'])]) * fac for r in rows]
        e.update(tp_array=tcol, p_points=pcol, tfile_pp=pcol, reverse=False,
                 sub='section-plain' if pcol is None else 'section-pressure')
    return e


def eval_factory_case(ctx, c):
    from taurex.data.planet import Planet
    from taurex.exceptions import InvalidModelException
    quiet()
    kind, route = c['kind'], c['route']
    sections = [dict(x) for x in c['prior']] + [dict(c['section'])]
    if route == 'parfile':       # a .par file cannot say None; numbers arrive as floats
        sections = [{k_: v for k_, v in sec.items() if v is not None} for sec in sections]
    resolved = resolve_by_model(ctx, kind, sections)
    kw = resolved[-1]
    if kw is None:
        ctx.malformed_outcome('section:unknown-keyword')
        return
    P = make_pressure(c['pressure'])
    planet = Planet(planet_mass=c['planet']['mass'], planet_radius=c['planet']['radius'])
    workdir = tempfile.mkdtemp(prefix='verif_c12_')
    tp = None
    try:
        if c.get('file'):
            with open(os.path.join(workdir, 'tp.dat'), 'w') as fh:
                fh.write('\n'.join(c['file']['lines']) + '\n')
        for i, sec in enumerate(sections[:-1]):      # the session so far; whatever it built is dropped
            try:
                build_from_section(kind, sec, route, workdir, 'p%d' % i)
            except Exception:  # noqa
                ctx.bucket('section:prior-rejected')
        try:
            tp = build_from_section(kind, sections[-1], route, workdir, 'x')
            tp.initialize_profile(planet, len(P), P)
            prof = np.array(tp.profile, dtype=float)
            out = 'ok'
        except InvalidModelException:
            out, prof = 'invalid', None
        except Exception as e_:
            out, prof = 'error:' + type(e_).__name__, None
    finally:
        shutil.rmtree(workdir, ignore_errors=True)
    ctx.bucket('section:%s:prior=%d' % (route, len(sections) - 1))
    omitted = [n_ for n_, _ in ctor_defaults(kind) if n_ not in sections[-1]]
    inherited = [n_ for n_ in omitted if any(n_ in sec for sec in sections[:-1])]
    ctx.bucket('section:omits-a-keyword-an-earlier-section-set' if inherited else 'section:no-earlier-value-to-inherit')
    dflt = dict(ctor_defaults(kind))
    falsy = [n_ for n_, v in sections[-1].items() if isinstance(v, (int, float, list)) and not isinstance(v, bool)
             and not v and v != dflt.get(n_)]
    if falsy:
        ctx.bucket('section:explicit-zero-or-empty:' + kind)
    e = case_from_kwargs(c, kw)
    judge(ctx, e, dict(c), None, given=(P, out, prof, planet, tp))


# --------------------------------------------------------------------------------------- route: forward model
# The profile as a forward model hands it out: SimpleForwardModel.initialize_profiles gives the temperature profile the planet,
# the layer count and the layer pressures of the CURRENT evaluation.  One model object, a history of evaluations between which
# the pressure range (atm_min_pressure / atm_max_pressure), the planet radius or the profile's own parameters are changed through
# the model's fitting parameters; after every evaluation `model.temperatureProfile` is judged for the current parameters on
# `model.pressureProfile`.
FM_KINDS = ['guillot', 'npoint', 'guillot', 'tarray', 'iso', 'rodgers', 'guillot', 'npoint']


def gen_fm_case(rng, k):
    kind = FM_KINDS[k % len(FM_KINDS)]
    while True:
        base = dict(guillot=gen_guillot, npoint=gen_npoint, rodgers=gen_rodgers, tarray=gen_tarray)[kind](rng) \
            if kind != 'iso' else dict(kind='iso', pressure=gen_pressure(rng, gen_nlayers(rng)), planet=gen_planet(rng),
                                       T=float(rng.uniform(10, 5000)))
        n = base['pressure']['n']
        if n <= 60:
            break
    pmin, pmax = float(10 ** rng.uniform(-6, -1)), float(10 ** rng.uniform(3, 7))
    base['pressure'] = dict(type='simple', pmin=pmin, pmax=pmax, n=n)
    steps = []
    for i in range(int(rng.integers(1, 5))):
        st = {}
        r = rng.random()
        if i == 0 or r < 0.55:           # the pressure range moves (the first change always does)
            which = int(rng.integers(0, 3))
            if which in (0, 2):
                pmax = float(pmax * 10 ** rng.uniform(-2, 1.5))
                st['atm_max_pressure'] = pmax
            if which in (1, 2):
                pmin = float(min(pmin * 10 ** rng.uniform(-1.5, 2), pmax * 1e-2))
                st['atm_min_pressure'] = pmin
        elif r < 0.7:
            st['planet_radius'] = float(rng.uniform(0.1, 3.0))
        elif r < 0.9 and kind in ('iso', 'npoint', 'rodgers', 'guillot'):
            st['profile'] = gen_update(rng, base)
        steps.append(st)                 # {} = evaluated again with nothing changed
    base.update(route='fm', steps=steps)
    return base


def eval_fm_case(ctx, c):
    import copy
    from taurex.model import TransmissionModel
    from taurex.data.planet import Planet
    from taurex.data.profiles.chemistry import TaurexChemistry, ConstantGas
    from taurex.exceptions import InvalidModelException
    quiet()
    cur = copy.deepcopy({k_: v for k_, v in c.items() if k_ != 'steps'})
    P0 = make_pressure(cur['pressure'])
    _, _, _, tp = run_real(dict(cur, kind=c['kind']), P0) if c['kind'] != 'tfile' else (None, None, None, None)
    if tp is None:
        ctx.malformed_outcome('fm:profile-constructor-raised')
        return
    ps = cur['pressure']
    chem = TaurexChemistry(fill_gases=['H2', 'He'], ratio=0.17)
    chem.addGas(ConstantGas('N2', mix_ratio=1e-4))
    fm = TransmissionModel(planet=Planet(planet_mass=cur['planet']['mass'], planet_radius=cur['planet']['radius']),
                           temperature_profile=tp, chemistry=chem, nlayers=ps['n'], atm_min_pressure=ps['pmin'],
                           atm_max_pressure=ps['pmax'])

    def evaluate(first):
        try:
            if first:
                fm.build()
            else:
                fm.initialize_profiles()
            return 'ok', np.array(fm.temperatureProfile, dtype=float)
        except InvalidModelException:
            return 'invalid', None
        except Exception as e_:
            return 'error:' + type(e_).__name__, None
    for i in range(len(c['steps']) + 1):
        if i > 0:
            st = c['steps'][i - 1]
            for name in ('atm_max_pressure', 'atm_min_pressure', 'planet_radius'):
                if name in st:
                    fm[name] = st[name]
                    ctx.bucket('fm:step:' + name)
            if 'atm_max_pressure' in st:
                cur['pressure']['pmax'] = st['atm_max_pressure']
            if 'atm_min_pressure' in st:
                cur['pressure']['pmin'] = st['atm_min_pressure']
            if 'planet_radius' in st:
                cur['planet']['radius'] = st['planet_radius']
            for u in st.get('profile') or []:
                fm[u['param']] = u['value']
                t = u['target']
                if len(t) == 1:
                    cur[t[0]] = u['value']
                else:
                    cur[t[0]][t[1] if isinstance(cur[t[0]], dict) else int(t[1])] = u['value']
                ctx.bucket('fm:step:profile-parameter')
            if not st:
                ctx.bucket('fm:step:nothing-changed')
        out, prof = evaluate(i == 0)
        if i == 0 and out.startswith('error'):
            ctx.malformed_outcome('fm:build-raised:' + out)
            return
        P = np.array(fm.pressureProfile, dtype=float)
        e = dict(cur)
        judge(ctx, e, dict(c, phase='after %d step(s)' % i, steps=c['steps'][:i]), None,
              given=(P, out, prof, fm.planet, tp))


# --------------------------------------------------------------------------------------- route: scaling mixin
# The built-in temperature mixin TempScaler (`profile_type = tempscalar+<type>` in an input file, enhance_class(<class>,
# TempScaler, ...) in a script) wraps ANY profile class: its .profile is the wrapped class's profile times `scale_factor`.  A
# forward model, a sampler's likelihood and the output stage each evaluate .profile, so one object is asked many times per
# parameter set.  One case = one wrapped object, 2-4 evaluations (the scale factor optionally rewritten through the fitting
# parameter T_scale after the first), each compared with Temperature.tempScaler over the model of the wrapped class and
# judged; then the wrapped class's OWN profile is read on the same object and judged like a directly constructed profile.
MIXIN_KINDS = ['tarray_same', 'tfile_same', 'npoint', 'tarray_same', 'iso', 'guillot', 'tarray', 'rodgers', 'tfile',
               'tfile_same', 'npoint_bad', 'guillot_bad']


def gen_mixin_case(rng, k):
    kind = MIXIN_KINDS[k % len(MIXIN_KINDS)]
    if kind in ('tarray_same', 'tfile_same'):
        # the stored table IS the profile: one temperature per layer, no pressure points
        c = gen_tarray(rng, as_file=(kind == 'tfile_same'))
        n = c['pressure']['n']
        c['tp_array'] = [float(rng.uniform(100, 3000))] * n if rng.random() < 0.15 else \
            [float(x) for x in rng.uniform(50, 4000, size=n)]
        c['p_points'] = None
        c['sub'] = 'plain-same'
    elif kind == 'iso':
        n = gen_nlayers(rng)
        c = dict(kind='iso', pressure=gen_pressure(rng, n), planet=gen_planet(rng), T=float(rng.uniform(10, 5000)))
    else:
        c = dict(npoint=gen_npoint, npoint_bad=lambda r: gen_npoint(r, bad=True), guillot=gen_guillot,
                 guillot_bad=lambda r: gen_guillot(r, bad=True), tarray=gen_tarray, rodgers=gen_rodgers,
                 tfile=lambda r: gen_tarray(r, as_file=True))[kind](rng)
    r = rng.random()
    scale = 1.0 if r < 0.1 else float(rng.uniform(0.3, 0.98)) if r < 0.5 else float(rng.uniform(1.02, 2.5))
    rescale = None
    if rng.random() < 0.3:
        rescale = float(rng.uniform(0.3, 2.5))
    via = 'factory' if (c['kind'] != 'tarray' and k % 2 == 1) else 'enhance'
    c.update(route='mixin', scale=scale, rescale=rescale, reads=int(rng.integers(2, 5)), via=via)
    return c


def mixin_kwargs(c, workdir):
    """the wrapped class's constructor arguments, all given explicitly"""
    kind = c['kind']
    if kind == 'iso':
        return dict(T=c['T'])
    if kind == 'npoint':
        return dict(T_surface=c['T_surface'], T_top=c['T_top'], P_surface=c['P_surface'], P_top=c['P_top'],
                    temperature_points=list(c['temperature_points']), pressure_points=list(c['pressure_points']),
                    smoothing_window=c['smoothing_window'], limit_slope=c['limit_slope'])
    if kind == 'rodgers':
        return dict(temperature_layers=list(c['temperature_layers']), correlation_length=c['correlation_length'],
                    covariance_matrix=None if c['covariance'] is None else np.asarray(c['covariance'], float))
    if kind == 'tarray':
        return dict(tp_array=list(c['tp_array']), p_points=c['p_points'], reverse=c['reverse'])
    if kind == 'guillot':
        return dict(c['params'])
    fn = os.path.join(workdir, 'tp.dat')
    conv = 1.0 if c.get('press_units', 'Pa') == 'Pa' else 1e-5
    with open(fn, 'w') as fh:
        fh.write('# T P\n')
        for i, t in enumerate(c['tp_array']):
            if c['p_points'] is None:
                fh.write('%r\n' % float(t))
            else:
                fh.write('%r %r\n' % (float(t), float(c['p_points'][i]) * conv))
    return dict(filename=fn, skiprows=1, temp_col=0, press_col=None if c['p_points'] is None else 1,
                press_units=c.get('press_units', 'Pa'))


def controls_of(c, P):
    """the control temperatures whose range bounds the profile of case `c`, or None where the property names none"""
    kind, sub = c['kind'], c.get('sub', '')
    if kind == 'iso':
        return [c['T']]
    if kind == 'npoint':
        return npoint_nodes(c, P)[1]
    if kind == 'rodgers' and sub != 'user-nonsymmetric':
        return c['temperature_layers']
    if kind in ('tarray', 'tfile'):
        return c['tp_array']
    return None


def eval_mixin_case(ctx, c):
    from taurex.data.planet import Planet
    from taurex.exceptions import InvalidModelException
    from taurex.mixin import enhance_class
    from taurex.mixin.mixins import TempScaler
    quiet()
    kind = c['kind']
    base_klass = factory_class(kind)
    P = make_pressure(c['pressure'])
    n = len(P)
    planet = Planet(planet_mass=c['planet']['mass'], planet_radius=c['planet']['radius'])
    small = dict(c)
    plain = {k_: v for k_, v in c.items() if k_ not in ('route', 'scale', 'rescale', 'reads', 'via')}
    tfile_pp = None
    if kind == 'tfile' and c['p_points'] is not None:
        conv = 1.0 if c.get('press_units', 'Pa') == 'Pa' else 1e-5
        fac = 1.0 if conv == 1.0 else 1e5
        tfile_pp = [float(float(repr(float(p) * conv)) * fac) for p in c['p_points']]
        plain['tfile_pp'] = tfile_pp
    out_m, prof_m = run_model(ctx, plain, P, planet, tfile_pp)
    workdir = tempfile.mkdtemp(prefix='verif_c12_')
    init_rejected = False
    try:
        try:
            kw = mixin_kwargs(c, workdir)
            if c['via'] == 'factory':
                from taurex.parameter.factory import create_temperature_profile
                tp = create_temperature_profile(dict(kw, profile_type='tempscalar+' + FACTORY[kind],
                                                     scale_factor=c['scale']))
            else:
                tp = enhance_class(base_klass, TempScaler, scale_factor=c['scale'], **kw)
        except InvalidModelException:
            # rejected as an invalid model by the constructor (Guillot checks its values there): what the model must say too
            ctx.case(key=(kind, c.get('sub', ''), n, 'invalid', 'mixin', 'constructor'), bucket='route:mixin:rejected-by-constructor',
                     sample=dict(kind=kind, nlayers=n, outcome='invalid'))
            ctx.check_eq('tempscalar+' + kind + ' outcome (ok / invalid / error) vs model', 'invalid', out_m, small)
            if kind == 'guillot' and guillot_expect(c['params']) == 'ok':
                ctx.violation('guillot-valid-raises@mixin', 'admissible Guillot parameters rejected when wrapped in the scaling '
                              'mixin', small)
            return
        except Exception as e_:
            ctx.violation('mixin-raises:' + kind, 'constructing the scaled profile (%s) raised %r on a valid input'
                          % (c['via'], e_), small)
            return
        try:
            tp.initialize_profile(planet, n, P)
        except InvalidModelException:
            init_rejected = True             # a parameter set rejected when the profile is initialised (Guillot)
        except Exception as e_:
            ctx.violation('mixin-raises:' + kind, 'initialising the scaled profile (%s) raised %r on a valid input'
                          % (c['via'], e_), small)
            return
    finally:
        shutil.rmtree(workdir, ignore_errors=True)
    if not (isinstance(tp, TempScaler) and isinstance(tp, base_klass)):
        ctx.violation('mixin-class:' + kind, 'tempscalar+%s did not give a %s wrapped in TempScaler' % (kind, base_klass.__name__),
                      small, dict(got=type(tp).__name__))
        return
    ctrl = controls_of(plain, P)
    sub = c.get('sub', '')
    key = 'tempscalar+' + kind + (':' + sub if sub else '')
    ctx.bucket('mixin:via:' + c['via'])
    ctx.bucket('mixin:kind:' + kind + ('/' + sub if sub else ''))
    ctx.bucket('mixin:scale:' + ('1' if c['scale'] == 1.0 else '<1' if c['scale'] < 1 else '>1'))
    scale = float(c['scale'])
    for r in range(int(c['reads'])):
        if r == 1 and c.get('rescale') is not None:
            tp.fitting_parameters()['T_scale'][3](float(c['rescale']))
            scale = float(c['rescale'])
            ctx.bucket('mixin:T_scale-rewritten-between-evaluations')
        try:
            if init_rejected:
                raise InvalidModelException('rejected by initialize_profile')
            prof = np.array(tp.profile, dtype=float)
            out = 'ok'
        except InvalidModelException:
            out, prof = 'invalid', None
        except Exception as e_:
            out, prof = 'error:' + type(e_).__name__, None
        nonconst = prof is not None and len(prof) > 1 and float(np.nanmax(prof)) > float(np.nanmin(prof))
        ctx.case(key=(kind, sub, n, out, 'mixin', r) if (nonconst or out != 'ok') else None,
                 sample=dict(kind=kind, sub=sub, nlayers=n, outcome=out, evaluation=r + 1, scale=scale,
                             impl=None if prof is None else prof[:3]), bucket='route:mixin:evaluation-%d' % (r + 1))
        ev = dict(small, evaluation=r + 1)
        ctx.check_eq('tempscalar+' + kind + ' outcome (ok / invalid / error) vs model', out.split(':')[0], out_m, ev)
        if out != 'ok' or out_m != 'ok':
            if out.startswith('error'):
                ctx.violation(key + '-raises', 'evaluation %d of the scaled profile raised (%s)' % (r + 1, out), ev)
            break
        d = ctx.model().call('c12.scale', C.F(scale), C.L(prof_m))
        rel = 1e-10
        if kind == 'guillot':
            q = c['params']
            rel = 1e-10 + 1e-15 / min(abs(q['kappa_v1'] / q['kappa_irr']), abs(q['kappa_v2'] / q['kappa_irr']))
        ctx.check_close('tempscalar+%s .profile vs Temperature.tempScaler over the model of the wrapped class' % kind, prof,
                        d.list(), ev, rel=rel, abs_=0.0 if kind != 'guillot' else 1e-9)
        if len(prof) != n:
            ctx.violation(key + '-length', 'scaled profile has %d values for %d layers' % (len(prof), n), ev)
            break
        judged_positive = True
        if kind == 'guillot':
            q = c['params']
            judged_positive = (q['kappa_irr'] > 0 and q['kappa_v1'] > 0 and q['kappa_v2'] > 0 and 0 <= q['alpha'] <= 1
                               and q['T_irr'] >= 0 and q['T_int'] >= 0) and (q['T_irr'] > 0 or q['T_int'] > 0)
        if kind == 'rodgers' and sub == 'user-nonsymmetric':
            judged_positive = False
        if judged_positive and (not np.all(np.isfinite(prof)) or not np.all(prof > 0)):
            ctx.violation(key + '-nonfinite-or-nonpositive', 'scaled temperature not finite / not positive', ev,
                          dict(profile=prof[:5]))
            break
        if ctrl is not None:
            lo, hi = min(ctrl) * scale, max(ctrl) * scale
            slack = 1e-10 * hi
            if prof.min() < lo - slack or prof.max() > hi + slack:
                ctx.violation(key + '-out-of-range', 'evaluation %d of the scaled profile leaves the range of its control '
                              'temperatures times the scale factor' % (r + 1), ev,
                              dict(scale=scale, lo=lo, hi=hi, min=float(prof.min()), max=float(prof.max())))
                break
            if lo == hi and not C.close(prof, [lo] * n, rel=1e-10):
                ctx.violation(key + '-not-constant', 'equal control temperatures do not give a constant scaled profile', ev)
                break
    # the wrapped class's own profile on the same object, after the evaluations above: judged as a direct profile
    try:
        if init_rejected:
            raise InvalidModelException('rejected by initialize_profile')
        base_prof = np.array(base_klass.profile.fget(tp), dtype=float)
        out_b = 'ok'
    except InvalidModelException:
        out_b, base_prof = 'invalid', None
    except Exception as e_:
        out_b, base_prof = 'error:' + type(e_).__name__, None
    ctx.bucket('mixin:wrapped-profile-reread')
    judge(ctx, dict(plain, route='mixin'), dict(small, phase='wrapped class profile after the scaled evaluations'), None,
          given=(P, out_b, base_prof, planet, None))


# --------------------------------------------------------------------------------------- externals
def validate_externals(ctx):
    from taurex.util import movingaverage
    rng = ctx.rng
    m = ctx.model()
    # hypothesis of theorem guillot_positive on the external E2: 0 <= E2(x) <= exp(-x)/(1+x) for x >= 0
    import scipy.special as spe
    xs = np.concatenate([[0.0], 10 ** rng.uniform(-12, 3, size=ctx.n(400, 4000)), rng.uniform(0, 50, size=ctx.n(200, 2000))])
    e2 = spe.expn(2, xs)
    ub = np.exp(-xs) / (1 + xs)
    bad = ~((e2 >= 0) & (e2 <= ub * (1 + 1e-12) + 1e-300))
    ctx.bucket('external:expn2-bound')
    if np.any(bad):
        ctx.mismatch('scipy.special.expn(2, x) vs the assumed bound 0 <= E2(x) <= exp(-x)/(1+x)',
                     dict(x=xs[bad][:5]), dict(e2=e2[bad][:5], bound=ub[bad][:5]))
    for _ in range(ctx.n(60, 600)):
        k = int(rng.integers(1, 9))
        xp = np.sort(rng.choice(np.arange(0, 12.0), size=k, replace=True))       # ties allowed
        fp = rng.uniform(-5, 5, size=k)
        xs = np.concatenate([xp, xp + 0.5, [-1.0, 20.0], rng.uniform(-1, 13, size=4)])
        impl = np.interp(xs, xp, fp)
        mod = np.array(m.call('c12.interp', C.L(xp), C.L(fp), C.L(xs)).list())
        ctx.check_close('np.interp vs NpInterp.npInterp', impl, mod, dict(xp=xp, fp=fp, xs=xs), rel=1e-12, abs_=1e-13)
        ctx.bucket('external:np.interp')
    for _ in range(ctx.n(40, 300)):
        n = int(rng.integers(1, 200))
        a, b = (0.0, 1.0) if rng.random() < 0.5 else (1.0, 0.0)
        impl = np.linspace(a, b, n)
        mod = np.array(m.call('c12.linspace', C.F(a), C.F(b), C.N(n)).list())
        ctx.check_close('np.linspace vs NpInterp.linspace', impl, mod, dict(a=a, b=b, n=n), rel=0.0, abs_=0.0)
        ctx.bucket('external:np.linspace')
    for _ in range(ctx.n(60, 600)):
        n = int(rng.integers(1, 60))
        a = rng.uniform(-3000, 3000, size=n)
        w = int(rng.integers(1, n + 3))
        impl = movingaverage(a.copy(), w)
        mod = np.array(m.call('c12.movavg', C.L(a), C.N(w)).list())
        ctx.check_close('movingaverage vs NpInterp.movingAverage', impl, mod, dict(a=a, w=w), rel=1e-10, abs_=1e-9)
        ctx.bucket('external:movingaverage')
    for _ in range(ctx.n(100, 2000)):
        n = int(rng.integers(1, 300))
        w = gen_window(rng)
        ws = int(n * (w / 100.0))
        if ws % 2 == 0:
            ws += 1
        mod = m.call('c12.oddwindow', C.N(n), C.F(float(w))).nat()
        ctx.check_eq('odd window size vs NpInterp.oddWindow', ws, mod, dict(n=n, w=w))
        ctx.bucket('external:oddwindow')


def malformed(ctx):
    """outside the quantifier: recorded, never judged"""
    rng = ctx.rng
    quiet()
    for k in range(ctx.n(30, 300)):
        r = k % 6
        if r == 0:
            c = gen_npoint(rng)
            c['smoothing_window'] = float(rng.uniform(100.5, 400))
            tag = 'npoint-window>100'
        elif r == 1:
            c = gen_npoint(rng)
            c['P_top'] = 0.0
            tag = 'npoint-Ptop=0'
        elif r == 2:
            c = gen_rodgers(rng)
            c['temperature_layers'] = c['temperature_layers'][:-1]
            tag = 'rodgers-length-mismatch'
        elif r == 3:
            c = gen_rodgers(rng)
            c['correlation_length'] = 0.0
            c['covariance'] = None
            tag = 'rodgers-h=0'
        elif r == 4:
            c = gen_npoint(rng)
            c['T_surface'] = -abs(c['T_surface'])
            tag = 'npoint-negative-node-temperature'
        else:
            c = gen_guillot(rng)
            c['params']['kappa_irr'] = float('nan')
            tag = 'guillot-nan-opacity'
        P = make_pressure(c['pressure'])
        with np.errstate(all='ignore'):
            out, prof, _, _ = run_real(c, P)
        if out == 'ok':
            out = 'finite' if np.all(np.isfinite(prof)) else 'nonfinite'
        ctx.malformed_outcome(tag + ':' + out)


def run(ctx):
    quiet()
    validate_externals(ctx)
    n = ctx.n(7000, 160000)
    with np.errstate(all='ignore'):
        for k in range(n):
            eval_case(ctx, gen_case(ctx.rng, k))
        for k in range(ctx.n(720, 12000)):
            eval_case(ctx, gen_factory_case(ctx.rng, k))
        for k in range(ctx.n(320, 5000)):
            eval_case(ctx, gen_fm_case(ctx.rng, k))
        for k in range(ctx.n(360, 6000)):
            eval_case(ctx, gen_mixin_case(ctx.rng, k))
    malformed(ctx)


def replay(ctx, case):
    """one stored case: a bare case dict, a corpus entry {note, case} or a replay file written by main.py"""
    if case.get('kind') == 'unchecked-obligation':
        for m in case.get('first_disagreements', []):
            if isinstance(m.get('case'), dict) and 'pressure' in m['case']:
                replay(ctx, m['case'])
        return
    if isinstance(case.get('case'), dict) and 'pressure' not in case:
        case = case['case']
    case = {k: v for k, v in case.items() if k not in ('phase', 'name')}
    with np.errstate(all='ignore'):
        eval_case(ctx, case)
