"""C15 translator: regenerates lean/TaurexModel/Gen/Registry.lean and Gen/Docs.lean from the working tree
that `import taurex` resolves to (normally /repo; a PYTHONPATH copy is followed).

Registry.lean : per factory section the classes ClassFactory discovers (and the mixin classes), each with its
                input_keywords(), constructor parameter names, `get_keywordarg_dict` defaults (typed), **kwargs flag,
                mixin `__init_mixin__` parameters, `addGas` flag.
Docs.lean     : every selector keyword / class path / keyword-table key found in doc/source/user/taurex/*.rst.

Output is canonical (sorted, fixed formatting) and is written only when it differs from the file on disk.
"""
import os
import re
import sys
import types
import inspect
import decimal
import importlib
import pkgutil
import math
import warnings

VERIF = os.path.dirname(os.path.dirname(os.path.abspath(__file__)))
GEN = os.path.join(VERIF, 'lean', 'TaurexModel', 'Gen')


# ----------------------------------------------------------------------------- optional third-party samplers
def install_stubs():
    """pypolychord / dyPolyChord are optional and absent here; import stubs make the two Optimizer classes of the
    package importable so that ClassFactory discovers them as on a full installation (they are never run)."""
    def mod(name, **attrs):
        if name in sys.modules:
            return sys.modules[name]
        try:
            return importlib.import_module(name)
        except Exception:
            pass
        m = types.ModuleType(name)
        m.__dict__.update(attrs)
        m.__verif_stub__ = True
        sys.modules[name] = m
        return m

    class _Stub:
        def __init__(self, *a, **k):
            pass

    p = mod('pypolychord')
    if getattr(p, '__verif_stub__', False):
        p.__path__ = []
        p.settings = mod('pypolychord.settings', PolyChordSettings=_Stub)
        p.priors = mod('pypolychord.priors', UniformPrior=_Stub)
        p.run_polychord = lambda *a, **k: None
    d = mod('dyPolyChord')
    if getattr(d, '__verif_stub__', False):
        d.__path__ = []
        d.python_likelihoods = mod('dyPolyChord.python_likelihoods')
        d.python_priors = mod('dyPolyChord.python_priors')
        d.pypolychord_utils = mod('dyPolyChord.pypolychord_utils')
        d.run_dypolychord = lambda *a, **k: None


# section name -> (ClassFactory attribute, mixin attribute or None, base class getter)
SECTIONS = ['chemistry', 'contribution', 'gas', 'instrument', 'model', 'observation', 'optimizer', 'planet',
            'pressure', 'prior', 'star', 'temperature']

CF_ATTR = {
    'temperature': ('temperatureKlasses', 'temperatureMixinKlasses'),
    'chemistry': ('chemistryKlasses', 'chemistryMixinKlasses'),
    'gas': ('gasKlasses', 'gasMixinKlasses'),
    'pressure': ('pressureKlasses', 'pressureMixinKlasses'),
    'planet': ('planetKlasses', 'planetMixinKlasses'),
    'star': ('starKlasses', 'starMixinKlasses'),
    'instrument': ('instrumentKlasses', 'instrumentMixinKlasses'),
    'model': ('modelKlasses', 'modelMixinKlasses'),
    'contribution': ('contributionKlasses', 'contributionMixinKlasses'),
    'optimizer': ('optimizerKlasses', 'optimizerMixinKlasses'),
    'observation': ('observationKlasses', 'observationMixinKlasses'),
    'prior': ('priorKlasses', None),
}

# selector field of the input file -> factory section (profile_type is resolved by the documentation file)
FIELD_SEC = {'chemistry_type': 'chemistry', 'gas_type': 'gas', 'planet_type': 'planet', 'star_type': 'star',
             'model_type': 'model', 'optimizer': 'optimizer', 'instrument': 'instrument',
             'observation': 'observation'}
PROFILE_FILES = {'temperature.rst': 'temperature', 'pressure.rst': 'pressure'}


def bases():
    from taurex.temperature import TemperatureProfile
    from taurex.chemistry import Chemistry, Gas
    from taurex.pressure import PressureProfile
    from taurex.planet import BasePlanet
    from taurex.stellar import Star
    from taurex.instruments import Instrument
    from taurex.model import ForwardModel
    from taurex.contributions import Contribution
    from taurex.optimizer import Optimizer
    from taurex.spectrum import BaseSpectrum
    from taurex.core.priors import Prior
    return dict(temperature=TemperatureProfile, chemistry=Chemistry, gas=Gas, pressure=PressureProfile,
                planet=BasePlanet, star=Star, instrument=Instrument, model=ForwardModel,
                contribution=Contribution, optimizer=Optimizer, observation=BaseSpectrum, prior=Prior)


def class_path(c):
    return c.__module__ + '.' + c.__qualname__


def keywords_of(c):
    try:
        kw = c.input_keywords()
    except (NotImplementedError, AttributeError):
        return []
    except Exception:
        return []
    try:
        return [str(k) for k in kw]
    except Exception:
        return []


# ----------------------------------------------------------------------------- typed rendering of defaults
def scalar_of(v):
    """python default -> ('none',) | ('bool', b) | ('int', i) | ('dec', neg, mant, exp) | ('inf', neg) | ('nan',) |
    ('str', s)  or None when it is not a scalar"""
    if v is None:
        return ('none',)
    if isinstance(v, bool):
        return ('bool', bool(v))
    if isinstance(v, int):
        return ('int', int(v))
    try:
        import numpy as np
        if isinstance(v, np.bool_):
            return ('bool', bool(v))
        if isinstance(v, np.integer):
            return ('int', int(v))
        if isinstance(v, np.floating):
            v = float(v)
    except ImportError:
        pass
    if isinstance(v, float):
        if math.isnan(v):
            return ('nan',)
        if math.isinf(v):
            return ('inf', v < 0)
        sign, digits, exp = decimal.Decimal(repr(v)).as_tuple()
        mant = int(''.join(map(str, digits)))
        if mant == 0:
            exp = 0
        while mant and mant % 10 == 0:
            mant //= 10
            exp += 1
        return ('dec', bool(sign), mant, int(exp))
    if isinstance(v, str):
        return ('str', v)
    return None


def value_of(v):
    s = scalar_of(v)
    if s is not None:
        return ('scalar', s)
    if isinstance(v, (list, tuple)):
        ss = [scalar_of(x) for x in v]
        if all(x is not None for x in ss):
            return ('list', ss)
    r = repr(v)
    r = re.sub(r' at 0x[0-9a-fA-F]+', '', r)
    return ('other', r)


def klass_info(c, sec_bases):
    from taurex.parameter.factory import get_keywordarg_dict
    from taurex.mixin.core import Mixin, determine_mixin_args
    spec = inspect.getfullargspec(c.__init__)
    args = list(spec.args[1:]) + list(spec.kwonlyargs)
    ndef = len(spec.defaults) if spec.defaults else 0
    pos = list(spec.args[1:])
    required = pos[:len(pos) - ndef] if ndef <= len(pos) else []
    required += [a for a in spec.kwonlyargs if not (spec.kwonlydefaults and a in spec.kwonlydefaults)]
    kwargs = [(k, value_of(v)) for k, v in get_keywordarg_dict(c).items()]
    is_mixin = issubclass(c, Mixin)
    margs, mkw = [], []
    if is_mixin and hasattr(c, '__init_mixin__'):
        ms = inspect.getfullargspec(c.__init_mixin__)
        margs = list(ms.args[1:])
        mkw = [(k, value_of(v)) for k, v in determine_mixin_args((c,)).items()]
    return dict(path=class_path(c), name=c.__name__, keywords=keywords_of(c), args=args, required=required,
                kwargs=kwargs, varkw=spec.varkw is not None, isMixin=is_mixin, mixinArgs=margs, mixinKwargs=mkw,
                hasAddGas=hasattr(c, 'addGas'),
                sections=sorted(s for s, b in sec_bases.items() if issubclass(c, b)), cls=c)


def collect_registry():
    install_stubs()
    from taurex.parameter.classfactory import ClassFactory
    cf = ClassFactory()
    sb = bases()
    reg = {}
    for sec in SECTIONS:
        attr, mattr = CF_ATTR[sec]
        classes = sorted((klass_info(c, sb) for c in getattr(cf, attr)), key=lambda k: k['path'])
        mixins = sorted((klass_info(c, sb) for c in (getattr(cf, mattr) if mattr else [])), key=lambda k: k['path'])
        reg[sec] = dict(classes=classes, mixins=mixins)
    return reg


def package_classes():
    """every class defined anywhere in the taurex package (modules that fail to import are skipped)"""
    install_stubs()
    import taurex
    seen = {}
    for m in pkgutil.walk_packages(taurex.__path__, 'taurex.'):
        if m.name.startswith('taurex.plot'):
            continue
        try:
            mod = importlib.import_module(m.name)
        except BaseException:
            continue
        for _, c in inspect.getmembers(mod, inspect.isclass):
            if c.__module__.startswith('taurex'):
                seen[class_path(c)] = c
    return seen


def repo_root():
    import taurex
    return os.path.dirname(os.path.dirname(os.path.abspath(taurex.__file__)))


# ----------------------------------------------------------------------------- documentation
def resolve_class(path):
    """documented dotted path -> canonical module.qualname of the class it names, or None"""
    parts = path.lstrip('~').split('.')
    for i in range(len(parts), 0, -1):
        try:
            obj = importlib.import_module('.'.join(parts[:i]))
        except BaseException:
            continue
        try:
            for p in parts[i:]:
                obj = getattr(obj, p)
        except AttributeError:
            return None
        return class_path(obj) if inspect.isclass(obj) else None
    return None


INLINE = re.compile(r'``\s*(\w+)\s*=\s*([^`\s]+)\s*``')
CODE = re.compile(r'``([^`]+)``')
BULLET = re.compile(r'^(\s*)- ``([^`]+)``\s*$')
CLASSREF = re.compile(r':class:`~?([\w.]+)`')
CONTRIB = re.compile(r'``\[\[(\w+)\]\]``')
ROWKEY = re.compile(r'^\|\s*``([^`]+)``\s*\|')
UNDERLINE = re.compile(r'^([=\-~*^#+"])\1{2,}\s*$')
SUBTITLES = {'keywords', 'fitting parameters', 'examples', 'example'}
PRIORCALL = re.compile(r'"(\w+)\(')


def parse_docs(docdir):
    """returns (selectors, keys, dangling):
       selectors: list of dict(sec, keyword, cls_written, file, line)
       keys: list of dict(sec, keyword, key, file, line)"""
    sels, keys = [], []
    if not os.path.isdir(docdir):
        return sels, keys
    for fn in sorted(os.listdir(docdir)):
        if not fn.endswith('.rst'):
            continue
        lines = open(os.path.join(docdir, fn), encoding='utf-8').read().split('\n')

        def sec_of(field):
            if field == 'profile_type':
                return PROFILE_FILES.get(fn)
            return FIELD_SEC.get(field)

        file_class = None
        for ln in lines:
            if ln.startswith(':Class:'):
                m = CLASSREF.search(ln)
                if m:
                    file_class = m.group(1)
        # titles: a line followed by an underline
        title_at = {}
        for i in range(len(lines) - 1):
            if lines[i].strip() and UNDERLINE.match(lines[i + 1]) and not UNDERLINE.match(lines[i]):
                title_at[i] = lines[i].strip().strip('`').strip()
        current = []          # selectors (sec, keyword) of the current component heading
        in_keywords = False
        i = 0
        n = len(lines)
        while i < n:
            ln = lines[i]
            if ln.startswith('..'):
                i += 1
                continue
            if i in title_at:
                t = title_at[i].lower()
                if t in SUBTITLES:
                    in_keywords = (t == 'keywords')
                else:
                    in_keywords = False
                    # a new component heading starts a new selector group (the page title does not)
                    if i > 3:
                        current = []
                i += 2
                continue
            mb = BULLET.match(ln)
            if mb and sels is not None:
                # bullet list of selectors: the field is the last known field named just above the list
                field = None
                j = i - 1
                seen = 0
                while j >= 0 and seen < 3:
                    if lines[j].strip():
                        seen += 1
                        cands = [c for c in CODE.findall(lines[j]) if sec_of(c.strip()) is not None]
                        if cands:
                            field = cands[-1].strip()
                            break
                        if BULLET.match(lines[j]):
                            break
                    j -= 1
                indent = len(mb.group(1))
                if field is not None:
                    sec = sec_of(field)
                    while i < n:
                        m2 = BULLET.match(lines[i])
                        if m2 and len(m2.group(1)) == indent:
                            kw = m2.group(2).strip()
                            line_no = i + 1
                            cls = None
                            i += 1
                            while i < n and (not lines[i].strip() or
                                             len(lines[i]) - len(lines[i].lstrip()) > indent):
                                mc = CLASSREF.search(lines[i])
                                if mc and cls is None:
                                    cls = mc.group(1)
                                i += 1
                            if kw.lower() != 'custom':
                                sels.append(dict(sec=sec, keyword=kw, cls_written=cls, file=fn, line=line_no))
                        else:
                            break
                    continue
            for m in INLINE.finditer(ln):
                sec = sec_of(m.group(1))
                kw = m.group(2)
                if sec is None or kw.lower() == 'custom':
                    continue
                sels.append(dict(sec=sec, keyword=kw, cls_written=file_class, file=fn, line=i + 1))
                if (sec, kw) not in current:
                    current.append((sec, kw))
            if fn == 'models.rst':
                for m in CONTRIB.finditer(ln):
                    sels.append(dict(sec='contribution', keyword=m.group(1), cls_written=None, file=fn, line=i + 1))
                    if ('contribution', m.group(1)) not in current:
                        current.append(('contribution', m.group(1)))
            if fn == 'fitting.rst':
                for m in PRIORCALL.finditer(ln):
                    sels.append(dict(sec='prior', keyword=m.group(1), cls_written=None, file=fn, line=i + 1))
            if in_keywords:
                mk = ROWKEY.match(ln)
                if mk:
                    key = mk.group(1).strip()
                    if fn == 'observation.rst':
                        keys.append(dict(sec='observation', keyword='', key=key, file=fn, line=i + 1))
                    for sec, kw in current:
                        keys.append(dict(sec=sec, keyword=kw, key=key, file=fn, line=i + 1))
            i += 1
    return sels, keys


def collect_docs(reg=None):
    install_stubs()
    root = repo_root()
    docdir = os.path.join(root, 'doc', 'source', 'user', 'taurex')
    sels, keys = parse_docs(docdir)
    sb = bases()
    pk = package_classes()
    claims = {}
    for p, c in pk.items():
        for sec, b in sb.items():
            if sec == 'prior':
                continue
            try:
                if issubclass(c, b) and c is not b:
                    for kw in keywords_of(c):
                        claims.setdefault((sec, kw), set()).add(p)
            except TypeError:
                pass
        if issubclass(c, sb['prior']) and c is not sb['prior']:
            for kw in (c.__name__, c.__name__.lower(), c.__name__.upper()):
                claims.setdefault(('prior', kw), set()).add(p)
    # merge duplicates: one entry per (sec, keyword); a class path wins over none
    merged = {}
    dangling = []
    for s in sels:
        k = (s['sec'], s['keyword'])
        cls = None
        if s['cls_written']:
            cls = resolve_class(s['cls_written'])
            if cls is None:
                dangling.append((s['sec'], s['keyword'], s['cls_written'], s['file'], s['line']))
        e = merged.setdefault(k, dict(sec=s['sec'], keyword=s['keyword'], cls=None, where=[]))
        if cls is not None and e['cls'] is None:
            e['cls'] = cls
        e['where'].append('%s:%d' % (s['file'], s['line']))
    for k, e in merged.items():
        e['inPackage'] = bool(claims.get(k)) or (e['cls'] is not None)
        e['claimed_by'] = sorted(claims.get(k, []))
    sel_list = [merged[k] for k in sorted(merged)]
    kmerged = {}
    for d in keys:
        k = (d['sec'], d['keyword'], d['key'])
        e = kmerged.setdefault(k, dict(sec=d['sec'], keyword=d['keyword'], key=d['key'], where=[]))
        e['where'].append('%s:%d' % (d['file'], d['line']))
    key_list = []
    dropped = []
    for k in sorted(kmerged):
        e = kmerged[k]
        if e['keyword'] == '' or merged.get((e['sec'], e['keyword']), {}).get('inPackage'):
            key_list.append(e)
        else:
            dropped.append(e)
    return dict(selectors=sel_list, keys=key_list, dangling=sorted(set(dangling)), dropped_keys=dropped,
                docdir=docdir)


# ----------------------------------------------------------------------------- Lean rendering
def lstr(s):
    out = ['"']
    for ch in s:
        o = ord(ch)
        if ch == '"':
            out.append('\\"')
        elif ch == '\\':
            out.append('\\\\')
        elif ch == '\n':
            out.append('\\n')
        elif ch == '\t':
            out.append('\\t')
        elif o < 32 or o == 127:
            out.append('\\x%02x' % o)
        else:
            out.append(ch)
    out.append('"')
    return ''.join(out)


def lint(i):
    return '(%d)' % i if i < 0 else '%d' % i


def lscalar(s):
    t = s[0]
    if t == 'none':
        return '.none'
    if t == 'bool':
        return '.bool %s' % ('true' if s[1] else 'false')
    if t == 'int':
        return '.int %s' % lint(s[1])
    if t == 'dec':
        return '.dec %s %d %s' % ('true' if s[1] else 'false', s[2], lint(s[3]))
    if t == 'inf':
        return '.inf %s' % ('true' if s[1] else 'false')
    if t == 'nan':
        return '.nan'
    return '.str %s' % lstr(s[1])


def lvalue(v):
    if v[0] == 'scalar':
        return '.scalar (%s)' % lscalar(v[1])
    if v[0] == 'list':
        return '.list [%s]' % ', '.join(lscalar(s) for s in v[1])
    return '.other %s' % lstr(v[1])


def lstrs(xs):
    return '[%s]' % ', '.join(lstr(x) for x in xs)


def lconfig(kv):
    return '[%s]' % ', '.join('(%s, %s)' % (lstr(k), lvalue(v)) for k, v in kv)


def lklass(k):
    return ('  { path := %s,\n    name := %s, keywords := %s,\n    args := %s,\n    required := %s,\n'
            '    kwargs := %s,\n    varkw := %s, isMixin := %s, mixinArgs := %s,\n    mixinKwargs := %s,\n'
            '    hasAddGas := %s, sections := %s }') % (
        lstr(k['path']), lstr(k['name']), lstrs(k['keywords']), lstrs(k['args']), lstrs(k['required']),
        lconfig(k['kwargs']), 'true' if k['varkw'] else 'false', 'true' if k['isMixin'] else 'false',
        lstrs(k['mixinArgs']), lconfig(k['mixinKwargs']), 'true' if k['hasAddGas'] else 'false',
        lstrs(k['sections']))


def render_registry(reg):
    out = ['/-  GENERATED by harness/gen_registry.py from the `taurex` package that `import taurex` resolves to.',
           '    Do not edit: regenerated (and compared) on every `./check C15`.  -/',
           'import TaurexModel.Factory', '', 'namespace Taurex.Gen.Registry', 'open Taurex.Factory', '']
    for sec in SECTIONS:
        for part in ('classes', 'mixins'):
            ks = reg[sec][part]
            out.append('def %s_%s : List Klass := [' % (sec, part) + ('' if ks else ']'))
            if ks:
                out.append(',\n'.join(lklass(k) for k in ks))
                out.append(']')
            out.append('')
    out.append('/-- section name → classes discovered by `ClassFactory` (sets in Python: the order here is canonical) -/')
    out.append('def registry : Registry := [')
    out.append(',\n'.join('  (%s, { classes := %s_classes, mixins := %s_mixins })' % (lstr(s), s, s)
                          for s in SECTIONS))
    out.append(']')
    out.append('')
    out.append('def sectionNames : List String := %s' % lstrs(SECTIONS))
    out.append('')
    out.append('end Taurex.Gen.Registry')
    return '\n'.join(out) + '\n'


def render_docs(docs):
    out = ['/-  GENERATED by harness/gen_registry.py from doc/source/user/taurex/*.rst of the tree that `import taurex`',
           '    resolves to.  Do not edit: regenerated (and compared) on every `./check C15`.  -/',
           'import TaurexModel.Factory', '', 'namespace Taurex.Gen.Docs', 'open Taurex.Factory', '',
           '/-- every selector keyword the user documentation names (except `custom`) -/',
           'def selectors : List DocSel := [']
    rows = []
    for e in docs['selectors']:
        rows.append('  -- %s\n  { sec := %s, keyword := %s, cls := %s, inPackage := %s }' % (
            ' '.join(e['where'][:4]), lstr(e['sec']), lstr(e['keyword']),
            ('some %s' % lstr(e['cls'])) if e['cls'] else 'none', 'true' if e['inPackage'] else 'false'))
    out.append(',\n'.join(rows))
    out.append(']')
    out.append('')
    out.append('/-- every key of a "Keywords" table, with the selector it is documented under (selectors that are not')
    out.append('    part of the package are left out; `keyword := ""` : the file keys of `[Observation]`) -/')
    out.append('def keys : List DocKey := [')
    rows = []
    for e in docs['keys']:
        rows.append('  -- %s\n  { sec := %s, keyword := %s, key := %s }' % (
            ' '.join(e['where'][:4]), lstr(e['sec']), lstr(e['keyword']), lstr(e['key'])))
    out.append(',\n'.join(rows))
    out.append(']')
    out.append('')
    out.append('/-- class paths written in the documentation that name no class of the package (informational) -/')
    out.append('def danglingClassPaths : List (String × String × String) := [')
    out.append(',\n'.join('  (%s, %s, %s)  -- %s:%d' % (lstr(a), lstr(b), lstr(c), f, ln)
                          for a, b, c, f, ln in docs['dangling']) if docs['dangling'] else '')
    out.append(']')
    out.append('')
    out.append('end Taurex.Gen.Docs')
    text = '\n'.join(out) + '\n'
    # a trailing comment after the last tuple of a list needs no comma handling: commas were put before comments
    return fix_comment_commas(text)


def fix_comment_commas(text):
    """`(a, b)  -- c,` → `(a, b),  -- c` (the join above puts the comma after the comment)"""
    return re.sub(r'(\))(\s+-- [^\n]*?),\n', r'\1,\2\n', text)


def write_if_changed(path, text):
    os.makedirs(os.path.dirname(path), exist_ok=True)
    if os.path.exists(path) and open(path, encoding='utf-8').read() == text:
        return False
    tmp = path + '.tmp'
    with open(tmp, 'w', encoding='utf-8') as fh:
        fh.write(text)
    os.replace(tmp, path)
    return True


def regenerate():
    """returns dict(registry, docs, changed=[files])"""
    warnings.filterwarnings('ignore')
    reg = collect_registry()
    docs = collect_docs(reg)
    changed = []
    if write_if_changed(os.path.join(GEN, 'Registry.lean'), render_registry(reg)):
        changed.append('Registry.lean')
    if write_if_changed(os.path.join(GEN, 'Docs.lean'), render_docs(docs)):
        changed.append('Docs.lean')
    return dict(registry=reg, docs=docs, changed=changed)


if __name__ == '__main__':
    import logging
    try:
        from taurex.log import setLogLevel
        setLogLevel(logging.CRITICAL)
    except Exception:
        pass
    r = regenerate()
    print('changed:', r['changed'])
    for e in r['docs']['selectors']:
        print(e['sec'], e['keyword'], e['cls'], e['inPackage'], e['where'][:2])
    print('dangling', r['docs']['dangling'])
    print('dropped keys', [(e['sec'], e['keyword'], e['key']) for e in r['docs']['dropped_keys']])
    for e in r['docs']['keys']:
        print('key', e['sec'], e['keyword'], e['key'], e['where'][:1])
