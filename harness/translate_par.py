"""Parallel post-processing idioms for harness/translate.py — `FnPar`, the translator class of specs with `dialect='par'`.
`FnPar` is `translate_obj.FnObj` (read its docstring) plus the rules below; the text produced for every other spec is
unchanged, and everything not listed here or there still raises Untranslatable.  Nothing is matched by function name; all
text derives from the AST and the spec's declarations.

  * MPI COLLECTIVES.  `collectives={'mpi.allgather': ('allgather', 'gather'), 'mpi.allreduce': ('allreduce', 'concat',
    {'op': "'SUM'"})}`.  A collective is matched across the ranks by the ORDER in which every rank calls them, so the k-th
    collective call of the function (k = 0, 1, … in evaluation order) is the function parameter applied to k and to the value
    this rank contributes; its value is what the collective returns ON THIS RANK:
        'gather'  contribution a scalar,  `allgather : Nat → α → List α`            (the list of all ranks' values)
        'concat'  contribution a list,    `allreduce : Nat → List α → List α`       (mpi4py's object reduction with `+`)
                  contribution an index list, `allreduce_nat : Nat → List Nat → List Nat`
    (third component: keywords that must be present with exactly that text).  What the parameter returns is supplied by the tie
    theorem, which quantifies over the local states of ALL ranks and instantiates the k-th collective of every rank with the
    same list.  Collective calls are only accepted where the order of the calls is the same on every path: in a statement at
    the top level of the function body or in the body of a lifted loop (below), not nested in one another; anywhere else they
    are Untranslatable.
  * `properties={'self.variance': '<callname>'}`: reading that attribute evaluates the translated property (a call without
    arguments of that translated function).
  * `x = f(…)` for a translated function that returns a tuple (`returns=[…]`): `x` is the tuple, `x[i]` / `x[-1]` a component;
    if `f` can raise (`raises='option'`) the rest of the block runs under `| some x =>` and a raise of `f` is a raise here.
  * STRIDED RANGES AND SLICES.  `range(a, b, c)` (also `range(a)`, `range(a, b)`) as an index list is
    `List.range' a ((b - a + c - 1) / c) c` — Python's `max(0, ⌈(b-a)/c⌉)` elements `a, a+c, …` for a step `c ≥ 1` (`c = 0`:
    Python raises ValueError, the totalisation is the empty list; the tie states `0 < c`); `l[a::c]` is the list of the
    elements of `l` at the indices `range(a, len(l), c)` (`List.filterMap (l[·]?)`: nothing is dropped, they are all below
    `len(l)`).  `for i in range(a, b, c)` and `for p, w in L[a::c]` (L of kind 'pairlist:T', `List (T × α)`) are left folds over
    these lists; `list(r)`, `np.array(r[, dtype=int])` of an index list are the index list; `np.argsort(i)` / `i.argsort()` of an
    index list is the declared external `list_externals={'np.argsort': (name, ['natlist'], 'natlist')}`.
    `a % b` on naturals is `a % b`.
  * ABSTRACT ARRAYS.  Kind 'objarr:T' (`Nat → T`, its length a `lens` parameter): `x = a[i]` names the object at index i (an
    IndexError outside the length is not represented: the tie states the range);  `x = <declared attr text>` for a declared
    'arr' / 'objarr:T' expression gives the array that name.
  * THE WORLD.  `world=dict(type='W', calls={'self.update_model': ('update_model', ['obj:P'])},
    reads={'self.derived_values': ('derived_values', 's')})`: the state of the objects the function acts on but the translation
    does not look into is ONE value `w__ : W` (a parameter: the state on entry).  A call statement listed in `calls` replaces it
    (`let w__ := update_model w__ args`), an attribute listed in `reads` is a function of it (`derived_values w__`); both are
    function parameters.  Declared assumption: these calls change nothing else the translated function handles.
  * GENERATORS.  `returns='yields'`: the value of the function is the list of what it yields, in order; with a declared
    world each entry is `(w__, value)` — the consumer runs while the generator is suspended and sees the world as it is then.
  * LIFTED KEYS.  `lift_keys='self.derived_names'` declares a list of DISTINCT dictionary keys in which the function is
    point-wise: `D = {k: (e1, e2) for k in KEYS}` (components list displays) builds one entry per key, `for k, v in zip(KEYS, V)`
    (V a declared world read) and `for k, (a, b) in D.items()` visit entry k only.  Like the lifted index of translate.py, the
    translation describes ONE key: those loops disappear (their body runs once, the loop variables are the key's entry),
    `D[k][i].append(e)` appends to component i, `len(KEYS) == 0` is false, `R[<expression of k>] = rec` followed by `return R`
    (R a dict local) makes the record stored for that key the value of the function.
  * an `if` without `else` whose body consists of ignored (logging) calls only has no effect; its test must be translatable."""
import ast

from harness.translate import Untranslatable
from harness.translate_obj import FnObj, NeedRaise


class FnPar(FnObj):

    def __init__(self, spec, tree, src_lines, known_funcs):
        spec = dict(spec)
        self.generator = spec.get('returns') == 'yields'
        if self.generator:
            spec['fall_value'] = 'yield__'                # falling off the end of a generator: what it has yielded
        super().__init__(spec, tree, src_lines, known_funcs)
        self.collectives = dict(spec.get('collectives', {}))
        self.world = spec.get('world')
        self.properties = dict(spec.get('properties', {}))
        self.lift_keys = spec.get('lift_keys')
        self.seeded = False
        self.lifted_store = {}                            # dict local -> the record stored in it under the lifted key
        # dict locals built by a comprehension over the lifted keys at the top level of the body
        self.ldicts = set()
        for s in self.node.body:
            if isinstance(s, ast.Assign) and len(s.targets) == 1 and isinstance(s.targets[0], ast.Name) \
                    and self.keys_comprehension(s.value) is not None:
                self.ldicts.add(s.targets[0].id)
        self.coll_index = self.number_collectives()

    # ------------------------------------------------------------------ kinds
    def lean_ty(self, kind):
        if kind == 'world':
            t = self.world['type']
            if t not in self.type_params:
                self.type_params.append(t)
            return t
        if kind == 'yields':
            return 'List (%s × α)' % self.lean_ty('world') if self.world else 'List α'
        if isinstance(kind, str) and kind.startswith('pairlist:'):
            return 'List (%s × α)' % self.lean_ty('obj:' + kind.split(':', 1)[1])
        if isinstance(kind, str) and kind.startswith('objarr:'):
            return 'Nat → ' + self.lean_ty('obj:' + kind.split(':', 1)[1])
        return super().lean_ty(kind)

    def result_type_ext(self, ret, rty):
        if self.generator:
            return self.lean_ty('yields')
        return super().result_type_ext(ret, rty)

    def is_nat(self, node, env):
        if isinstance(node, ast.BinOp) and isinstance(node.op, ast.Mod):
            return self.is_nat(node.left, env) and self.is_nat(node.right, env)
        return super().is_nat(node, env)

    def nat(self, node, env):
        if isinstance(node, ast.BinOp) and isinstance(node.op, ast.Mod):
            return '(%s %% %s)' % (self.nat(node.left, env), self.nat(node.right, env))
        return super().nat(node, env)

    # ------------------------------------------------------------------ collectives
    def is_collective(self, node):
        return isinstance(node, ast.Call) and ast.unparse(node.func) in self.collectives

    def number_collectives(self):
        """id(call node) -> k for the collective calls whose position in the order of calls is the same on every path:
        statements at the top level of the body and bodies of lifted loops, in evaluation order"""
        idx = {}

        def scan(node):
            calls = [n for n in ast.walk(node) if self.is_collective(n)]
            for c in calls:
                if any(self.is_collective(n) for a in list(c.args) + [k.value for k in c.keywords] for n in ast.walk(a)):
                    raise Untranslatable('%s: nested collective calls' % self.spec['func'])
            for bad in ast.walk(node):
                if isinstance(bad, (ast.IfExp, ast.BoolOp, ast.Lambda, ast.ListComp, ast.DictComp, ast.SetComp,
                                    ast.GeneratorExp)) and any(self.is_collective(n) for n in ast.walk(bad)):
                    raise Untranslatable('%s: collective call in a conditionally evaluated expression' % self.spec['func'])
            for c in sorted(calls, key=lambda n: (n.lineno, n.col_offset)):
                idx[id(c)] = len(idx)

        def visit(stmts):
            for s in stmts:
                if isinstance(s, ast.For) and self.lifted_loop(s) is not None:
                    scan(s.iter)
                    visit(s.body)
                elif isinstance(s, (ast.For, ast.While, ast.If, ast.Try, ast.With, ast.FunctionDef, ast.ClassDef)):
                    continue                              # (a collective in there is refused when it is translated)
                else:
                    scan(s)
        if self.collectives:
            visit(self.node.body)
        return idx

    def collective(self, node, env):
        """the k-th collective call: (lean text, kind of the value)"""
        ent = self.collectives[ast.unparse(node.func)]
        nm, mode = ent[0], ent[1]
        fixed = ent[2] if len(ent) > 2 else {}
        if id(node) not in self.coll_index:
            self.fail(node, 'collective call where the order of the collective calls is not the same on every path')
        kws = {k.arg: ast.unparse(k.value) for k in node.keywords}
        if kws != dict(fixed) or len(node.args) != 1:
            self.fail(node, 'collective called with other arguments than declared')
        k = self.coll_index[id(node)]
        a = node.args[0]
        if mode == 'gather':
            self.add_param(nm, 'Nat → α → List α')
            return '(%s %d %s)' % (nm, k, self.expr(a, env)), 'list'
        if mode == 'concat':
            if self.is_natlist(a, env):
                self.add_param(nm + '_nat', 'Nat → List Nat → List Nat')
                return '(%s_nat %d %s)' % (nm, k, self.nlexpr(a, env)), 'natlist'
            if self.is_list(a, env):
                self.add_param(nm, 'Nat → List α → List α')
                return '(%s %d %s)' % (nm, k, self.lexpr(a, env)), 'list'
        self.fail(node, 'unsupported collective')

    def is_list(self, node, env):
        if self.is_collective(node):
            ent = self.collectives[ast.unparse(node.func)]
            if ent[1] == 'gather':
                return True
            return len(node.args) == 1 and not self.is_natlist(node.args[0], env) and self.is_list(node.args[0], env)
        if self.stride_slice(node, env) is not None:
            return self.stride_slice(node, env)[3] == 'list'
        return super().is_list(node, env)

    def lvec(self, node, env):
        if self.is_collective(node):
            txt, k = self.collective(node, env)
            if k != 'list':
                self.fail(node, 'an index list used as a list of numbers')
            return txt, 'x__'
        if self.stride_slice(node, env) is not None and self.stride_slice(node, env)[3] == 'list':
            return self.slice_text(node, env), 'x__'
        return super().lvec(node, env)

    # ------------------------------------------------------------------ index lists, strided ranges and slices
    def range_text(self, args, env):
        """range(a[, b[, c]]) as an index list"""
        if not 1 <= len(args) <= 3 or not all(self.is_nat(a, env) for a in args):
            return None
        if len(args) == 1:
            return '(List.range %s)' % self.nat(args[0], env)
        a, b = self.nat(args[0], env), self.nat(args[1], env)
        c = self.nat(args[2], env) if len(args) == 3 else '1'
        return "(List.range' %s ((%s - %s + %s - 1) / %s) %s)" % (a, b, a, c, c, c)

    def is_natlist(self, node, env):
        if isinstance(node, ast.Name):
            return env.get(node.id) == 'natlist'
        if isinstance(node, ast.Call):
            f = ast.unparse(node.func)
            if f == 'range' and not node.keywords:
                return self.range_text(node.args, env) is not None
            if f in ('list', 'tuple', 'np.array', 'np.asarray', 'numpy.array', 'numpy.asarray') and len(node.args) == 1 \
                    and all(k.arg == 'dtype' and ast.unparse(k.value) == 'int' for k in node.keywords):
                return self.is_natlist(node.args[0], env)
            if self.is_collective(node) and self.collectives[f][1] == 'concat' and len(node.args) == 1:
                return self.is_natlist(node.args[0], env)
            if f in self.list_externals and self.list_externals[f][1:3] == (['natlist'], 'natlist') and len(node.args) == 1 \
                    and not node.keywords:
                return self.is_natlist(node.args[0], env)
            if isinstance(node.func, ast.Attribute) and node.func.attr == 'argsort' and not node.args and not node.keywords \
                    and 'np.argsort' in self.list_externals:
                return self.is_natlist(node.func.value, env)
        return False

    def nlexpr(self, node, env):
        """an index-list valued expression (`List Nat`)"""
        if isinstance(node, ast.Name) and env.get(node.id) == 'natlist':
            return self.var(node.id)
        if isinstance(node, ast.Call) and self.is_natlist(node, env):
            f = ast.unparse(node.func)
            if f == 'range':
                return self.range_text(node.args, env)
            if f in ('list', 'tuple', 'np.array', 'np.asarray', 'numpy.array', 'numpy.asarray'):
                return self.nlexpr(node.args[0], env)     # the same indices in the same order
            if self.is_collective(node):
                return self.collective(node, env)[0]
            if f in self.list_externals:
                return self.list_external(node, env)
            if isinstance(node.func, ast.Attribute) and node.func.attr == 'argsort':
                # ndarray.argsort() is np.argsort of the array (numpy documentation)
                ent = self.list_externals['np.argsort']
                if tuple(ent[1:3]) != (['natlist'], 'natlist') and list(ent[1:3]) != [['natlist'], 'natlist']:
                    self.fail(node, 'np.argsort is not declared on index lists')
                self.add_param(ent[0], 'List Nat → List Nat')
                return '(%s %s)' % (ent[0], self.nlexpr(node.func.value, env))
        self.fail(node, 'unsupported index-list expression')

    def arg(self, node, kind, env):
        if kind == 'natlist' and self.is_natlist(node, env):
            return self.nlexpr(node, env)
        return super().arg(node, kind, env)

    def stride_slice(self, node, env):
        """l[a::c] on a list / pair list variable -> (variable, a, c, 'list' | 'pairlist:T')"""
        if isinstance(node, ast.Subscript) and isinstance(node.slice, ast.Slice) and isinstance(node.value, ast.Name) \
                and node.slice.upper is None and node.slice.lower is not None and node.slice.step is not None:
            k = env.get(node.value.id)
            if (k == 'list' or str(k).startswith('pairlist:')) and self.is_nat(node.slice.lower, env) \
                    and self.is_nat(node.slice.step, env):
                return node.value.id, node.slice.lower, node.slice.step, k
        return None

    def slice_text(self, node, env):
        v, a, c, _ = self.stride_slice(node, env)
        a, c, v = self.nat(a, env), self.nat(c, env), self.var(v)
        return "(List.filterMap (fun i__ => %s[i__]?) (List.range' %s (((List.length %s) - %s + %s - 1) / %s) %s))" % (
            v, a, v, a, c, c, c)

    # ------------------------------------------------------------------ lifted keys
    def keys_comprehension(self, node):
        """{k: E for k in KEYS} -> E"""
        if self.spec.get('lift_keys') and isinstance(node, ast.DictComp) and len(node.generators) == 1:
            g = node.generators[0]
            if not g.ifs and not g.is_async and isinstance(g.target, ast.Name) and isinstance(node.key, ast.Name) \
                    and node.key.id == g.target.id and ast.unparse(g.iter) == self.spec['lift_keys']:
                return node.value
        return None

    def lifted_loop(self, s):
        """('zip', key variable, value variable, text of the zipped values) for `for k, v in zip(KEYS, V)`;
        ('items', key variable, [component variables], dict) for `for k, (a, b) in D.items()`, D a dict over the lifted keys"""
        if not self.spec.get('lift_keys') or s.orelse or not isinstance(s.target, ast.Tuple) or len(s.target.elts) != 2 \
                or not isinstance(s.target.elts[0], ast.Name):
            return None
        it, k, v = s.iter, s.target.elts[0], s.target.elts[1]
        if isinstance(it, ast.Call) and ast.unparse(it.func) == 'zip' and len(it.args) == 2 and not it.keywords \
                and ast.unparse(it.args[0]) == self.spec['lift_keys'] and isinstance(v, ast.Name):
            return 'zip', k.id, v.id, it.args[1]
        if isinstance(it, ast.Call) and isinstance(it.func, ast.Attribute) and it.func.attr == 'items' and not it.args \
                and not it.keywords and isinstance(it.func.value, ast.Name) and it.func.value.id in getattr(self, 'ldicts', ()):
            if isinstance(v, ast.Name):
                return 'items', k.id, [v.id], it.func.value.id
            if isinstance(v, ast.Tuple) and all(isinstance(e, ast.Name) for e in v.elts):
                return 'items', k.id, [e.id for e in v.elts], it.func.value.id
        return None

    def entry_append(self, s, env):
        """D[k][i].append(e) on a dict over the lifted keys -> (D, i, e)"""
        if isinstance(s, ast.Expr) and isinstance(s.value, ast.Call) and isinstance(s.value.func, ast.Attribute) \
                and s.value.func.attr == 'append' and len(s.value.args) == 1 and not s.value.keywords:
            t = s.value.func.value
            if isinstance(t, ast.Subscript) and isinstance(t.slice, ast.Constant) and isinstance(t.slice.value, int) \
                    and isinstance(t.value, ast.Subscript) and isinstance(t.value.value, ast.Name) \
                    and isinstance(t.value.slice, ast.Name) and t.value.value.id in self.ldicts:
                return t.value.value.id, t.slice.value, s.value.args[0], t.value.slice.id
        return None

    def keys_length_test(self, node):
        """`len(KEYS) == 0` -> True (the test is false: the translation describes one key)"""
        return self.spec.get('lift_keys') and isinstance(node, ast.Compare) and len(node.ops) == 1 \
            and isinstance(node.ops[0], ast.Eq) and isinstance(node.left, ast.Call) and ast.unparse(node.left.func) == 'len' \
            and len(node.left.args) == 1 and ast.unparse(node.left.args[0]) == self.spec['lift_keys'] \
            and isinstance(node.comparators[0], ast.Constant) and node.comparators[0].value == 0

    def cond_ext(self, node, env):
        if self.keys_length_test(node):
            return 'false'
        return super().cond_ext(node, env)

    # ------------------------------------------------------------------ expressions
    def world_read(self, node):
        return self.world is not None and isinstance(node, (ast.Attribute, ast.Call)) \
            and ast.unparse(node) in self.world.get('reads', {})

    def expr_ext(self, node, env):
        if isinstance(node, ast.Attribute) and ast.unparse(node) in self.properties:
            tgt = self.known.get(self.properties[ast.unparse(node)])
            if tgt is None:
                self.fail(node, 'the property is not a translated function')
            call = ast.copy_location(ast.Call(func=node, args=[], keywords=[]), node)
            return self.known_call(call, tgt, env)
        if self.world_read(node):
            nm, k = self.world['reads'][ast.unparse(node)]
            if k not in ('s', 'elem'):
                self.fail(node, 'world read of a non-scalar kind')
            self.add_param(nm, '%s → α' % self.lean_ty('world'))
            return '(%s w__)' % nm
        if isinstance(node, ast.Subscript) and isinstance(node.value, ast.Name) \
                and isinstance(env.get(node.value.id), tuple) and env[node.value.id][0] == 'tuple':
            kinds = env[node.value.id][1]
            i = node.slice
            if isinstance(i, ast.UnaryOp) and isinstance(i.op, ast.USub) and isinstance(i.operand, ast.Constant) \
                    and isinstance(i.operand.value, int):
                i = len(kinds) - i.operand.value
            elif isinstance(i, ast.Constant) and isinstance(i.value, int) and not isinstance(i.value, bool):
                i = i.value
            else:
                self.fail(node, 'a tuple indexed by something else than a literal')
            if not 0 <= i < len(kinds) or kinds[i] not in ('s', 'elem'):
                self.fail(node, 'tuple component out of range or not a scalar')
            return '%s%s' % (self.var(node.value.id), '.2' * i + ('.1' if i < len(kinds) - 1 else ''))
        return super().expr_ext(node, env)

    # ------------------------------------------------------------------ statements
    def block(self, stmts, env, ind, tail, inline=False):
        if stmts is self.node.body and not self.seeded:
            self.seeded = True
            pre = ''
            if self.world:
                self.add_param('w__', self.lean_ty('world'))
                env['w__'] = 'world'
            if self.generator:
                env['yield__'] = 'yields'
                pre = '%slet yield__ : %s := []\n' % (ind, self.lean_ty('yields'))
            return pre + super().block(stmts, env, ind, tail, inline)
        return super().block(stmts, env, ind, tail, inline)

    def world_call(self, s):
        return self.world is not None and isinstance(s, ast.Expr) and isinstance(s.value, ast.Call) \
            and ast.unparse(s.value.func) in self.world.get('calls', {})

    @staticmethod
    def is_yield(s):
        return isinstance(s, ast.Expr) and isinstance(s.value, ast.Yield)

    def assigned_ext(self, s, env, add):
        super().assigned_ext(s, env, add)
        if self.world_call(s):
            add('w__')
        if self.is_yield(s):
            add('yield__')
        ea = self.entry_append(s, env)
        if ea is not None:
            add('%s_%d' % (ea[0], ea[1]))

    def only_logging(self, stmts):
        import re
        return bool(stmts) and all(isinstance(b, ast.Expr) and isinstance(b.value, ast.Call)
                                   and re.search(self.ignore_calls, ast.unparse(b.value)) for b in stmts)

    def fold_loop(self, s, env, ind, src, ity, binds):
        """a `for` loop as a left fold over the list `src` (elements of type `ity`); `binds` = [(python name, kind, projection
        of it__)]; the state is the tuple of the variables the body assigns"""
        if s.orelse:
            self.fail(s, 'for … else')
        names = [n for n in self.assigned(s.body, env) if n in env]
        if not names:
            self.fail(s, 'loop without a carried variable')
        env2 = dict(env)
        body = ''
        for n, k, proj in binds:
            if n in env:
                self.fail(s, 'loop variable shadows a variable')
            env2[n] = k
            body += '%s    let %s := %s\n' % (ind, self.var(n), proj)
        entry = {n: env[n] for n in names}

        def tailf(fe):
            for n in names:
                if fe.get(n) != entry[n]:
                    self.fail(s, 'variable %s changes its kind in the loop body' % n)
            return self.state_pack(names)
        tailf.raising = False
        pack = self.state_pack(names)
        stvar = 'st__' if len(names) > 1 else self.var(names[0])
        unp = self.unpack(names, 'st__', ind + '    ') if len(names) > 1 else ''
        self.loop_tails.append(tailf)
        try:
            inner = self.block(s.body, env2, ind + '    ', tailf)
        except NeedRaise:
            self.fail(s, 'the loop body can raise')
        finally:
            self.loop_tails.pop()
        txt = '(List.foldl (fun (%s : %s) (it__ : %s) =>\n%s%s%s%s  ) %s %s)' % (
            stvar, self.state_type(names, env), ity, unp, body, inner, ind, pack, src)
        return self.unpack(names, txt, ind)

    def stmt_ext(self, s, env, ind, rest, tail, inline):
        # ---- no effect
        if isinstance(s, ast.If) and not s.orelse and self.only_logging(s.body):
            self.cond(s.test, env)                        # (must be translatable: a test can raise)
            return '', False
        if isinstance(s, ast.If) and self.keys_length_test(s.test):
            return self.block(list(s.orelse) + rest, env, ind, tail, inline=inline), True
        # ---- the world, generators
        if self.world_call(s) and not inline:
            nm, kinds = self.world['calls'][ast.unparse(s.value.func)]
            if s.value.keywords or len(s.value.args) != len(kinds):
                self.fail(s, 'world call with other arguments than declared')
            w = self.lean_ty('world')
            args, tys = [], []
            for a, k in zip(s.value.args, kinds):
                if str(k).startswith('obj:'):
                    if not (isinstance(a, ast.Name) and env.get(a.id) == k):
                        self.fail(s, 'world call argument is not an object of the declared type')
                    args.append(self.var(a.id))
                else:
                    args.append(self.arg(a, k, env))
                tys.append(self.lean_ty(k))
            self.add_param(nm, ' → '.join([w] + tys + [w]))
            env['w__'] = 'world'
            return '%slet w__ := (%s)\n' % (ind, ' '.join([nm, 'w__'] + args)), False
        if self.is_yield(s) and not inline:
            if not self.generator or s.value.value is None:
                self.fail(s, 'yield (the function is not declared a generator)')
            e = self.expr(s.value.value, env)
            return '%slet yield__ := yield__ ++ [%s]\n' % (ind, '(w__, %s)' % e if self.world else e), False
        # ---- dicts over the lifted keys
        if isinstance(s, ast.Assign) and len(s.targets) == 1 and isinstance(s.targets[0], ast.Name) \
                and self.keys_comprehension(s.value) is not None and not inline:
            d, v = s.targets[0].id, self.keys_comprehension(s.value)
            if s not in self.node.body or d in env:
                self.fail(s, 'a dict over the lifted keys must be built once at the top level')
            comps = list(v.elts) if isinstance(v, ast.Tuple) else [v]
            if not all(isinstance(c, ast.List) and not c.elts for c in comps) or not isinstance(v, ast.Tuple):
                self.fail(s, 'entries of a dict over the lifted keys: a tuple of empty lists')
            txt = ''
            for i in range(len(comps)):
                txt += '%slet %s_%d : List α := []\n' % (ind, self.var(d), i)
                env['%s_%d' % (d, i)] = 'list'
            env[d] = ('ldict', ['list'] * len(comps))
            return txt, False
        ea = self.entry_append(s, env)
        if ea is not None:
            d, i, e, k = ea
            if not (isinstance(env.get(d), tuple) and env[d][0] == 'ldict') or env.get(k) != 'liftkey' \
                    or not 0 <= i < len(env[d][1]):
                self.fail(s, 'append to an entry of a dict over the lifted keys under another key')
            v = '%s_%d' % (self.var(d), i)
            return '%slet %s := %s ++ [%s]\n' % (ind, v, v, self.expr(e, env)), False
        if isinstance(s, ast.For) and self.lifted_loop(s) is not None and not inline:
            ll = self.lifted_loop(s)
            if ll[1] in env and env[ll[1]] != 'liftkey':
                self.fail(s, 'loop variable shadows a variable')
            env = dict(env)
            env[ll[1]] = 'liftkey'
            txt = ''
            if ll[0] == 'zip':
                if not self.world_read(ll[3]):
                    self.fail(s, 'the values zipped with the lifted keys are not a declared world read')
                txt = '%slet %s := %s\n' % (ind, self.var(ll[2]), self.expr(ll[3], env))
                env[ll[2]] = 's'
            else:
                d = ll[3]
                if not (isinstance(env.get(d), tuple) and env[d][0] == 'ldict') or len(ll[2]) != len(env[d][1]):
                    self.fail(s, 'unpacking does not match the entries of the dict')
                for i, (n, k) in enumerate(zip(ll[2], env[d][1])):
                    txt += '%slet %s := %s_%d\n' % (ind, self.var(n), self.var(d), i)
                    env[n] = k
            # the body runs once, for the one key the translation describes; then the rest of the block
            return txt + self.block(list(s.body) + rest, env, ind, tail), True
        if isinstance(s, ast.Assign) and len(s.targets) == 1 and isinstance(s.targets[0], ast.Subscript) \
                and isinstance(s.targets[0].value, ast.Name) and env.get(s.targets[0].value.id) == 'rec' \
                and isinstance(s.value, ast.Name) and env.get(s.value.id) == 'rec' and not inline \
                and any(isinstance(n, ast.Name) and env.get(n.id) == 'liftkey' for n in ast.walk(s.targets[0].slice)):
            # R[<expression of the lifted key>] = rec: the record stored for the one key
            if s.targets[0].value.id in self.lifted_store or self.records.get(s.targets[0].value.id):
                self.fail(s, 'a second store into the result dict')
            self.lifted_store[s.targets[0].value.id] = s.value.id
            return '', False
        if isinstance(s, ast.Return) and isinstance(s.value, ast.Name) and s.value.id in self.lifted_store and not inline:
            fs = self.record_fields(self.lifted_store[s.value.id])
            if not fs or self.lifted_store[s.value.id] != self.spec.get('result'):
                self.fail(s, 'the stored record is not the declared result')
            return ind + ('(' + ', '.join(f[2] for f in fs) + ')' if len(fs) > 1 else fs[0][2]) + '\n', True
        # ---- arrays of abstract objects, declared arrays under a local name
        if isinstance(s, ast.Assign) and len(s.targets) == 1 and isinstance(s.targets[0], ast.Name) \
                and isinstance(s.value, (ast.Attribute, ast.Call, ast.Subscript)) and ast.unparse(s.value) in self.attrs \
                and (self.attrs[ast.unparse(s.value)][1] == 'arr' or str(self.attrs[ast.unparse(s.value)][1]).startswith('objarr:')) \
                and env.get(s.targets[0].id) is None:
            nm, k = self.attrs[ast.unparse(s.value)]
            self.add_param(nm, self.lean_ty(k))
            env[s.targets[0].id] = k
            if self.var(s.targets[0].id) == nm:
                return '', False
            return '%slet %s := %s\n' % (ind, self.var(s.targets[0].id), nm), False
        if isinstance(s, ast.Assign) and len(s.targets) == 1 and isinstance(s.targets[0], ast.Name) \
                and isinstance(s.value, ast.Subscript) and isinstance(s.value.value, ast.Name) \
                and str(env.get(s.value.value.id)).startswith('objarr:') and self.is_nat(s.value.slice, env) \
                and not any(isinstance(n, ast.Sub) for n in ast.walk(s.value.slice)) and env.get(s.targets[0].id) is None:
            env[s.targets[0].id] = 'obj:' + env[s.value.value.id].split(':', 1)[1]
            return '%slet %s := (%s %s)\n' % (ind, self.var(s.targets[0].id), self.var(s.value.value.id),
                                             self.nat(s.value.slice, env)), False
        # ---- index lists
        if isinstance(s, ast.Assign) and len(s.targets) == 1 and isinstance(s.targets[0], ast.Name) \
                and env.get(s.targets[0].id) in (None, 'natlist') and self.is_natlist(s.value, env):
            e = self.nlexpr(s.value, env)
            env[s.targets[0].id] = 'natlist'
            return '%slet %s := %s\n' % (ind, self.var(s.targets[0].id), e), False
        # ---- a translated function that returns a tuple
        if isinstance(s, ast.Assign) and len(s.targets) == 1 and isinstance(s.targets[0], ast.Name) \
                and isinstance(s.value, ast.Call) and self.resolve_call(ast.unparse(s.value.func)) is not None \
                and isinstance(self.resolve_call(ast.unparse(s.value.func)).get('returns'), (list, tuple)) \
                and env.get(s.targets[0].id) is None and not inline and not self.opt_reads(s, env):
            tgt = self.resolve_call(ast.unparse(s.value.func))
            call = self.known_call(s.value, tgt, env)
            x = s.targets[0].id
            if not tgt.get('opt_result'):
                env[x] = ('tuple', list(tgt['returns']))
                return '%slet %s := %s\n' % (ind, self.var(x), call), False
            rv = self.rv_for(s, tail)
            env2 = dict(env)
            env2[x] = ('tuple', list(tgt['returns']))
            return '%smatch %s with\n%s| none => %s\n%s| some %s =>\n%s' % (
                ind, call, ind, rv, ind, self.var(x), self.block(rest, env2, ind + '  ', tail)), True
        # ---- loops over strided ranges / slices
        if isinstance(s, ast.For) and not inline and isinstance(s.target, ast.Name) and isinstance(s.iter, ast.Call) \
                and ast.unparse(s.iter.func) == 'range' and len(s.iter.args) == 3 and not s.iter.keywords \
                and self.range_text(s.iter.args, env) is not None:
            return self.fold_loop(s, env, ind, self.range_text(s.iter.args, env), 'Nat', [(s.target.id, 'nat', 'it__')]), False
        if isinstance(s, ast.For) and not inline and isinstance(s.target, ast.Tuple) and len(s.target.elts) == 2 \
                and all(isinstance(e, ast.Name) for e in s.target.elts):
            it, k = s.iter, None
            if self.stride_slice(it, env) is not None and str(self.stride_slice(it, env)[3]).startswith('pairlist:'):
                k, src = self.stride_slice(it, env)[3], self.slice_text(it, env)
            elif isinstance(it, ast.Name) and str(env.get(it.id)).startswith('pairlist:'):
                k, src = env[it.id], self.var(it.id)
            if k is not None:
                t = 'obj:' + k.split(':', 1)[1]
                return self.fold_loop(s, env, ind, src, '%s × α' % self.lean_ty(t),
                                      [(s.target.elts[0].id, t, 'it__.1'), (s.target.elts[1].id, 's', 'it__.2')]), False
        return super().stmt_ext(s, env, ind, rest, tail, inline)
