"""C13 — restricting the spectral grid never changes the values computed on it.
Correspondence: clip_native_to_wngrid and Opacity.opacity(…, wngrid) vs the Lean Grid model; the property's own
predicates on real Transmission/Emission models (full native run vs restricted runs, binned equality under the
stated width condition, opacity identity / between-neighbours)."""
import math
import numpy as np
from harness import common as C
from harness import fm_common as fm

RULE = ('real TransmissionModel/EmissionModel with 1-3 molecules (different native grids: the longest is native, the '
        'others are sub-sampled), native grids linear/log/constant-R with 24-160 points; requests: sub-range of native '
        'points, observation-like grids (centres off the native points) satisfying the width condition, '
        'cutoff_grid True/False; opacity requests on own points and on other points (k-table layout: also requests reaching '
        'beyond the first / last / both end points of the table, where the end value holds). binned equality is judged on every '
        'observation bin satisfying the property\'s own condition = the hypotheses of the Lean theorems bin_clip_eq_property / '
        'bin_clip_eq_uniform_property, evaluated on every generated observation (native spacing <= W/2, or constant spacing '
        '<= 3/2 W; bin within [min-W/2, max+W/2]; mid-point spacing condition for the native and the kept grid), both for the '
        'same native values re-binned on the clipped grid (tolerance: rounding) and for the restricted run (licensed band); the '
        'reproducer of the repaired clip-margin defect (bin_clip_condition_sharp, spacing 0.35 W) is a corpus regression. '
        'multi-contrib stream (15 models per quick run): thin atmospheres with one block of 1-3 saturated native points (a strong '
        'line), absorption + 1-3 of Rayleigh/CIA/grey haze/Lee haze/cloud deck in random insertion order, and a history of 5-6 '
        'calls of model / model_contrib / model_full_contrib on the native grid, on two windows away from the line and one across it '
        '(fixed quota: the sequence of the taurex program, native run then every component on a window); every restricted result '
        'is judged against the native reference at the same points - to rounding when no row of the request is saturated in the '
        'full run, within the licensed band otherwise - and restricted transmission runs against the C01 Lean model on the '
        're-indexed columns of the full run\'s cross-sections. distinct non-trivial = distinct '
        '(model kind, grid kind, request kind, regime, nlayers, n native) with a request strictly inside the native range')
USES_MODELS = ['C01']
ASSUMPTIONS = ['np.interp = NpInterp.npInterp (last j with xp[j] <= x, clamped ends)',
               'compute_bin_edges = Binning.computeBinEdges',
               'licensed deviation: tau>10 early exit (transmission) / exp(-10) clamp (emission) couple columns; '
               'differences inside the C01/C02 band are accepted',
               'scipy interp1d(linear, fill_value=(first,last)) in KTable.opacity = np.interp per g-point (validated each run)',
               'source tie: the numpy primitives are the definitions of lean/TaurexModel/Gen/Prelude.lean (element-wise ops with 1-D broadcasting, slices, searchsorted = count, stable argsort, masks, np.where, take); the list dialect of the translator (harness/translate_list.py) is part of the trusted base',
               'source tie: compute_opacity(T, P, idx) = the native values at the indices idx (point-wise in wavenumber)']

# source tie (list dialect of the source translator, harness/translate_list.py): regenerated on every run into
# lean/TaurexModel/Gen/SrcC13.lean; lean/Props/C13Src.lean proves each definition equal to the model (TaurexModel/Grid.lean)
_OPA_ATTRS = {'self.wavenumberGrid': ('wavenumberGrid', 'list')}
SRC_SPECS = [
    dict(dialect='list', module='taurex/util/util.py', func='compute_bin_edges', lean='compute_bin_edges',
         params=dict(wngrid='list')),
    dict(dialect='list', module='taurex/util/util.py', func='clip_native_to_wngrid', lean='clip_native_to_wngrid',
         params=dict(native_grid='list', wngrid='list')),
    # Opacity.opacity(T, P, wngrid=<array>): `compute_opacity` (the (T, P) interpolation, C04) and np.interp are externals
    dict(dialect='list', module='taurex/opacity/opacity.py', cls='Opacity', func='opacity', lean='opacity_on_grid',
         params=dict(temperature='skip', pressure='skip', wngrid='list'), attrs=_OPA_ATTRS,
         vexternals={'self.compute_opacity': dict(lean='compute_opacity', args=['skip', 'skip', 'natlist'], ret='list'),
                     'np.interp': dict(lean='interp', args=['s*', 'list', 'list'], ret='s')}),
    # KTable.opacity: one g-point column (`.reshape(-1, ng)` only re-arranges the g axis); scipy's interp1d is an external
    # that returns a function
    dict(dialect='list', module='taurex/opacity/ktables/ktable.py', cls='KTable', func='opacity', lean='ktable_opacity_on_grid',
         params=dict(temperature='skip', pressure='skip', wngrid='list'), attrs=_OPA_ATTRS, lift_methods=('reshape',),
         vexternals={'self.compute_opacity': dict(lean='compute_opacity', args=['skip', 'skip', 'natlist'], ret='list'),
                     'interp1d(assume_sorted,axis,bounds_error,copy,fill_value)': dict(
                         lean='interp1d', args=['list', 'list', 'bool', 'nat', 'bool', 'bool', ('tuple', ('s', 's'))],
                         ret=('fn', ('list',), 'list'))}),
]


def native_grid(rng, n, kind, amax=3000.0):
    a = float(rng.uniform(300, amax))
    if kind == 'linear':
        return np.linspace(a, a + float(rng.uniform(200, 4000)), n)
    if kind == 'log':
        return np.geomspace(a, a * float(rng.uniform(1.3, 8.0)), n)
    # constant resolving power
    R = float(rng.uniform(20, 200))
    return a * (1 + 1.0 / R) ** np.arange(n)


def make_spec(rng, kind_grid, regime):
    n = int(rng.integers(24, 161))
    native = native_grid(rng, n, kind_grid)
    spec = fm.gen_spec(rng, nlayers=int(rng.integers(3, 25)), nwn=2, ngas=int(rng.integers(1, 4)), regime=regime,
                       with_cia=bool(rng.random() < 0.3))
    ops = []
    r = fm.REGIMES[regime]
    for k, g in enumerate(spec['gases']):
        if k == 0:
            gwn = native
        else:
            step = int(rng.integers(2, 5))
            if rng.random() < 0.4:
                step = int(rng.integers(6, 11))         # a much coarser molecule: narrow windows fit between two of its points
            gwn = native[int(rng.integers(0, step))::step]
            if len(gwn) < 2:
                gwn = native
        ops.append(fm.gen_opacity(rng, g['mol'], gwn, r[0], r[1], nT=int(rng.integers(2, 4)), nP=int(rng.integers(2, 4))))
        g['_wn'] = gwn
    spec['opacities'] = ops
    for c in spec['cia']:
        pass
    return spec, native


def obs_grid(rng, native, ok=True):
    """observation-like grid inside the native range; returns (centres, widths, condition_holds)"""
    n = len(native)
    spacing_max = float(np.max(np.diff(native)))
    i = int(rng.integers(2, n // 2))
    j = int(rng.integers(n // 2 + 1, n - 2))
    lo, hi = native[i], native[j]
    # choose bin count so that the mid-point width W satisfies native spacing < W/2 (the property's condition, the domain
    # of the theorem bin_clip_eq_property); most of the time only just
    W_min = (2.02 if rng.random() < 0.65 else 3.05) * spacing_max
    nb_max = int((hi - lo) / W_min)
    if nb_max < 2:
        return None
    nb = int(rng.integers(2, min(nb_max, 12) + 1))
    if rng.random() < 0.3:
        nb = min(nb_max, 40)                  # the narrowest bins the chosen condition allows: edge bins nearly in reach
    kind = rng.choice(['lin', 'log'])
    c = np.linspace(lo, hi, nb) if kind == 'lin' else np.geomspace(lo, hi, nb)
    from taurex.util.util import compute_bin_edges
    Wmid = compute_bin_edges(c)[1]
    W = float(Wmid.max())
    r = rng.random()
    if r < 0.35:
        w = Wmid.copy()
    elif r < 0.65:
        w = Wmid * rng.uniform(0.3, 1.0, size=nb)       # narrower bins, gaps allowed
    else:
        # every bin as wide as the condition allows: up to the widest mid-point bin W (bins overlap their neighbours
        # and the outermost ones stick out by up to W/2 - exactly what the clip margin W is for)
        w = W * rng.uniform(0.6, 1.0, size=nb)
    if rng.random() < 0.3:
        c, w = c[::-1].copy(), w[::-1].copy()             # observation listed in descending wavenumber
    cond = bool(np.all(w <= W * (1 + 1e-12)) and spacing_max < W / 2)
    if not ok:
        w = w * rng.uniform(1.5, 3.0)
        cond = False
    return c, w, cond


def midpoint_ok(g):
    """Binning.MidpointSpacingOK (Proofs/C05Midpoint.lean) of a grid, evaluated in floats (rounding slack 1e-12)"""
    d = np.diff(np.asarray(g, dtype=float))
    if len(d) == 0:
        return True
    dl = np.concatenate([d[:1], d[:-1]])      # spacingL: the first interval is its own left neighbour
    dr = np.concatenate([d[1:], d[-1:]])      # spacingR: the last interval is its own right neighbour
    s = 1e-12 * float(np.max(np.abs(d)))
    return bool(np.all(dr <= 4 * d + dl + s) and np.all(dl <= 4 * d + dr + s))


def theorem_domain(nat, rn, req, widths):
    """The hypotheses of the Lean theorems Props/C13.lean:bin_clip_eq_property (the property's own condition: any strictly
    increasing native grid with ordered mid-point bins, every native spacing <= W/2, W = the widest mid-point bin of the
    observation grid, clip margin 5/4 W, observation bin reaching at most W/2 beyond the outermost centres) and
    bin_clip_eq_uniform_property (constant native spacing d <= 3/2 W), evaluated on one observation.  Returns (mask over
    the observation bins in increasing-wavenumber order - the order of FluxBinner's output -, info).  Comparisons that are
    equalities in exact arithmetic for the generated grids (a = min - W/2 when the outermost bin is the widest) get a
    rounding slack of 1e-12 of the scale: the theorem's conclusion is continuous in a, b (an overlap of 1e-12 W changes a
    weight by 1e-12)."""
    from taurex.util.util import compute_bin_edges
    nat = np.asarray(nat, dtype=float)
    rn = np.asarray(rn, dtype=float)
    order = np.argsort(req, kind='stable')
    c = np.asarray(req, dtype=float)[order]
    w = np.asarray(widths, dtype=float)[order]
    W = float(np.max(compute_bin_edges(np.asarray(req, dtype=float))[1]))      # widestBin
    omin, omax = float(np.min(req)), float(np.max(req))
    L, U = omin - 1.25 * W, omax + 1.25 * W                                    # the clip interval of clip_native_to_wngrid
    d = np.diff(nat)
    eps = 1e-12 * max(abs(L), abs(U), W)
    increasing = bool(np.all(d > 0))
    uniform = bool(np.max(np.abs(d - d.mean())) <= 1e-9 * d.mean())
    okF, okC = midpoint_ok(nat), midpoint_ok(rn)
    # the restricted grid is whatever the implementation's clip returned (its agreement with the documented interval [L, U]
    # is the correspondence check of check_clip); the binned predicate is judged on it
    kept = len(rn) >= 2
    documented = bool(np.array_equal(rn, nat[(nat >= L) & (nat <= U)]))
    general = increasing and okF and okC and kept and float(d.max()) <= W / 2 * (1 + 1e-12)
    unif = uniform and increasing and kept and float(d.max()) <= 1.5 * W * (1 + 1e-12)
    a, b = c - w / 2, c + w / 2
    inside = (a < b) & (a >= omin - W / 2 - eps) & (b <= omax + W / 2 + eps)

    def overlap_sum(g):
        wn = compute_bin_edges(g)[1]
        lo, hi = g - wn / 2, g + wn / 2
        return np.array([np.clip(np.minimum(bb, hi) - np.maximum(aa, lo), 0, None).sum() for aa, bb in zip(a, b)])
    posF = overlap_sum(nat) > 0
    posC = overlap_sum(rn) > 0 if len(rn) >= 2 else np.zeros(len(c), dtype=bool)
    mask = inside & posF & (general | (unif & posC))
    return mask, dict(W=W, L=L, U=U, spacing_max=float(d.max()), uniform=uniform, okF=okF, okC=okC, kept=bool(kept), clip_is_documented=documented,
                      theorem='general' if general else ('uniform' if unif else 'none'))


def judge_binned(ctx, gk, nat, full, rn, rv, req, widths, case, band, tiny):
    """binned(restricted) = binned(full), judged on every observation bin in the domain of bin_clip_eq_property /
    bin_clip_eq_uniform_property (their hypotheses evaluated here): (i) the same native values re-binned on the clipped grid -
    the geometric statement itself, tolerance: rounding; (ii) the restricted run `rv` (None: skip) within the licensed band."""
    from taurex.binning import FluxBinner
    nat, full, rn = np.asarray(nat, float), np.asarray(full, float), np.asarray(rn, float)
    idx = np.searchsorted(nat, rn)
    b = FluxBinner(np.asarray(req), None if widths is None else np.asarray(widths))
    if widths is None:
        from taurex.util.util import compute_bin_edges
        widths = compute_bin_edges(np.sort(np.asarray(req, float)))[1][np.argsort(np.argsort(req, kind='stable'))]
    bf = b.bindown(nat, full)[1]
    bx = b.bindown(rn, full[idx])[1]
    dom, info = theorem_domain(nat, rn, req, widths)
    ctx.disagreements_checked += 1
    d3 = np.abs(bf - bx)
    ctx.bucket('binned:theorem=%s:%s' % (info['theorem'], gk))
    ctx.bucket('binned:bins-judged', int(dom.sum()))
    if np.any(~dom):
        why = 'kept-grid-spacing' if not info['okC'] else ('native-spacing' if not info['okF'] else 'other')
        ctx.bucket('binned:bins-outside-theorem-domain:%s:%s' % (why, 'differ' if np.any(d3[~dom] > tiny) else 'equal'),
                   int((~dom).sum()))
    if np.any(d3[dom] > tiny):
        ctx.violation('binned-restricted-differs:' + gk,
                      'binning the same native values on the clipped grid differs from binning them on the full '
                      'grid although the width condition (hypotheses of bin_clip_eq_property) holds',
                      dict(case, widths=widths), dict(maxdiff=float(d3[dom].max()), tiny=tiny, domain=info,
                                                      full=bf, restricted=bx))
        return bf, bx, dom
    if rv is not None:
        br = b.bindown(rn, np.asarray(rv, float))[1]
        ctx.disagreements_checked += 1
        d2 = np.abs(bf - br)
        if np.any(d2[dom] > band + tiny):
            ctx.violation('binned-restricted-differs:' + gk,
                          'binning the restricted run differs from binning the full run although the width condition holds',
                          dict(case, widths=widths), dict(maxdiff=float(d2[dom].max()), band=band, domain=info))
    return bf, bx, dom


# the reproducer of the defect repaired by "fix: clip the native grid with a margin of 1.25 times the widest requested bin"
# = the exact counter-example of Props/C13.lean:bin_clip_condition_sharp (native spacing 0.35 W: inside the property's
# condition "finer than half the widest bin"; with the pre-fix margin W the two binnings were 1967/401 and 491/100).
# Also stored as corpus/C13/01_clip_margin_witness.json, replayed first on every run.
WITNESS = dict(request='witness:bin_clip_condition_sharp',
               native=[2.9, 9.9, 16.9, 23.7, 30.7, 37.7, 44.7, 51.7, 58.7, 65.7],
               spectrum=[1.0, 2.0, 3.0, 5.0, 4.0, 6.0, 2.0, 1.0, 3.0, 2.0], obs=[30.0, 50.0],
               model_first_bin=1967.0 / 401.0, prefix_restricted_first_bin=491.0 / 100.0)


def run_binned_case(ctx, case):
    """one stored binning case (native grid + values + observation centres [+ widths]) on the real clip + FluxBinner:
    judged like every generated observation; the model's value of the first bin, when stored, is compared too"""
    from taurex.util.util import clip_native_to_wngrid
    nat, s, obs = (np.asarray(case[k], float) for k in ('native', 'spectrum', 'obs'))
    widths = None if case.get('widths') is None else np.asarray(case['widths'], float)
    cl = clip_native_to_wngrid(nat, obs)
    check_clip(ctx, nat, obs, None, case)
    tiny = 1e-9 * float(np.max(np.abs(s))) + 1e-300
    bf, bx, dom = judge_binned(ctx, 'stored', nat, s, cl, None, obs, widths, case, 0.0, tiny)
    ctx.case(key=('stored', case.get('request')), sample=dict(request=case.get('request'), full=bf, restricted=bx,
                                                             judged=int(dom.sum())),
             bucket='stored:' + str(case.get('request')))
    if case.get('model_first_bin') is not None:
        # Lean: fluxBinVal on the full grid = fluxBinVal on the grid clipped with margin 5/4 W (bin_clip_condition_sharp)
        ctx.check_close('FluxBinner on the full native grid vs Lean fluxBinVal (bin_clip_condition_sharp)', float(bf[0]),
                        case['model_first_bin'], case, rel=1e-12)
        ctx.check_close('FluxBinner on the clipped native grid vs Lean fluxBinVal (bin_clip_condition_sharp)', float(bx[0]),
                        case['model_first_bin'], case, rel=1e-12)
        if not dom[0]:
            ctx.mismatch('the stored witness satisfies the hypotheses of bin_clip_eq_property', case, dict(domain=dom))
    return bf, bx


def run_witness(ctx):
    """regression of the clip-margin defect: on the repaired code both binnings of the reproducer are equal"""
    bf, bx = run_binned_case(ctx, WITNESS)
    ctx.notes.append('clip-margin reproducer (bin_clip_condition_sharp, native spacing 0.35 W): binned(full) = %.12g, '
                     'binned(restricted) = %.12g on this tree (pre-fix margin W: 491/100 against 1967/401)'
                     % (float(bf[0]), float(bx[0])))


def band_transmission(model):
    p = fm.profiles(model)
    rs = p['rs']
    return math.exp(-10) * float(np.sum(2 * (p['rp'] + p['z']) * p['dz'])) / rs ** 2


def check_clip(ctx, native, g, clipped, case):
    from taurex.util.util import clip_native_to_wngrid
    impl = clip_native_to_wngrid(native, g)
    d = ctx.model().call('c13.clip', C.L(native), C.L(g))
    mod = d.list()
    ctx.check_close('clip_native_to_wngrid vs Grid.clipNative', impl, mod, case, rel=0.0)
    if clipped is not None and not C.close(list(clipped), list(impl), rel=0.0):
        ctx.mismatch('model(wngrid).native vs clip_native_to_wngrid', case, dict(a=clipped, b=impl))
    # predicates: sub-list of native in order, contains every native point within the request range
    sub = [x for x in native if x in set(impl.tolist())]
    if not np.array_equal(np.asarray(sub), impl):
        ctx.violation('clip-not-sublist', 'clipped grid is not an ordered sub-list of the native grid', case)
    inside = native[(native >= g.min()) & (native <= g.max())]
    if not set(inside.tolist()) <= set(impl.tolist()):
        ctx.violation('clip-drops-inside-point', 'clip dropped a native point inside the requested range', case)


def run_models(ctx):
    kinds = ['transmission', 'emission']
    gridkinds = ['linear', 'log', 'constR']
    n = ctx.n(36, 600)
    for k in range(n):
        kind = kinds[k % 2]
        gk = gridkinds[(k // 2) % 3]
        regime = ['thin', 'mid', 'thick'][(k // 6) % 3]
        spec, native = make_spec(ctx.rng, gk, regime)
        try:
            model = fm.build_model(spec, kind=kind)
            nat, full, tau_full, _ = model.model()
        except Exception as e:
            ctx.malformed_outcome('build:' + type(e).__name__)
            continue
        nat = np.asarray(nat)
        base = dict(kind=kind, grid=gk, regime=regime, nlayers=spec['nlayers'], nnative=len(nat),
                    gases=[g['mol'] for g in spec['gases']], seed=ctx.seed, k=k)
        if kind == 'transmission':
            band = band_transmission(model) + 1e-12 * float(np.max(np.abs(full)))
        else:
            band = 2 * spec['nlayers'] * math.exp(-10) * float(np.max(np.abs(full))) + 1e-300
        tiny = 1e-9 * float(np.max(np.abs(full))) + 1e-300
        if not np.array_equal(nat, native):
            ctx.mismatch('nativeWavenumberGrid is the longest molecule grid', base, dict(n=len(nat), expected=len(native)))
            continue
        # ---- request 1: a sub-range of native points
        i = int(ctx.rng.integers(1, len(nat) // 2))
        j = int(ctx.rng.integers(len(nat) // 2, len(nat) - 1))
        g = nat[i:j + 1].copy()
        # a narrow window lying strictly between two neighbouring native points of a coarser molecule (that molecule is
        # then interpolated between points OUTSIDE the window)
        narrow = None
        for gs in spec['gases'][1:]:
            cw = np.asarray(gs.get('_wn', []), float)
            ci = np.searchsorted(nat, cw)
            gaps = [(a, b) for a, b in zip(ci[:-1], ci[1:]) if b - a >= 6]
            if gaps:
                a, b = gaps[int(ctx.rng.integers(0, len(gaps)))]
                mid = (a + b) // 2
                narrow = nat[mid:mid + 2].copy()
                break
        reqs = [('subrange', g), ('obs', None)] + ([('narrow-between-coarse-points', narrow)] if narrow is not None else [])
        for req_kind, req in reqs:
            cond = True
            widths = None
            if req_kind == 'obs':
                o = obs_grid(ctx.rng, nat, ok=True)
                if o is None:
                    continue
                req, widths, cond = o
                if not cond:
                    continue
            case = dict(base, request=req_kind, req=req)
            rn, rv, rt, _ = model.model(wngrid=req, cutoff_grid=True)
            rn = np.asarray(rn)
            check_clip(ctx, nat, req, rn, case)
            idx = np.searchsorted(nat, rn)
            ok_pts = np.all(nat[idx] == rn)
            if not ok_pts:
                ctx.violation('restricted-grid-not-native-points', 'restricted run returned points that are not native points',
                              case)
                continue
            diff = np.abs(np.asarray(rv) - np.asarray(full)[idx])
            ctx.case(key=(kind, gk, req_kind, regime, spec['nlayers'], len(nat)),
                     sample=dict(case, n_restricted=len(rn), maxdiff=float(diff.max()), band=band),
                     bucket='%s:%s:%s' % (kind, req_kind, regime))
            ctx.disagreements_checked += 1
            if np.any(diff > band + tiny):
                ctx.violation('restricted-differs:' + kind,
                              'value at a wavenumber changed when other wavenumbers were not computed (beyond the licensed cut-off band)',
                              case, dict(maxdiff=float(diff.max()), band=band, where=float(rn[int(diff.argmax())])))
            elif regime != 'thick' and np.any(diff > tiny) and kind == 'emission':
                # below saturation nothing may differ at all
                if float(np.max(tau_full)) < 10 and False:
                    pass
            # cutoff_grid=False must be the full computation
            fn, fv, ft, _ = model.model(wngrid=req, cutoff_grid=False)
            ctx.disagreements_checked += 1
            if not (np.array_equal(fn, nat) and C.close(list(fv), list(full), rel=1e-12)):
                ctx.violation('cutoff-false-differs', 'model(wngrid, cutoff_grid=False) differs from the native run', case)
            # ---- binned equality under the width condition
            if req_kind == 'obs' and cond:
                judge_binned(ctx, gk, nat, full, rn, rv, req, widths, case, band, tiny)
        # ---- the per-contribution and per-component runs restrict the grid in the same way (quota: every third model)
        if k % 3 == 0:
            try:
                fcn, fcl = model.model_contrib()
                rcn, rcl = model.model_contrib(wngrid=g, cutoff_grid=True)
                ffn, ffd = model.model_full_contrib()
                rfn, rfd = model.model_full_contrib(wngrid=g, cutoff_grid=True)
            except Exception as e:
                ctx.violation('contrib-restricted-raises', 'model_contrib / model_full_contrib raised %r on a sub-range request'
                              % (e,), dict(base, request='contrib', req=g))
                rcn = None
            if rcn is not None:
                ctx.bucket('%s:contrib-restricted' % kind)
                runs = [('model_contrib', np.asarray(rcn), {n_: np.asarray(v_[0]) for n_, v_ in rcl.items()},
                         {n_: np.asarray(v_[0]) for n_, v_ in fcl.items()})]
                runs.append(('model_full_contrib', np.asarray(rfn),
                             {'%s/%s' % (cn_, c[0]): np.asarray(c[1]) for cn_, lst in rfd.items() for c in lst},
                             {'%s/%s' % (cn_, c[0]): np.asarray(c[1]) for cn_, lst in ffd.items() for c in lst}))
                rn_ref = np.asarray(model.model(wngrid=g, cutoff_grid=True)[0])
                for which, rgrid, rvals, fvals in runs:
                    ccase = dict(base, request=which, req=g)
                    ctx.disagreements_checked += 1
                    if not np.array_equal(rgrid, rn_ref):
                        ctx.violation('contrib-restricted-grid:' + which, '%s(wngrid=g) does not run on the native grid '
                                      'restricted to the request as model(wngrid=g) does (%d points against %d)'
                                      % (which, len(rgrid), len(rn_ref)), ccase)
                        continue
                    idx = np.searchsorted(nat, rgrid)
                    for name in sorted(fvals):
                        if name not in rvals:
                            ctx.violation('contrib-restricted-missing:' + which, 'component %s missing from the restricted run'
                                          % name, ccase)
                            continue
                        d_ = np.abs(rvals[name] - fvals[name][idx])
                        if np.any(d_ > band + tiny):
                            ctx.violation('contrib-restricted-differs:' + which, 'the spectrum of %s at a wavenumber changed '
                                          'when other wavenumbers were not computed' % name, ccase,
                                          dict(maxdiff=float(d_.max()), band=band))
                            break
        # ---- a sequence of restricted runs on the SAME model object: equal-length windows at different places
        # (every likelihood evaluation of a retrieval re-uses the model; anything cached per grid *length* shows here)
        m = int(ctx.rng.integers(4, max(5, len(nat) // 3)))
        starts = [int(x) for x in ctx.rng.choice(np.arange(1, len(nat) - m - 1), size=3, replace=True)]
        buf = np.empty(m)          # ONE request array object, refilled in place (what a caller re-using a buffer does)
        for s0 in starts:
            buf[:] = nat[s0:s0 + m]
            g2 = buf
            rn, rv, rt, _ = model.model(wngrid=g2, cutoff_grid=True)
            rn = np.asarray(rn)
            # the run must cover THIS request: the native points the documented clip keeps for it
            check_clip(ctx, nat, g2.copy(), rn, dict(base, request='window-sequence', req=g2.copy(), starts=starts))
            if not (rn.min() <= g2.min() and rn.max() >= g2.max()):
                ctx.violation('restricted-run-misses-request', 'a restricted run on a re-used model / request buffer does not '
                              'cover the requested window', dict(base, request='window-sequence', req=g2.copy(), starts=starts),
                              dict(returned=[float(rn.min()), float(rn.max())], requested=[float(g2.min()), float(g2.max())]))
                break
            idx = np.searchsorted(nat, rn)
            if not np.all(nat[np.minimum(idx, len(nat) - 1)] == rn):
                ctx.violation('restricted-grid-not-native-points', 'restricted run returned points that are not native points',
                              dict(base, request='window-sequence', req=g2.copy()))
                continue
            diff = np.abs(np.asarray(rv) - np.asarray(full)[idx])
            ctx.disagreements_checked += 1
            ctx.bucket('%s:window-sequence:%s' % (kind, regime))
            if np.any(diff > band + tiny):
                ctx.violation('restricted-differs:sequence:' + kind,
                              'a restricted run following another restricted run on the same model differs from the full run '
                              '(beyond the licensed cut-off band)', dict(base, request='window-sequence', req=g2.copy(), starts=starts),
                              dict(maxdiff=float(diff.max()), band=band))
                break
        # and the full run again afterwards must reproduce the first full run
        nat2, full2, _, _ = model.model()
        ctx.disagreements_checked += 1
        if not (np.array_equal(nat2, nat) and C.close(list(full2), list(full), rel=1e-12)):
            ctx.violation('full-run-not-reproducible', 'the native run changed after restricted runs on the same model', base)
        # malformed: condition violated — recorded only
        o = obs_grid(ctx.rng, nat, ok=False)
        if o is not None:
            req, widths, _ = o
            try:
                from taurex.binning import FluxBinner
                b = FluxBinner(np.asarray(req), np.asarray(widths))
                rn, rv, _, _ = model.model(wngrid=req, cutoff_grid=True)
                d2 = np.abs(b.bindown(nat, np.asarray(full))[1] - b.bindown(np.asarray(rn), np.asarray(rv))[1])
                ctx.malformed_outcome('width-condition-violated:' + ('differs' if np.any(d2 > band + tiny) else 'equal'))
            except Exception as e:
                ctx.malformed_outcome('width-condition-violated:' + type(e).__name__)


# ---------------------------------------------------------------------------------------------------------------------
# models with SEVERAL contributions and operation histories over the three entry points that restrict the grid
# (model / model_contrib / model_full_contrib).  Whatever couples wavenumbers does so through state shared by the
# columns of one run: the per-layer early exit of the contribution loop (a saturated line elsewhere on the grid must not
# switch the later contributions off at the wavenumbers of the request) and whatever a contribution keeps between runs
# (the per-component path integrates with what prepare_each leaves in the contribution object; the run before it may
# have been on another grid).
E10 = math.exp(-10.0)
KINDS01 = {'CIAContribution': 1, 'SimpleCloudsContribution': 2}
LATER = ['rayleigh', 'cia', 'flatmie', 'leemie', 'clouds']


def make_line_spec(rng, gk, kind):
    """an atmosphere that is thin everywhere except for a block of 1-3 saturated native points (a strong line) in the first
    or last quarter of the native grid, with absorption and 1-3 further contributions in random insertion order"""
    spec, native = make_spec(rng, gk, 'thin')
    n = len(native)
    if rng.random() < 0.6:
        # further into the visible, where Rayleigh scattering is no longer negligible
        old = np.asarray(native, float)
        native = native_grid(rng, n, gk, amax=12000.0)
        for k, (g, o) in enumerate(zip(spec['gases'], spec['opacities'])):
            sel = np.searchsorted(old, np.asarray(g['_wn'], float))
            g['_wn'] = native[sel]
            o['wn'] = native[sel]
    spec['pmax'] = float(10 ** rng.uniform(4.5, 7))
    spec['pmin'] = float(spec['pmax'] * 10 ** rng.uniform(-7, -4))
    # re-derive a bound atmosphere for the new pressure range (same rule as fm.gen_spec)
    t = spec['temperature']
    tmax = max([t.get('T', 0.0), t.get('T_surface', 0.0), t.get('T_top', 0.0)] + list(np.ravel(t.get('tp', [0.0]))) +
               list(t.get('temperature_points', [])))
    rp_m = spec['planet_radius'] * 69911000.0
    glim = np.log(spec['pmax'] / spec['pmin']) * 1.380649e-23 * tmax / (2.0 * 1.66054e-27 * rp_m)
    spec['planet_mass'] = float(3.0 * glim * 10 ** rng.uniform(0.0, 1.0) * rp_m ** 2 / 6.67384e-11 / 1.898e27)
    if t['type'] == 'npoint':
        t['pressure_points'] = [float(np.sqrt(spec['pmin'] * spec['pmax']))]
    w = int(rng.integers(1, 4))
    low = bool(rng.random() < 0.5)
    s0 = int(rng.integers(2, max(3, n // 4 - w))) if low else int(rng.integers(3 * n // 4, n - 2 - w))
    tab = np.asarray(spec['opacities'][0]['xsec'], float)
    tab[:, :, s0:s0 + w] = 10 ** rng.uniform(-16, -12, size=tab[:, :, s0:s0 + w].shape)
    spec['opacities'][0]['xsec'] = tab
    # the request windows: two of different lengths in the half of the grid away from the line, one across the line
    half = (n // 2 + 3, n - 2) if low else (2, n // 2 - 3)

    def window(lo, hi, m):
        m = max(3, min(m, hi - lo))
        a = int(rng.integers(lo, hi - m + 1))
        return [a, a + m]
    span = half[1] - half[0]
    wins = dict(off=window(half[0], half[1], int(rng.integers(4, max(5, span // 2)))),
                off2=window(half[0], half[1], int(rng.integers(3, max(4, span // 3)))),
                on=[max(0, s0 - int(rng.integers(2, 7))), min(n, s0 + w + int(rng.integers(2, 7)))])
    nbot = spec['pmax'] / (1.380649e-23 * 1000.0)
    later = [c for c in LATER if rng.random() < (0.65 if c == 'rayleigh' else 0.4) and not (c == 'clouds' and kind != 'transmission')]
    if not any(c in later for c in ('rayleigh', 'cia', 'flatmie')):
        later.append(str(rng.choice(['rayleigh', 'flatmie'])))
    if 'leemie' in later and 'flatmie' in later:
        later.remove('leemie')
    cs = [dict(type='absorption')]
    for c in later:
        if c == 'cia':
            if not spec['cia']:
                spec['cia'] = [fm.gen_cia(rng, 'H2-H2', fm.gen_wngrid(rng, int(rng.integers(2, 6))), -50.0, -40.0,
                                          nT=int(rng.integers(1, 4)))]
            cs.append(dict(type='cia', pairs=[x['pair'] for x in spec['cia']]))
        elif c == 'rayleigh':
            cs.append(dict(type='rayleigh'))
        elif c == 'clouds':
            cs.append(dict(type='clouds', clouds_pressure=float(spec['pmax'] * 10 ** rng.uniform(-2.5, -0.2))))
        elif c == 'flatmie':
            # a grey haze of slant optical depth ~ 0.01 .. 3 at the bottom of the atmosphere
            cs.append(dict(type='flatmie', flat_mix_ratio=float(10 ** rng.uniform(-2, 0.5) / (nbot * 1e6)),
                           flat_bottomP=-1, flat_topP=-1))
        else:
            cs.append(dict(type='leemie', lee_mie_radius=float(10 ** rng.uniform(-2, 0)), lee_mie_q=float(rng.uniform(1, 60)),
                           lee_mie_mix_ratio=float(10 ** rng.uniform(-16, -10)), lee_mie_bottomP=-1, lee_mie_topP=-1))
    if rng.random() < 0.35:
        cs = [cs[i] for i in rng.permutation(len(cs))]          # two cases in three: absorption is added first
    spec['contributions'] = cs
    return spec, native, dict(line=[s0, s0 + w], windows=wins)


def _components(res):
    return {'%s/%s' % (cn, c[0]): (np.asarray(c[1], float), np.asarray(c[2], float)) for cn, lst in res.items() for c in lst}


def _band_eff(kind, band, trans_full, idx):
    """the licensed band of a restricted run against the full run.  Transmission: the only coupling between columns is the
    break `tau[layer].min() > 10` over the columns of the run; partial sums never exceed the final optical depth, so a row
    in which one of the REQUESTED columns ends at tau <= 10 in the full run is cut in neither run: if that holds for every
    row the two runs execute the same additions and must agree to rounding (Props/C13.lean:column_within_cutoff, case
    tR = full = tF)."""
    if kind != 'transmission':
        return band
    t = np.asarray(trans_full, float)[:, idx]
    return 0.0 if bool(np.all(t.max(axis=1) >= E10 * (1 + 1e-9))) else band


def run_contrib_models(ctx):
    for k in range(ctx.n(15, 240)):
        # one sub-stream per case, seeded from the run's generator: the case is replayable from (k, sub)
        eval_contrib_case(ctx, k, int(ctx.rng.integers(0, 2 ** 62)))


def eval_contrib_case(ctx, k, sub):
    rng = np.random.Generator(np.random.PCG64(sub))
    kinds = ['transmission', 'transmission', 'emission']
    gridkinds = ['linear', 'log', 'constR']
    if True:
        kind = kinds[k % 3]
        gk = gridkinds[(k // 3) % 3]
        spec, native, geo = make_line_spec(rng, gk, kind)
        names = [c['type'] for c in spec['contributions']]
        base = dict(kind=kind, grid=gk, nlayers=spec['nlayers'], nnative=len(native), contributions=names,
                    gases=[g['mol'] for g in spec['gases']], seed=ctx.seed, k=k, sub=sub, stream='multi-contrib',
                    line=geo['line'], windows=geo['windows'])
        has_cloud = 'clouds' in names
        wins = {None: None}
        wins.update({kk: native[a:b].copy() for kk, (a, b) in geo['windows'].items()})
        if k % 3 == 0:        # the sequence of the `taurex` program: native run, then every component on the observed range
            hist = [('model', None), ('full', 'off'), ('contrib', 'off2'), ('full', 'on'), ('model', 'off')]
        elif k % 3 == 1:
            hist = [('model', 'on'), ('full', 'off'), ('model', 'off'), ('contrib', 'on'), ('full', 'off2')]
        else:
            hist = [(str(rng.choice(['model', 'contrib', 'full'])), [None, 'off', 'off2', 'on'][int(rng.integers(0, 4))])
                    for _ in range(5)]
            hist.append(('model', 'off'))
        base['history'] = [[o, w] for o, w in hist]
        try:
            model = fm.build_model(spec, kind=kind)
            nat, full, trans_full, _ = model.model()
            nat = np.asarray(nat, float)
            full = np.asarray(full, float)
            trans_full = np.asarray(trans_full, float)
            prof = fm.profiles(model)
            sig_full = [(KINDS01.get(type(c).__name__, 0), np.array(c.sigma_xsec, float)) for c in model.contribution_list]
            ref_contrib = {n_: (np.asarray(v_[0], float), np.asarray(v_[1], float)) for n_, v_ in model.model_contrib()[1].items()}
            ref_full = _components(model.model_full_contrib()[1])
        except Exception as e:
            ctx.malformed_outcome('multi-contrib:build:' + type(e).__name__)
            return
        if not np.array_equal(nat, native):
            ctx.mismatch('nativeWavenumberGrid is the longest molecule grid', base, dict(n=len(nat), expected=len(native)))
            return
        if kind == 'transmission':
            band = band_transmission(model) + 1e-12 * float(np.max(np.abs(full)))
        else:
            band = 2 * spec['nlayers'] * math.exp(-10) * float(np.max(np.abs(full))) + 1e-300
        tiny = 1e-9 * float(np.max(np.abs(full))) + 1e-300
        # ---- what this case can show (input distribution): a row with saturated AND clear columns in the full run ...
        if kind == 'transmission':
            part = (trans_full.min(axis=1) <= E10) & (trans_full.max(axis=1) >= 0.5)
            ctx.bucket('multi-contrib:rows-partially-saturated:' + ('some' if part.any() else 'none'))
            # ... and a contribution listed after the absorber that matters on the window away from the line
            order = [type(c).__name__ for c in model.contribution_list]
            a, b = geo['windows']['off']
            bare = prof['rp'] ** 2 / prof['rs'] ** 2
            after = [c.name for c in model.contribution_list[order.index('AbsorptionContribution') + 1:]] \
                if 'AbsorptionContribution' in order else []
            sens = part.any() and any(float(np.max(ref_contrib[nm][0][a:b] - bare)) > 10 * band for nm in after if nm in ref_contrib)
            ctx.bucket('multi-contrib:later-contribution-matters-off-line:' + ('yes' if sens else 'no'))
        ctx.case(key=('multi-contrib', kind, gk, tuple(sorted(names)), spec['nlayers']),
                 sample=dict(base, windows=geo['windows']), bucket='multi-contrib:%s' % kind)
        for c in names:
            ctx.bucket('multi-contrib:contrib:' + c)
        prev = 'native'
        stop = False
        for step, (op, wkey) in enumerate(hist):
            req = wins[wkey]
            case = dict(base, request='history:%s(%s)' % (op, wkey), step=step, req=req)
            if op == 'full' and has_cloud:
                # (pinned tree: SimpleCloudsContribution.prepare_each never set self.sigma_xsec, so model_full_contrib with a
                # cloud deck raised or used a stale deck; found here, repaired in /repo — DESIGN §6 — and judged since)
                ctx.bucket('multi-contrib:model_full_contrib-with-cloud-deck-judged')
            try:
                if op == 'model':
                    rn, rv, rt, _ = model.model(wngrid=req, cutoff_grid=True)
                    got = {'model': (np.asarray(rv, float), np.asarray(rt, float))}
                    ref = {'model': (full, trans_full)}
                elif op == 'contrib':
                    rn, res = model.model_contrib(wngrid=req, cutoff_grid=True)
                    got = {n_: (np.asarray(v_[0], float), np.asarray(v_[1], float)) for n_, v_ in res.items()}
                    ref = ref_contrib
                else:
                    rn, res = model.model_full_contrib(wngrid=req, cutoff_grid=True)
                    got = _components(res)
                    ref = ref_full
            except Exception as e:
                ctx.violation('restricted-raises:' + op, '%s(wngrid=...) raised %r after a run on %s' % (op, e, prev), case)
                break
            rn = np.asarray(rn, float)
            ctx.bucket('multi-contrib:op:%s:%s:after-%s' % (op, 'native' if wkey is None else wkey, prev))
            prev = 'native' if wkey is None else wkey
            if req is None:
                idx = np.arange(len(nat))
                if not np.array_equal(rn, nat):
                    ctx.violation('native-grid-changed', '%s() no longer runs on the native grid' % op, case)
                    break
            else:
                check_clip(ctx, nat, req, rn, case)
                idx = np.searchsorted(nat, rn)
                if not np.all(nat[np.minimum(idx, len(nat) - 1)] == rn):
                    ctx.violation('restricted-grid-not-native-points', 'restricted run returned points that are not native points', case)
                    break
                s0, s1 = geo['line']
                ctx.bucket('multi-contrib:window-%s-the-line' % ('contains' if np.any((idx >= s0) & (idx < s1)) else 'excludes'))
            for name in sorted(ref):
                if name not in got:
                    ctx.violation('contrib-restricted-missing:' + op, 'component %s missing from the run' % name, case)
                    stop = True
                    break
                rv_, rt_ = got[name]
                fv_, ft_ = ref[name]
                be = _band_eff(kind, band, ft_, idx)
                ctx.bucket('multi-contrib:compared:' + ('to-rounding' if be == 0.0 else 'within-licensed-band'))
                ctx.disagreements_checked += 1
                d_ = np.abs(rv_ - fv_[idx])
                if rv_.shape != fv_[idx].shape or np.any(d_ > be + tiny):
                    which = dict(model='restricted-differs:multi-contrib:' + kind, contrib='contrib-restricted-differs:model_contrib',
                                 full='contrib-restricted-differs:model_full_contrib')[op]
                    ctx.violation(which, 'the spectrum of %s at a wavenumber changed with the set of wavenumbers computed in the same '
                                  'run / with the grid of the run before it (history %s)' % (name, base['history'][:step + 1]), case,
                                  dict(component=name, maxdiff=float(d_.max()), band=be, tiny=tiny,
                                       where=float(rn[int(d_.argmax())]), restricted=rv_[:6], full=fv_[idx][:6]))
                    stop = True
                    break
            if stop:
                break
            # ---- the restricted run against the Lean model of C01 run on the SAME columns of the cross-sections of the full run
            # (column_independent_trans / column_within_cutoff are statements about exactly this re-indexing)
            if op == 'model' and kind == 'transmission' and req is not None:
                new = bool(spec.get('new_path_method'))
                d = ctx.model('C01').call('c01.spectrum', C.N(1 if new else 0), C.F(prof['rp']), C.F(prof['rs']), C.L(prof['z']),
                                          C.L(prof['dz']), C.L(prof['zb']), C.L(prof['density']), C.N(len(idx)),
                                          C.L(sig_full, lambda ks: C.N(ks[0]) + ' ' + C.LL(ks[1][:, idx].tolist())))
                nl = prof['nlayers']
                d.list(lambda: d.list())
                d.list(lambda: d.list())
                dcut = np.array(d.list())
                dfull = np.array(d.list())
                ctx.check_close('model(wngrid).depth vs Transmission.modelDepth (early exit) on the re-indexed columns of the full run',
                                got['model'][0], dcut, case, rel=1e-9, abs_=band)
                ctx.disagreements_checked += 1
                if not np.all((got['model'][0] <= dfull * (1 + 1e-9)) & (got['model'][0] >= dfull * (1 - 1e-9) - band)):
                    ctx.mismatch('model(wngrid).depth vs uncut Transmission.modelDepth on the re-indexed columns within the band', case,
                                 dict(impl=got['model'][0], model_full=dfull, band=band))
        # the native run afterwards reproduces the first one
        if not stop:
            nat2, full2, _, _ = model.model()
            ctx.disagreements_checked += 1
            if not (np.array_equal(nat2, nat) and C.close(list(full2), list(full), rel=1e-12)):
                ctx.violation('full-run-not-reproducible', 'the native run changed after restricted runs on the same model', base)


def run_opacity(ctx):
    """Opacity.opacity(T,P,wngrid): own native points unchanged; other points between neighbouring native values"""
    from harness.c04 import make_opacity
    rng = ctx.rng
    for k in range(ctx.n(120, 3000)):
        n = int(rng.integers(3, 30))
        wn = np.sort(rng.choice(np.arange(100, 9000, 1.5), size=n, replace=False))
        tg = np.array([300.0, 900.0])
        pg = np.array([1.0, 1e5])
        ng = 0 if k % 4 != 3 else int(rng.integers(1, 4))        # every 4th case: k-table layout (KTable.opacity)
        if ng:
            tab = 10 ** rng.uniform(-30, -18, size=(2, 2, n, ng))
            w = rng.random(ng) + 0.1
            op = make_opacity(tg, pg, tab, wn, 'linear', w / w.sum())
        else:
            tab = 10 ** rng.uniform(-30, -18, size=(2, 2, n))
            op = make_opacity(tg, pg, tab, wn, 'linear')
        T, P = float(rng.uniform(300, 900)), float(10 ** rng.uniform(0, 5))
        native_vals = np.asarray(op.opacity(T, P))
        if ng:
            run_ktable_case(ctx, op, wn, native_vals, T, P, k, ng)
            continue
        kind = ['own', 'other', 'mixed'][k % 3]
        if kind == 'own':
            i = int(rng.integers(0, n - 1))
            j = int(rng.integers(i + 1, n))
            req = wn[i:j + 1].copy()
        elif kind == 'other':
            m = int(rng.integers(2, 12))
            req = np.sort(rng.uniform(wn[0], wn[-1], size=m))
        else:
            i = int(rng.integers(0, n - 1))
            req = np.sort(np.concatenate([wn[i:i + 2], rng.uniform(wn[0], wn[-1], size=2)]))
        case = dict(kind=kind, wn=wn, req=req, T=T, P=P)
        try:
            out = np.asarray(op.opacity(T, P, req))
        except Exception as e:
            ctx.violation('opacity-raises', 'Opacity.opacity raised for a request inside the native range: %r' % (e,), case)
            continue
        d = ctx.model().call('c13.opacity', C.L(wn), C.L(native_vals), C.L(req))
        mod = np.array(d.list())
        ctx.case(key=('opacity', kind, n, len(req)), sample=dict(kind=kind, n=n, m=len(req)), bucket='opacity:' + kind)
        ctx.check_close('Opacity.opacity(wngrid) vs Grid.opacityOnGrid', out, mod, case, rel=1e-12)
        if kind == 'own':
            i0 = int(np.searchsorted(wn, req[0]))
            if not np.array_equal(out, native_vals[i0:i0 + len(req)]):
                ctx.violation('own-grid-changed', 'opacity requested on the molecule\'s own native points was changed', case)
        else:
            # between the neighbouring native values of the molecule's full native grid
            for x, v in zip(req, out):
                r = int(np.searchsorted(wn, x, side='right'))
                if r == 0 or r == len(wn) or wn[r - 1] == x:
                    lo = hi = native_vals[min(max(r - 1, 0), len(wn) - 1)]
                else:
                    lo, hi = min(native_vals[r - 1], native_vals[r]), max(native_vals[r - 1], native_vals[r])
                if v < lo * (1 - 1e-12) or v > hi * (1 + 1e-12):
                    ctx.violation('other-grid-outside-neighbours',
                                  'interpolated opacity outside the neighbouring native values', case,
                                  dict(x=float(x), v=float(v), lo=float(lo), hi=float(hi)))
                    break


def run_ktable_case(ctx, op, wn, native_vals, T, P, k, ng, kind=None):
    """KTable.opacity(T,P,wngrid): same grid handling as Opacity.opacity, per g-point (scipy interp1d, linear,
    edge fill = np.interp's clamping)"""
    rng = ctx.rng
    n = len(wn)
    kind = kind or ['own', 'other', 'mixed', 'top-between'][(k // 4) % 4]
    if kind.startswith('beyond-'):
        # the request reaches beyond the table's first / last point (a molecule whose k-table covers only part of the grid
        # being computed): points outside take the end value, points inside are interpolated / own points unchanged
        i = int(rng.integers(0, n - 2)); j = int(rng.integers(i + 1, n - 1))
        span = float(wn[-1] - wn[0])
        inside = [wn[i:j + 1], rng.uniform(wn[i], wn[j], size=int(rng.integers(0, 4)))]
        below = np.maximum(1.0, wn[0] - rng.uniform(0.01, 0.5, size=int(rng.integers(1, 4))) * span)
        above = wn[-1] + rng.uniform(0.01, 0.5, size=int(rng.integers(1, 4))) * span
        if kind == 'beyond-bottom':
            req = np.concatenate([below, wn[:i + 1]] + inside)
        elif kind == 'beyond-top':
            req = np.concatenate(inside + [wn[j:], above])
        else:
            req = np.concatenate([below] + inside + [above])
            if k % 2:
                req = np.concatenate([req, wn])
        req = np.unique(req)
    elif kind == 'own':
        i = int(rng.integers(0, n - 1)); j = int(rng.integers(i + 1, n)); req = wn[i:j + 1].copy()
    elif kind == 'other':
        req = np.sort(rng.uniform(wn[0], wn[-1], size=int(rng.integers(2, 12))))
    elif kind == 'mixed':
        i = int(rng.integers(0, n - 1))
        req = np.sort(np.concatenate([wn[i:i + 2], rng.uniform(wn[0], wn[-1], size=2)]))
    else:
        # the request's top end strictly between two table points, its bottom on a table point
        i = int(rng.integers(0, n - 2)); j = int(rng.integers(i + 1, n - 1))
        req = np.sort(np.concatenate([wn[i:j + 1], [wn[j] + rng.uniform(0.05, 0.95) * (wn[j + 1] - wn[j])]]))
    case = dict(kind='ktable:' + kind, wn=wn, req=req, T=T, P=P, ng=ng)
    try:
        out = np.asarray(op.opacity(T, P, req))
    except Exception as e:
        ctx.violation('ktable-opacity-raises', 'KTable.opacity raised for a request inside the native range: %r' % (e,), case)
        return
    ctx.case(key=('ktable-opacity', kind, n, len(req), ng), sample=dict(kind=kind, n=n, m=len(req), ng=ng),
             bucket='opacity:ktable:' + kind)
    for g in range(ng):
        d = ctx.model().call('c13.opacity', C.L(wn), C.L(native_vals[:, g]), C.L(req))
        mod = np.array(d.list())
        ctx.check_close('KTable.opacity(wngrid) vs Grid.opacityOnGrid (per g-point)', out[:, g], mod, dict(case, g=g), rel=1e-12)
        for x, v in zip(req, out[:, g]):
            r = int(np.searchsorted(wn, x, side='right'))
            if r == 0 or r == len(wn) or wn[r - 1] == x:
                lo = hi = native_vals[min(max(r - 1, 0), len(wn) - 1), g]
                if wn[min(max(r - 1, 0), len(wn) - 1)] == x and v != lo:
                    ctx.violation('ktable-own-point-changed', 'k-coefficient at one of the table\'s own points was changed',
                                  dict(case, g=g), dict(x=float(x), v=float(v), expected=float(lo)))
                    return
            else:
                lo, hi = sorted((native_vals[r - 1, g], native_vals[r, g]))
                t = (x - wn[r - 1]) / (wn[r] - wn[r - 1])
                lin = native_vals[r - 1, g] + t * (native_vals[r, g] - native_vals[r - 1, g])
                if not C.close(v, lin, rel=1e-9):
                    ctx.violation('ktable-not-interpolated', 'k-coefficient between two table points is not their linear '
                                  'interpolation (clamped or extrapolated)', dict(case, g=g),
                                  dict(x=float(x), v=float(v), expected=float(lin)))
                    return
            if v < lo * (1 - 1e-12) or v > hi * (1 + 1e-12):
                ctx.violation('ktable-outside-neighbours', 'k-coefficient outside the neighbouring table values',
                              dict(case, g=g), dict(x=float(x), v=float(v), lo=float(lo), hi=float(hi)))
                return


def run_ktable_beyond(ctx):
    """KTable.opacity(T,P,wngrid) for requests that reach beyond one or both ends of the table (the table of a molecule that
    does not supply the native grid and is narrower than the range being computed); after the older streams, whose draws
    stay as they were"""
    from harness.c04 import make_opacity
    rng = ctx.rng
    for k in range(ctx.n(36, 900)):
        n = int(rng.integers(4, 30))
        wn = np.sort(rng.choice(np.arange(600, 9000, 1.5), size=n, replace=False))
        ng = int(rng.integers(1, 5))
        tab = 10 ** rng.uniform(-30, -18, size=(2, 2, n, ng))
        w = rng.random(ng) + 0.1
        op = make_opacity(np.array([300.0, 900.0]), np.array([1.0, 1e5]), tab, wn, 'linear', w / w.sum())
        T, P = float(rng.uniform(300, 900)), float(10 ** rng.uniform(0, 5))
        run_ktable_case(ctx, op, wn, np.asarray(op.opacity(T, P)), T, P, k, ng,
                        kind=['beyond-bottom', 'beyond-top', 'beyond-both'][k % 3])


def run(ctx):
    fm.quiet()
    try:
        run_opacity(ctx)
        run_witness(ctx)
        run_models(ctx)
        run_contrib_models(ctx)
        run_ktable_beyond(ctx)
    finally:
        fm.reset_caches()


def replay(ctx, case):
    fm.quiet()
    if isinstance(case.get('case'), dict) and 'stream' in case['case']:
        case = case['case']                 # a replays/*.json payload
    if 'native' in case and 'spectrum' in case and 'obs' in case:
        run_binned_case(ctx, case)          # stored binning case (corpus/C13): clip + FluxBinner on the real code
        return
    if case.get('stream') == 'multi-contrib':
        eval_contrib_case(ctx, int(case['k']), int(case['sub']))     # regenerated from its own sub-stream seed
        return
    ctx.notes.append('replay of C13 cases re-runs the generator stream with the recorded seed/k: ' + str(case.get('k')))
