"""Dialect `seq` of the source translator (specs with `dialect='seq'`): the LIST MODE (harness/translate_list.py, class
`VFn`: 1-D numpy arrays and Python lists of numbers as Lean `List`s, typed translation) extended by what the smoothing /
interpolation code of the temperature and abundance profiles needs, translated FAITHFULLY where the list mode totalises:

  * PYTHON INTS that may be negative: type 'int' (Lean `Int`).  `int(x)` of a float is the parameter `pyInt : α → Int`
    (truncation toward zero cannot be written for an abstract carrier; spec key `int_ext` renames it); an int that meets a
    float is converted by the parameter `toFloat : Int → α` (`float_ext`); `a - b` on ints / lengths is the subtraction of
    `Int` (NOT truncated), `a / b` on ints is the float `toFloat a / toFloat b`, `a % k` for a positive literal `k` is
    `Int.emod` (= Python's floored modulo for a positive divisor), unary minus, `max` / `min`, comparisons.  A length /
    index ('nat') is coerced to 'int' where the other operand is one (`Int.ofNat`).
  * BASIC SLICES WITH ARBITRARY INT BOUNDS `a[lo:hi]` (`Np.pySlice`, lean/TaurexModel/Gen/SeqPrelude.lean): CPython's
    adjustment — a negative bound counts from the end, bounds are clamped to `[0, len]`, the slice is empty when the stop
    is not beyond the start; so `a[b:-b]` with `b = 0` is `a[0:0]`, the EMPTY slice.  `a[i]` with an int index: `Np.getInt`.
  * RUN-TIME SHAPE TESTS OF NUMPY.  A function declared `raises=True` returns `Except String ρ`: `return e` is
    `Except.ok e`, `raise X` / `raise X(…)` is `Except.error "X"` (the class name of the source text).  An element-wise
    operation of two arrays is preceded by the test `Np.bcastOk` (equal lengths or one operand of length 1: numpy's
    broadcasting rule for 1-D operands) and a slice store `a[lo:hi] = v` by `Np.storeOk` (as many values as selected
    entries, or exactly one); when the test fails the translated function returns `Except.error "ValueError"`, as numpy
    raises ValueError.  The tests are emitted as guard lines `if !(test) then (Except.error "ValueError") else` BEFORE the
    statement they belong to (Python evaluates the operands first and raises while evaluating the statement); a
    conditional one of whose branches contains such an exit is translated in continuation style (the statements after it
    are repeated in both branches).  A call of a translated function that `raises` is bound by
    `match f … with | Except.error e__ => Except.error e__ | Except.ok r__ => …` (the exception propagates).
    A test inside a translated loop body is Untranslatable.
  * a call STATEMENT of a method translated earlier in the same file by the base / `arr` rules as "raises" (Bool result, e.g.
    `self.check_profile(Pnodes, Tnodes)`): `if <call> then <raise_value of the spec> else …`; list arguments are passed as
    `fun i => l.getD i 0` plus their length where the callee declares one (`lens`).
  * OPTIONAL ATTRIBUTES: kind 'opt' (`Option α`): `x is None`, `x is None or c(x)` (`or` evaluates `c(x)` only for a value),
    `if x is None or c(x): x = e` (afterwards `x` is a number): `Option.elim x e (fun v => if c(v) then e else v)`.
  * `if E is None: A else: B` (also `is not None`) for an optional number `E` given by ANY expression (an attribute, a
    component `t[k]` of a tuple an external returned): `Option.elim E (A) (fun v => B)`; inside `B` the expression `E` — and
    every local assigned from it and not re-bound since — is the number `v`, inside `A` it is None and tests on it are
    decided.  The conditional yields the variables its branches assign; when a branch may raise it yields an `Except`
    that is bound by `match` (the statements after the conditional are NOT repeated).  `x = []` is a placeholder that
    must be overwritten before use; `np.power(x, y)` is `x ** y` (literal exponent 2..6: product; base 10: `pow10`;
    otherwise the declared external `externals={'**': (name, 2)}`, entry by entry);
  * `np.array(l)` of a list of numbers (the same values), a call of an ATTRIBUTE that holds a function value (kind
    `('fn', ('s',), 's')`, e.g. the interpolant an external such as `interp1d` returned to `__init__`; applied to an array
    it is applied to every entry), attributes of kind 'none' (left None under the translated calling pattern: no parameter);
  * `[a, *xs, b]` (`[a] ++ xs ++ [b]`), `np.cumsum(a)` (`Np.cumsum`), `x.argmin()` (`Np.argmin`: first minimum), a
    condition whose whole source text is declared in `b_externals` (e.g. a comparison whose meaning depends on the run-time
    type of its operands) is a Bool parameter; `getter=True`: the function of that name decorated `@property` (the last
    `def` of the name is the setter).
  * ALIASING.  Arrays are translated as values; numpy basic slices (`a[::-1]`, `a[lo:hi]`) and plain names are VIEWS.  An
    in-place store into `x` is translated only when every array whose memory `x` may share was created in this function
    (never a parameter or an attribute read from the object), the store is not inside a loop, and no other variable
    that may share that memory is read after the store; results of translated functions are taken to share memory with
    all their array arguments.  Otherwise Untranslatable.
  * LISTS OF NAMES (the active / inactive split of the chemistry classes).  Kinds 'str' (`String`), 'strlist' (`List String`),
    `('plist', (t1, t2))` (a list of pairs, `List (T1 × T2)`), `('optl', t)` (a list or None: `Option (List …)`).
    `x in l` / `x not in l` for a name in a list of names (`List.contains`); a list comprehension with one generator
    `[e for x in L if c]` / `[e for i, x in enumerate(L) if c]` (`List.map … (List.filter … (List.zipIdx L))`; `e` a number,
    a name, an index, or a pair of those);
    `try: a, b = zip(*L)  except ValueError: a, b = e1, e2` for a list `L` of pairs whose evaluation cannot raise: `zip(*L)`
    yields the tuple of first and the tuple of second components (tuples are read as lists) — or NOTHING when `L` is empty, and
    then the unpacking raises ValueError: `if L.isEmpty then (e1, e2) else (L.map (·.1), L.map (·.2))`; a component that is
    `None` on one path and a list on the other is an `Option`; `isinstance(x, str)` is decided by the declared kind of `x`
    (partial evaluation, like `x is None`); `[s1, s2]` of names;
    `if x is not None: x = f(x)` for such an optional list: `Option.map (fun v => f v) x`; `if x is not None: y = f(x, y)`:
    `Option.elim x y (fun v => f v y)`; `np.array(l)` of an index list; a call / subscript whose whole source text is
    declared in `t_externals` (e.g. `GlobalCache()['deactive_molecules']`) is a parameter of the declared type.
  * OPTIONAL ARRAYS (`('optl', t)`, t a list / index-list / 2-D 'rows' kind) beyond the update patterns above:
    `if E is None: A else: B` for such a value `E` (a name / attribute): `Option.elim E (A; rest) (fun v => B; rest)` —
    continuation style, inside `B` the expression `E` is the array `v`, inside `A` it is None; a function declared
    `returns=('optl', t)` returns `none` for `return None` and `some e` for `return e`; the subscript `E[i]` of an optional
    array unwraps it first: `Option.elim E (Except.error "TypeError") fun v => …` (Python: 'NoneType' object is not
    subscriptable); `M[i]` for a 2-D array and an index: the row (`M.getD i []`, out of range totalised like the list mode);
    `l.index(x)` for a list of names: `List.idxOf x l` behind the guard `List.contains l x` (Python raises ValueError when
    `x` is absent); a `@property` translated as raising is bound by `match` where it is read.
  * DICTS WITH LITERAL STRING KEYS AND ARRAY VALUES (the profile dictionaries of the output code): `d = {}` is the empty
    insertion-ordered association list `List (String × Np.PyVal α)`; `d['key'] = e` (a string literal) is `Np.dictSet d
    "key" v` (an existing key keeps its position and gets the new value, a new key is appended) where `v` injects the
    value by its type: a 1-D array `Np.PyVal.arr`, a 2-D array `Np.PyVal.arr2`, `None` `Np.PyVal.none`, an optional array
    `Option.elim e Np.PyVal.none Np.PyVal.arr2` (…`arr`); the dict may be passed on, returned, and stored into again.
  * TEXT FILES OF NUMBERS AND LISTS OF ARRAYS (the chains files the nested-sampling wrappers read back).  A statement RANGE
    of a function: `start_at=<text of its first statement>`, `stop_at=<text prefix of the first statement after it>`,
    `free_locals={name: kind}` (locals the statements before have set: parameters), `result=[names]` (the value: the tuple
    of these locals after the range).  `assume={'self.flag': True}`: the truth value of an attribute under the translated
    calling pattern (tests on it are decided; one spec per pattern).  `locals={name: kind}` gives `x = []` its type ('list',
    'rows', 'rows3' = a list of 2-D arrays, 'strlist'); `x.append(e)` appends (`x ++ [e]`); `[a]` of one array / 2-D array is
    the one-element list of it.  `with <declared text> as f:` (`with_externals`) runs its body (the handle is only used
    through declared texts: `f.readlines()` ↦ a `t_externals` list of lines).  Loops over a list of lines / rows / 2-D arrays
    (`enumerate` too).  Strings: literals, `a == b`, `lines[i]` (Python's negative indices, `Np.getInt`), `s.split()` is the
    parameter `splitWs : String → List String` (the whitespace-separated tokens), `toks[k:]`, `toks[k]`, `float(tok)` is the
    parameter `parseFloat : String → α` (ValueError for a malformed token is not modelled).  2-D arrays: `M[:, lo:hi]` (the
    slice of every row), `np.zeros((a, b))`, `M[i, :] = v` (`Np.setRow`: numpy raises unless `v` has the row's length or one
    entry; totalised: the array is left unchanged), `M[i]`.  `fn_externals={<text>: (lean, [local names], kind)}`: an
    expression whose value depends on the listed locals only through the outside world (a file named after a loop index)
    is the parameter `lean` applied to them.
Everything else is the list mode (read its docstring); what neither covers raises Untranslatable."""
import ast
import re

from harness.translate import Untranslatable
from harness.translate_list import VFn, is_lit, is_tuple, is_fn, simple, LISTY, ELEM

# calls whose result is a freshly allocated array (it shares memory with none of the arguments)
FRESH = {'np.cumsum', 'np.interp', 'np.log', 'np.log10', 'np.exp', 'np.sqrt', 'np.abs', 'np.zeros', 'np.ones',
         'np.zeros_like', 'np.ones_like', 'np.linspace', 'np.logspace', 'np.array', 'np.copy', 'np.diff', 'np.power',
         'np.concatenate', 'np.maximum', 'np.minimum', 'np.arange'}


class SeqFn(VFn):
    def __init__(self, spec, tree, src_lines, known_funcs):
        super().__init__(spec, tree, src_lines, known_funcs)
        self.src_lines = src_lines
        if spec.get('getter'):
            body = tree.body
            for n in tree.body:
                if isinstance(n, ast.ClassDef) and n.name == spec.get('cls'):
                    body = n.body
            hits = [n for n in body if isinstance(n, ast.FunctionDef) and n.name == spec['func']
                    and any(ast.unparse(d) == 'property' for d in n.decorator_list)]
            if len(hits) != 1:
                raise Untranslatable('%s: no unique @property getter of that name' % spec['func'])
            self.node = hits[0]
            self.src = ''.join(src_lines[self.node.lineno - 1:self.node.end_lineno])
            self.lineno = self.node.lineno
        self.bext = dict(spec.get('b_externals', {}))     # source text of a condition -> Bool parameter
        self.text = dict(spec.get('t_externals', {}))     # source text of a call / subscript -> (parameter, type)
        self.raises = bool(spec.get('raises'))
        self.int_ext = spec.get('int_ext', 'pyInt')
        self.float_ext = spec.get('float_ext', 'toFloat')
        self.assume = dict(spec.get('assume', {}))        # attribute text -> truth value under the translated calling pattern
        self.local_kinds = dict(spec.get('locals', {}))   # local name -> kind of the list `x = []` starts
        self.fn_ext = dict(spec.get('fn_externals', {}))  # expression text -> (lean name, [local names], kind)
        self.with_ext = list(spec.get('with_externals', ()))   # texts of `with` context expressions whose body is run as it is
        self.pending = []                                 # guards / binds of the statement being translated, in order
        self.ntmp = 0
        self.nexits = 0                                   # error exits emitted so far
        self.parent = {}
        for p in ast.walk(self.node):
            for c in ast.iter_child_nodes(p):
                self.parent[c] = p

    # ------------------------------------------------------------------ types
    def lean_ty(self, k):
        if k == 'int':
            return 'Int'
        if k == 'opt':
            return 'Option α'
        if k == 'strlist':
            return 'List String'
        if k == 'anydict':
            return 'List (String × Np.PyVal α)'
        if k == 'rows3':
            return 'List (List (List α))'
        if isinstance(k, tuple) and k[0] == 'plist':
            return 'List (%s × %s)' % (self.lean_ty(k[1][0]), self.lean_ty(k[1][1]))
        if isinstance(k, tuple) and k[0] == 'optl':
            return 'Option (%s)' % self.lean_ty(k[1])
        return super().lean_ty(k)

    def co(self, res, want, node=None):
        txt, ty = res
        if want == 'int' and ty != 'int':
            if is_lit(ty):
                return '(%d : Int)' % ty[1]
            if ty == 'nat':
                return '(Int.ofNat %s)' % txt
        return super().co(res, want, node)

    def default(self, ty, node=None):
        if ty == 'strlist':
            return '""'
        if ty == 'rows3':
            return '[]'
        return super().default(ty, node)

    ITER_ELEM = {'strlist': 'str', 'rows3': 'rows'}

    def iterator(self, node, env):
        if not isinstance(node, ast.Call):
            snap = self.snapshot()
            txt, ty = self.tx(node, env)
            if ty in self.ITER_ELEM:                      # a list of lines / of 2-D arrays
                return txt, self.ITER_ELEM[ty]
            self.restore(snap)
        return super().iterator(node, env)

    def to_float(self, res, node):
        """a Python number as a float: ints go through the parameter `toFloat`"""
        txt, ty = res
        if ty == 's':
            return txt
        if is_lit(ty):
            return self.co(res, 's', node)
        if ty in ('nat', 'int'):
            self.add_param(self.float_ext, 'Int → α')
            return '(%s %s)' % (self.float_ext, self.co(res, 'int', node))
        self.fail(node, 'a %s where a number is needed' % (ty,))

    def snapshot(self):
        return (super().snapshot(), list(self.pending), self.ntmp, self.nexits)

    def restore(self, snap):
        super().restore(snap[0])
        self.pending, self.ntmp, self.nexits = list(snap[1]), snap[2], snap[3]

    def err(self, name, node=None):
        if not self.raises:
            self.fail(node, 'the function may raise %s here: declare raises=True' % name)
        return '(Except.error "%s")' % name

    def flush(self, ind, ctx, node=None):
        """the run-time checks / bindings collected while the expressions of the current statement were translated"""
        out = ''
        for item in self.pending:
            if ctx and ctx.get('cont'):
                self.fail(node, 'a run-time check inside a translated loop body')
            if item[0] == 'guard':
                out += '%sif !%s then %s else\n' % (ind, item[1], self.err('ValueError', node))
            elif item[0] == 'unwrap':                     # subscript of an optional array: None is not subscriptable
                out += '%sOption.elim %s %s fun %s =>\n' % (ind, item[1], self.err('TypeError', node), item[2])
            else:
                self.err('propagated', node)
                out += '%smatch %s with\n%s| Except.error e__ => (Except.error e__)\n%s| Except.ok %s =>\n' % (
                    ind, item[1], ind, ind, item[2])
            self.nexits += 1
        self.pending = []
        return out

    @staticmethod
    def inty(t):
        return t in ('int', 'nat') or is_lit(t)

    # ------------------------------------------------------------------ static evaluation
    def static(self, node, env):
        if isinstance(node, ast.Attribute) and ast.unparse(node) in self.assume:
            return bool(self.assume[ast.unparse(node)])   # the calling pattern this spec translates
        if isinstance(node, ast.Compare) and len(node.ops) == 1 and isinstance(node.ops[0], (ast.Is, ast.IsNot)) \
                and isinstance(node.comparators[0], ast.Constant) and node.comparators[0].value is None:
            ty = self.tx(node.left, env)[1]
            if ty == 'opt' or (isinstance(ty, tuple) and ty[0] == 'optl'):
                return None                               # decided at run time
        if isinstance(node, (ast.Call, ast.Compare, ast.BoolOp)) and ast.unparse(node) in self.bext:
            return None
        if isinstance(node, ast.Call) and ast.unparse(node.func) == 'isinstance' and len(node.args) == 2 \
                and not node.keywords and isinstance(node.args[1], ast.Name) and node.args[1].id == 'str':
            ty = self.tx(node.args[0], env)[1]            # decided by the declared kind (a list / None is not a str)
            if ty == 'str':
                return True
            if ty in ('s', 'nat', 'int', 'bool', 'none', 'opt', 'list', 'natlist', 'mask', 'rows', 'strlist') \
                    or is_lit(ty) or (isinstance(ty, tuple) and ty[0] in ('optl', 'plist', 'tuple')):
                return False
            return None
        return super().static(node, env)

    # ------------------------------------------------------------------ expressions
    def arith(self, op, L, R, node):
        (lt, lty), (rt, rty) = L, R
        if op == '%':
            if lty in ('int', 'nat') and is_lit(rty) and rty[1] >= 1:
                return '(%s %% %d)' % (lt, rty[1]), lty
            self.fail(node, 'modulo other than int % positive literal')
        if self.inty(lty) and self.inty(rty) and not (is_lit(lty) and is_lit(rty)):
            if op == '/':                                 # true division of two Python ints: a float
                return '(%s / %s)' % (self.to_float(L, node), self.to_float(R, node)), 's'
            if op in ('+', '-', '*') and ('int' in (lty, rty) or op == '-'):
                return '(%s %s %s)' % (self.co(L, 'int', node), op, self.co(R, 'int', node)), 'int'
        if lty in ('int', 'nat') and rty in ('s', 'list'):
            L = (self.to_float(L, node), 's')
        if rty in ('int', 'nat') and lty in ('s', 'list'):
            R = (self.to_float(R, node), 's')
        if L[1] == 'list' and R[1] == 'list':
            self.pending.append(('guard', '(Np.bcastOk (List.length %s) (List.length %s))' % (L[0], R[0])))
        return super().arith(op, L, R, node)

    def compare(self, op, L, R, node):
        if L[1] == 'str' and R[1] == 'str' and op in (ast.Eq, ast.NotEq):
            return ('(%s == %s)' if op is ast.Eq else '(%s != %s)') % (L[0], R[0]), 'bool'
        if 'int' in (L[1], R[1]) and self.inty(L[1]) and self.inty(R[1]):
            a, b = self.co(L, 'int', node), self.co(R, 'int', node)
            rel = {ast.Lt: 'decide (%s < %s)' % (a, b), ast.LtE: 'decide (%s ≤ %s)' % (a, b),
                   ast.Gt: 'decide (%s < %s)' % (b, a), ast.GtE: 'decide (%s ≤ %s)' % (b, a),
                   ast.Eq: 'decide (%s = %s)' % (a, b), ast.NotEq: '(!decide (%s = %s))' % (a, b)}
            if op not in rel:
                self.fail(node, 'unsupported comparison')
            return rel[op], 'bool'
        if L[1] in ('list', 'natlist') and R[1] == L[1]:
            self.pending.append(('guard', '(Np.bcastOk (List.length %s) (List.length %s))' % (L[0], R[0])))
        return super().compare(op, L, R, node)

    def binary_elementwise(self, fn, A, B, node):
        if A[1] == 'list' and B[1] == 'list':
            self.pending.append(('guard', '(Np.bcastOk (List.length %s) (List.length %s))' % (A[0], B[0])))
        return super().binary_elementwise(fn, A, B, node)

    def fresh(self):
        self.ntmp += 1
        return 'r%d__' % self.ntmp

    def call(self, node, env):
        full = ast.unparse(node.func)
        A = node.args
        if isinstance(node.func, ast.Attribute) and node.func.attr == 'split' and not A and not node.keywords:
            snap = self.snapshot()
            b = self.tx(node.func.value, env)
            if b[1] == 'str':                             # s.split(): the whitespace-separated tokens of the string
                nm = self.spec.get('split_ext', 'splitWs')
                self.add_param(nm, 'String → List String')
                return '(%s %s)' % (nm, b[0]), 'strlist'
            self.restore(snap)
        if full == 'float' and len(A) == 1 and not node.keywords:
            r = self.tx(A[0], env)
            if r[1] == 'str':                             # float(token): the number the token denotes
                nm = self.spec.get('float_parse_ext', 'parseFloat')
                self.add_param(nm, 'String → α')
                return '(%s %s)' % (nm, r[0]), 's'
            if r[1] == 's':
                return r
            return self.to_float(r, node), 's'
        if full == 'len' and len(A) == 1 and not node.keywords and not (isinstance(A[0], ast.Attribute)
                                                                        and A[0].attr == 'shape'):
            snap = self.snapshot()
            r = self.tx(A[0], env)
            if r[1] in ('strlist', 'rows3'):
                return self.length(r[0]), 'nat'
            self.restore(snap)
        if full in ('np.zeros', 'numpy.zeros') and len(A) == 1 and not node.keywords and isinstance(A[0], ast.Tuple) \
                and len(A[0].elts) == 2:
            a, b = (self.co(self.tx(e, env), 'nat', e) for e in A[0].elts)
            self.literals.add(0)
            return '(List.replicate %s (List.replicate %s (0 : α)))' % (a, b), 'rows'
        if full == 'int' and len(A) == 1 and not node.keywords:
            r = self.tx(A[0], env)
            if self.inty(r[1]):
                return (self.co(r, 'int', node), 'int') if not is_lit(r[1]) else r
            self.add_param(self.int_ext, 'α → Int')
            return '(%s %s)' % (self.int_ext, self.co(r, 's', node)), 'int'
        if full in ('min', 'max') and len(A) == 2 and not node.keywords:
            snap = self.snapshot()
            L, R = self.tx(A[0], env), self.tx(A[1], env)
            if 'int' in (L[1], R[1]) and self.inty(L[1]) and self.inty(R[1]):
                return '(%s %s %s)' % (full, self.co(L, 'int', node), self.co(R, 'int', node)), 'int'
            self.restore(snap)
        if full in ('np.array', 'numpy.array') and len(A) == 1 and not node.keywords:
            r = self.tx(A[0], env)                        # a copy of a list / 1-D array of numbers: the same values
            if r[1] in ('list', 'natlist'):
                return r
        fty = env.get(full) if full in env else (self.attrs[full][1] if full in self.attrs else None)
        if isinstance(node.func, ast.Attribute) and is_fn(fty) and not node.keywords and len(A) == len(fty[1]):
            # an attribute that holds a function value (e.g. the object returned by an external such as interp1d): the call
            # applies it; a 1-D array where it takes a number: applied to every entry
            nm = self.attr_lean(full)
            if full not in env:
                self.add_param(nm, self.lean_ty(fty))
            rs = [self.tx(a, env) for a in A]
            if len(A) == 1 and fty[1][0] == 's' and rs[0][1] == 'list' and fty[2] == 's':
                return self.map1('(%s x__)' % nm, rs[0][0]), 'list'
            return '(%s %s)' % (nm, ' '.join(self.co(r, t, node) for r, t in zip(rs, fty[1]))), fty[2]
        if full in ('np.power', 'numpy.power') and len(A) == 2 and not node.keywords:
            # np.power(x, y) is x ** y, element-wise: a literal exponent 2..6 is the repeated product, base 10 is pow10,
            # anything else the declared external `'**'` (applied entry by entry)
            pw = ast.BinOp(left=A[0], op=ast.Pow(), right=A[1])
            lit = lambda n: isinstance(n, ast.Constant) and isinstance(n.value, (int, float)) \
                and not isinstance(n.value, bool)
            if (lit(A[1]) and float(A[1].value) == int(A[1].value) and 2 <= int(A[1].value) <= 6) \
                    or (lit(A[0]) and A[0].value in (10, 10.0)):
                return super().tx(ast.copy_location(pw, node), env)
            if '**' in self.externals:
                nm = self.externals['**'][0]
                self.add_param(nm, 'α → α → α')
                L, R = self.tx(A[0], env), self.tx(A[1], env)
                L = (self.to_float(L, node), 's') if L[1] != 'list' else L
                R = (self.to_float(R, node), 's') if R[1] != 'list' else R
                if L[1] == 'list' and R[1] == 'list':
                    self.pending.append(('guard', '(Np.bcastOk (List.length %s) (List.length %s))' % (L[0], R[0])))
                return self.binary_elementwise(nm, L, R, node)
        if full in ('np.cumsum', 'numpy.cumsum') and len(A) == 1 and not node.keywords:
            return '(Np.cumsum %s)' % self.co(self.tx(A[0], env), 'list', node), 'list'
        if isinstance(node.func, ast.Attribute) and node.func.attr == 'argmin' and not A and not node.keywords:
            b = self.tx(node.func.value, env)
            if b[1] == 'list':
                return '(Np.argmin %s)' % b[0], 'nat'
        if isinstance(node.func, ast.Attribute) and node.func.attr == 'index' and len(A) == 1 and not node.keywords:
            snap = self.snapshot()
            b, x = self.tx(node.func.value, env), self.tx(A[0], env)
            if b[1] == 'strlist' and x[1] == 'str':      # l.index(x): the first position; ValueError when x is absent
                self.pending.append(('guard', '(List.contains %s %s)' % (b[0], x[0])))
                return '(List.idxOf %s %s)' % (x[0], b[0]), 'nat'
            self.restore(snap)
        if full in self.known and not self.known[full].get('prop') and self.known[full].get('seq') \
                and self.known[full].get('raises'):
            txt, ty = self.call_known(full, node.args, node, env, node.keywords)
            tmp = self.fresh()
            self.pending.append(('bind', txt, tmp))
            return tmp, ty
        return super().call(node, env)

    def attr_read(self, node, env):
        t = ast.unparse(node)
        if t not in env and t in self.attrs and self.attrs[t][1] == 'none':
            return '()', 'none'                           # an attribute the calling pattern leaves None: no parameter
        if t not in env and t in self.known and self.known[t].get('prop') and self.known[t].get('seq') \
                and self.known[t].get('raises'):
            txt, ty = self.call_known(t, [], node, env)   # a @property that may raise: the exception propagates
            tmp = self.fresh()
            self.pending.append(('bind', txt, tmp))
            return tmp, ty
        return super().attr_read(node, env)

    def opt_name(self, node, env):
        """the local name of an optional value tested by `x is None`, else None"""
        if isinstance(node, ast.Compare) and len(node.ops) == 1 and isinstance(node.ops[0], ast.Is) \
                and isinstance(node.comparators[0], ast.Constant) and node.comparators[0].value is None \
                and isinstance(node.left, ast.Name) and env.get(node.left.id) == 'opt':
            return node.left.id
        return None

    def with_value(self, x, env, f):
        """f(env2) where the optional local `x` is a number named v__"""
        env2 = dict(env)
        env2[x] = 's'
        saved = dict(self.rename)
        self.rename[x] = 'v__'
        try:
            return f(env2)
        finally:
            self.rename = saved

    def tx(self, node, env):
        if isinstance(node, ast.Constant) and isinstance(node.value, str):
            import json
            return json.dumps(node.value, ensure_ascii=False), 'str'
        if isinstance(node, ast.Call) and ast.unparse(node) in self.fn_ext:
            nm, names, kind = self.fn_ext[ast.unparse(node)]
            tys = []
            for n in names:
                if env.get(n) not in ('nat', 's', 'str'):
                    self.fail(node, 'the external depends on %s, which is not a number / index / name here' % n)
                tys.append(self.lean_ty(env[n]))
            lt = self.lean_ty(kind)
            self.add_param(nm, ' → '.join(tys + [lt if ' ' not in lt else '(%s)' % lt]))
            return '(%s %s)' % (nm, ' '.join(self.var(n) for n in names)), kind
        if isinstance(node, ast.List) and node.elts and not any(isinstance(e, ast.Starred) for e in node.elts):
            snap = self.snapshot()
            rs = [self.tx(e, env) for e in node.elts]
            up = {'list': 'rows', 'rows': 'rows3'}
            if rs[0][1] in up and all(r[1] == rs[0][1] for r in rs):      # a Python list of arrays
                return '[' + ', '.join(r[0] for r in rs) + ']', up[rs[0][1]]
            self.restore(snap)
        if isinstance(node, (ast.Name, ast.Attribute, ast.Subscript)) and '#ref:' + ast.unparse(node) in env:
            return env['#ref:' + ast.unparse(node)]       # an optional value inside a branch that has tested it
        if isinstance(node, (ast.Call, ast.Compare, ast.BoolOp)) and ast.unparse(node) in self.bext:
            nm = self.bext[ast.unparse(node)]
            self.add_param(nm, 'Bool')
            return nm, 'bool'
        if isinstance(node, (ast.Call, ast.Subscript)) and ast.unparse(node) in self.text:
            nm, ty = self.text[ast.unparse(node)]
            self.add_param(nm, self.lean_ty(ty))
            return nm, ty
        if isinstance(node, ast.BinOp) and isinstance(node.op, ast.Mod):
            return self.arith('%', self.tx(node.left, env), self.tx(node.right, env), node)
        if isinstance(node, ast.UnaryOp) and isinstance(node.op, ast.USub) \
                and not isinstance(node.operand, ast.Constant):
            snap = self.snapshot()
            r = self.tx(node.operand, env)
            if r[1] in ('int', 'nat'):
                return '(-%s)' % self.co(r, 'int', node), 'int'
            self.restore(snap)
        if isinstance(node, ast.List) and node.elts and not any(isinstance(e, ast.Starred) for e in node.elts):
            snap = self.snapshot()
            rs = [self.tx(e, env) for e in node.elts]
            if all(r[1] == 'str' for r in rs):
                return '[' + ', '.join(r[0] for r in rs) + ']', 'strlist'
            self.restore(snap)
        if isinstance(node, ast.List) and any(isinstance(e, ast.Starred) for e in node.elts):
            parts = []
            for e in node.elts:
                if isinstance(e, ast.Starred):
                    parts.append(self.co(self.tx(e.value, env), 'list', e))
                else:
                    parts.append('[%s]' % self.co(self.tx(e, env), 's', e))
            return '(' + ' ++ '.join(parts) + ')', 'list'
        if isinstance(node, ast.Compare) and len(node.ops) == 1 and isinstance(node.ops[0], (ast.Is, ast.IsNot)) \
                and isinstance(node.comparators[0], ast.Constant) and node.comparators[0].value is None:
            r = self.tx(node.left, env)
            if r[1] == 'opt':
                c = '%s.isNone' % r[0] if simple(r[0]) else '(Option.isNone %s)' % r[0]
                return (c if isinstance(node.ops[0], ast.Is) else '(!%s)' % c), 'bool'
        if isinstance(node, ast.Compare) and len(node.ops) == 1 and isinstance(node.ops[0], (ast.In, ast.NotIn)):
            snap = self.snapshot()
            L, R = self.tx(node.left, env), self.tx(node.comparators[0], env)
            if L[1] == 'str' and R[1] == 'strlist':
                c = '(List.contains %s %s)' % (R[0], L[0])
                return (c if isinstance(node.ops[0], ast.In) else '(!%s)' % c), 'bool'
            self.restore(snap)
        if isinstance(node, ast.ListComp):
            return self.comprehension(node, env)
        if isinstance(node, ast.BoolOp) and isinstance(node.op, ast.Or) and self.opt_name(node.values[0], env):
            x = self.opt_name(node.values[0], env)
            cs = self.with_value(x, env, lambda e2: [self.co(self.tx(c, e2), 'bool', c) for c in node.values[1:]])
            return '(Option.elim %s true (fun v__ => (%s)))' % (self.var(x), ' || '.join(cs)), 'bool'
        return super().tx(node, env)

    SEQ_ELEM = {'list': 's', 'natlist': 'nat', 'strlist': 'str'}

    def comprehension(self, node, env):
        """`[e for x in L if c]` / `[e for i, x in enumerate(L) if c]`: map after filter, over the elements (and positions)"""
        if len(node.generators) != 1 or node.generators[0].is_async:
            self.fail(node, 'unsupported comprehension')
        g = node.generators[0]
        n0 = len(self.pending)
        env2 = dict(env)
        if isinstance(g.iter, ast.Call) and ast.unparse(g.iter.func) == 'enumerate' and len(g.iter.args) == 1 \
                and not g.iter.keywords and isinstance(g.target, ast.Tuple) and len(g.target.elts) == 2 \
                and all(isinstance(e, ast.Name) for e in g.target.elts):
            xt, xty = self.tx(g.iter.args[0], env)
            if xty not in self.SEQ_ELEM:
                self.fail(node, 'comprehension over a %s' % (xty,))
            i, x = (e.id for e in g.target.elts)
            src = '(List.zipIdx %s)' % xt
            binds = 'let %s := it__.2; let %s := it__.1; ' % (self.var(i), self.var(x))
            env2[i], env2[x] = 'nat', self.SEQ_ELEM[xty]
        elif isinstance(g.target, ast.Name):
            xt, xty = self.tx(g.iter, env)
            if xty not in self.SEQ_ELEM:
                self.fail(node, 'comprehension over a %s' % (xty,))
            src = xt
            binds = 'let %s := it__; ' % self.var(g.target.id)
            env2[g.target.id] = self.SEQ_ELEM[xty]
        else:
            self.fail(node, 'unsupported comprehension target')
        conds = [self.co(self.tx(c, env2), 'bool', c) for c in g.ifs]
        if isinstance(node.elt, ast.Tuple) and len(node.elt.elts) == 2:
            rs = [self.tx(e, env2) for e in node.elt.elts]
            if any(r[1] not in ('s', 'nat', 'str') for r in rs):
                self.fail(node, 'unsupported component of a pair')
            elt, ty = '(%s, %s)' % (rs[0][0], rs[1][0]), ('plist', (rs[0][1], rs[1][1]))
        else:
            r = self.tx(node.elt, env2)
            inv = {v: k for k, v in self.SEQ_ELEM.items()}
            if r[1] not in inv:
                self.fail(node, 'unsupported element of a comprehension')
            elt, ty = r[0], inv[r[1]]
        if len(self.pending) != n0:
            self.fail(node, 'a run-time check inside a comprehension')
        if conds:
            src = '(List.filter (fun it__ => %s(%s)) %s)' % (binds, ' && '.join(conds), src)
        return '(List.map (fun it__ => %s%s) %s)' % (binds, elt, src), ty

    # ------------------------------------------------------------------ subscripts
    def bound(self, b, env):
        """Lean text (`Option Int`) of one slice bound"""
        if b is None:
            return 'none'
        k = self.neg_const(b)
        if k is not None:
            return '(some (-%d))' % k
        return '(some %s)' % self.co(self.tx(b, env), 'int', b)

    def sub(self, node, env):
        base = node.value
        if isinstance(base, (ast.Name, ast.Attribute, ast.Call, ast.Subscript)) \
                and not (isinstance(base, ast.Attribute) and base.attr == 'shape'):
            snap = self.snapshot()
            try:
                bt, bty = self.tx(base, env)
            except Untranslatable:
                bt, bty = None, None
            if isinstance(bty, tuple) and bty[0] == 'optl' and isinstance(base, (ast.Name, ast.Attribute)):
                # the subscript of a value that may be None: Python raises TypeError for None, else subscripts the array
                self.ntmp += 1
                v = 'v%d__' % self.ntmp
                self.pending.append(('unwrap', bt, v))
                env2 = dict(env)
                env2['#ref:' + ast.unparse(base)] = (v, bty[1])
                return self.sub(node, env2)
            if bty in ('strlist', 'rows3'):
                idxs = self.strip_ellipsis(node.slice)
                i = idxs[0] if len(idxs) == 1 else None
                if isinstance(i, ast.Slice) and i.step is None and i.upper is None and i.lower is not None \
                        and self.neg_const(i.lower) is None:
                    snap2 = self.snapshot()
                    lo = self.tx(i.lower, env)
                    if lo[1] == 'nat' or is_lit(lo[1]):  # toks[k:]
                        return '(List.drop %s %s)' % (self.co(lo, 'nat', node), bt), bty
                    self.restore(snap2)
                elif i is not None and not isinstance(i, ast.Slice) and self.neg_const(i) is None:
                    snap2 = self.snapshot()
                    it, ity = self.tx(i, env)
                    el = self.ITER_ELEM[bty]
                    if ity == 'nat' or is_lit(ity):       # toks[k] / arrays[k] (IndexError totalised like the list mode)
                        return '(%s.getD %s %s)' % (bt if simple(bt) else '(%s)' % bt, self.co((it, ity), 'nat', node),
                                                    self.default(bty, node)), el
                    if ity == 'int':                      # lines[idx - 1]: Python's negative indices
                        return '(Np.getInt %s %s %s)' % (self.default(bty, node), bt, it), el
                    self.restore(snap2)
            if bty == 'rows':
                idxs = self.strip_ellipsis(node.slice)
                if len(idxs) == 2 and isinstance(idxs[0], ast.Slice) and not (idxs[0].lower or idxs[0].upper or idxs[0].step) \
                        and isinstance(idxs[1], ast.Slice) and idxs[1].step is None:
                    # M[:, lo:hi]: the slice lo:hi of every row
                    e2 = dict(env)
                    e2['r__'] = 'list'
                    row = ast.Subscript(value=ast.Name(id='r__', ctx=ast.Load()), slice=idxs[1], ctx=ast.Load())
                    ast.copy_location(row, node)
                    ast.fix_missing_locations(row)
                    n0 = len(self.pending)
                    rt, rty = self.sub(row, e2)
                    if len(self.pending) != n0 or rty != 'list':
                        self.fail(node, 'unsupported column slice of a 2-D array')
                    return '(List.map (fun r__ => %s) %s)' % (rt, bt), 'rows'
                if len(idxs) == 1 and not isinstance(idxs[0], ast.Slice) and self.neg_const(idxs[0]) is None:
                    snap2 = self.snapshot()
                    it, ity = self.tx(idxs[0], env)
                    if ity == 'nat' or is_lit(ity):       # M[i]: the i-th row of a 2-D array
                        return '(%s.getD %s [])' % (bt if simple(bt) else '(%s)' % bt, self.co((it, ity), 'nat', node)), 'list'
                    self.restore(snap2)
            self.restore(snap)
        if not (isinstance(base, ast.Attribute) and base.attr == 'shape'):
            idxs = self.strip_ellipsis(node.slice)
            if len(idxs) == 1:
                i = idxs[0]
                if isinstance(i, ast.Slice) and i.step is None:
                    snap = self.snapshot()
                    tys = [self.tx(b, env)[1] for b in (i.lower, i.upper) if b is not None and self.neg_const(b) is None]
                    self.restore(snap)
                    if 'int' in tys:
                        bt, bty = self.tx(base, env)
                        if bty not in ('list', 'natlist', 'mask'):
                            self.fail(node, 'slice of a %s' % (bty,))
                        return '(Np.pySlice %s %s %s)' % (bt, self.bound(i.lower, env), self.bound(i.upper, env)), bty
                elif not isinstance(i, ast.Slice) and self.neg_const(i) is None:
                    snap = self.snapshot()
                    ity = self.tx(i, env)[1]
                    self.restore(snap)
                    if ity == 'int':
                        bt, bty = self.tx(base, env)
                        if bty not in ('list', 'natlist', 'mask'):
                            self.fail(node, 'subscript of a %s' % (bty,))
                        return '(Np.getInt %s %s %s)' % (self.default(bty, node), bt, self.tx(i, env)[0]), ELEM[bty]
        return super().sub(node, env)

    # ------------------------------------------------------------------ aliasing
    def roots(self, node, env):
        """the array variables whose memory the value of `node` may share"""
        if isinstance(node, ast.Name):
            if env.get(node.id) in LISTY:
                return {node.id} | env.get('#roots:' + node.id, set())
            return set()
        if isinstance(node, ast.Attribute):
            key = ast.unparse(node)
            if isinstance(node.value, ast.Name) and node.value.id == 'self':
                return {key} | env.get('#roots:' + key, set())
            return self.roots(node.value, env)            # `x.T`, `x.real`, …: views
        if isinstance(node, ast.Subscript):
            return self.roots(node.value, env) if isinstance(node.slice, ast.Slice) else set()
        if isinstance(node, ast.IfExp):
            return self.roots(node.body, env) | self.roots(node.orelse, env)
        if isinstance(node, ast.Call):
            f = ast.unparse(node.func)
            if f.replace('numpy.', 'np.') in FRESH or self.ext_key(f, node) in self.vext:
                return set()
            if isinstance(node.func, ast.Attribute) and node.func.attr == 'copy':
                return set()
            out = set()
            for a in list(node.args) + [k.value for k in node.keywords]:
                out |= self.roots(a, env)
            if isinstance(node.func, ast.Attribute):
                out |= self.roots(node.func.value, env)
            return out
        return set()                                      # arithmetic, comparisons, literals: new objects

    def vassigned(self, stmts, env=None):
        """… plus the lists grown by `x.append(e)` statements (at any depth: the base rule recurses through this method)"""
        out = []
        for s in stmts:
            if isinstance(s, ast.Expr) and isinstance(s.value, ast.Call) and isinstance(s.value.func, ast.Attribute) \
                    and s.value.func.attr == 'append' and isinstance(s.value.func.value, ast.Name):
                ks = [s.value.func.value.id]
            elif isinstance(s, ast.With):
                ks = self.vassigned(s.body, env)
            else:
                ks = super().vassigned([s], env)
            for k in ks:
                if k not in out:
                    out.append(k)
        return out

    def note_binding(self, target, value, env):
        key = self.target_key(target)
        if key is None or isinstance(target, (ast.Tuple, ast.Subscript)):
            return
        if env.get(key) in LISTY:
            env['#local:' + key] = True
            env['#roots:' + key] = (self.roots(value, env) - {key}) if value is not None else set()
        else:
            env.pop('#local:' + key, None)
            env.pop('#roots:' + key, None)

    def loaded_after(self, name, stmt):
        pos = (stmt.end_lineno, stmt.end_col_offset)
        for n in ast.walk(self.node):
            if isinstance(n, (ast.Name, ast.Attribute)) and isinstance(getattr(n, 'ctx', None), ast.Load) \
                    and ast.unparse(n) == name and (n.lineno, n.col_offset) >= pos:
                return True
        return False

    def in_loop(self, stmt):
        p = self.parent.get(stmt)
        while p is not None and p is not self.node:
            if isinstance(p, (ast.For, ast.While)):
                return True
            p = self.parent.get(p)
        return False

    def check_store(self, key, env, stmt):
        """an in-place store into `key` is translated as a new value of `key` only when nothing else can observe it"""
        grp = {key} | env.get('#roots:' + key, set())
        for r in grp:
            if not env.get('#local:' + r):
                self.fail(stmt, 'in-place store into memory of %s, which was not created in this function' % r)
        affected = set(grp) - {key}
        for k, v in env.items():
            if isinstance(k, str) and k.startswith('#roots:') and k[7:] != key and (v & grp):
                affected.add(k[7:])
        if affected:
            if self.in_loop(stmt):
                self.fail(stmt, 'in-place store into shared memory inside a loop')
            for n in sorted(affected):
                if self.loaded_after(n, stmt):
                    self.fail(stmt, 'in-place store into %s changes %s, which is read afterwards' % (key, n))

    # ------------------------------------------------------------------ statements
    def store(self, t, value, op, env, ind, stmt=None, ctx=None):
        key = self.target_key(t.value)
        if key is None or isinstance(t.value, ast.Subscript) or env.get(key) != 'list':
            self.fail(t, 'store into something else than a 1-D array variable')
        self.check_store(key, env, stmt if stmt is not None else t)
        idxs = self.strip_ellipsis(t.slice)
        if len(idxs) != 1:
            self.fail(t, 'store does not match a 1-D array')
        i = idxs[0]
        a = self.key_name(key)
        if isinstance(i, ast.Slice) and i.step is None and not op:
            v = self.co(self.tx(value, env), 'list', t)
            lo, hi = self.bound(i.lower, env), self.bound(i.upper, env)
            out = self.flush(ind, ctx, t)
            self.gen[key] = self.gen.get(key, 0) + 1
            out += '%slet v__ := %s\n' % (ind, v)
            out += '%sif !(Np.storeOk %s.length %s %s v__.length) then %s else\n' % (ind, a, lo, hi,
                                                                                   self.err('ValueError', t))
            self.nexits += 1
            if ctx and ctx.get('cont'):
                self.fail(t, 'a run-time check inside a translated loop body')
            out += '%slet %s := (Np.storeSlice %s %s %s v__)\n' % (ind, a, a, lo, hi)
            return out
        if not isinstance(t.value, ast.Name):
            self.fail(t, 'unsupported store into an attribute')
        txt = super().store(t, value, op, env, ind)
        return self.flush(ind, ctx, t) + txt

    def inject(self, res, node):
        """a typed value as an entry of a dict of arrays (`Np.PyVal α`)"""
        txt, ty = res
        con = {'list': 'Np.PyVal.arr', 'rows': 'Np.PyVal.arr2'}
        if ty in con:
            return '(%s %s)' % (con[ty], txt)
        if ty == 'none':
            return 'Np.PyVal.none'
        if isinstance(ty, tuple) and ty[0] == 'optl' and ty[1] in con:
            return '(Option.elim %s Np.PyVal.none %s)' % (txt, con[ty[1]])
        self.fail(node, 'a %s as the value of a dict entry' % (ty,))

    def raise_text(self, s):
        if self.raises and s.exc is not None:
            e = s.exc.func if isinstance(s.exc, ast.Call) else s.exc
            name = ast.unparse(e).split('.')[-1]
            if re.fullmatch(r'\w+', name):
                return '(Except.error "%s")' % name
        if self.raise_value is None:
            self.fail(s, 'raise (declare raises=True or a total value for it)')
        for n in re.findall(r'\((\d+) : α\)', self.raise_value):
            self.literals.add(int(n))
        return self.raise_value

    def call_arr_known(self, f, node, env):
        """call text of a method translated earlier by the base / `arr` rules (arrays as `Nat → α` + declared lengths)"""
        e = self.known[f]
        kinds, names = e['arg_kinds'], e['arg_names']
        if node.keywords or len(node.args) != len(kinds):
            self.fail(node, 'call of %s with other arguments than its definition' % f)
        args, byname = [], {}
        for a, k, pn in zip(node.args, kinds, names):
            if k == 'skip':
                continue
            if k == 'arr':
                lt = self.co(self.tx(a, env), 'list', a)
                self.literals.add(0)
                byname[pn] = lt
                args.append('(fun i__ => %s.getD i__ (0 : α))' % lt if simple(lt) else
                            '(fun i__ => (%s).getD i__ (0 : α))' % lt)
            elif k in ('s', 'nat'):
                args.append(self.co(self.tx(a, env), k, a))
            else:
                self.fail(node, 'unsupported parameter kind %s of %s' % (k, f))
        for pn, _ in e.get('lens_order', ()):
            if pn not in byname:
                self.fail(node, 'length parameter of %s that is not the length of an argument' % f)
            args.append(self.length(byname[pn]))
        for nm, ty in e['extra_params']:
            key = self.local_attr(nm, env)
            if key is None:
                self.add_param(nm, ty)
            elif self.lean_ty(env[key]) != ty:
                self.fail(node, 'attribute %s has another type here than %s expects' % (key, f))
            args.append(nm)
        return '(%s %s)' % (e['lean'], ' '.join(args))

    def opt_default(self, s, env, ind):
        """`if x is None or c(x): x = e` for an optional local x: afterwards x is a number.  None: not this pattern"""
        if s.orelse or len(s.body) != 1 or not isinstance(s.body[0], ast.Assign) or len(s.body[0].targets) != 1 \
                or not isinstance(s.body[0].targets[0], ast.Name):
            return None
        x = s.body[0].targets[0].id
        if env.get(x) != 'opt':
            return None
        tests = s.test.values if isinstance(s.test, ast.BoolOp) and isinstance(s.test.op, ast.Or) else [s.test]
        if self.opt_name(tests[0], env) != x:
            return None
        e = self.co(self.tx(s.body[0].value, env), 's', s)
        cs = self.with_value(x, env, lambda e2: [self.co(self.tx(c, e2), 'bool', c) for c in tests[1:]])
        inner = 'if (%s) then %s else v__' % (' || '.join(cs), e) if cs else 'v__'
        self.gen[x] = self.gen.get(x, 0) + 1
        env[x] = 's'
        return '%slet %s : α := (Option.elim %s %s (fun v__ => %s))\n' % (ind, self.var(x), self.var(x), e, inner)

    def optl_update(self, s, env, ind):
        """`if x is not None: x = f(x)` for an optional list x (`('optl', t)`): `Option.map`.  None: not this pattern"""
        if s.orelse or len(s.body) != 1 or not isinstance(s.body[0], ast.Assign) or len(s.body[0].targets) != 1:
            return None
        t = s.test
        if not (isinstance(t, ast.Compare) and len(t.ops) == 1 and isinstance(t.ops[0], ast.IsNot)
                and isinstance(t.comparators[0], ast.Constant) and t.comparators[0].value is None):
            return None
        key = self.target_key(t.left)
        tkey = self.target_key(s.body[0].targets[0])
        if key is None or tkey is None or isinstance(s.body[0].targets[0], (ast.Subscript, ast.Tuple)):
            return None
        ty = env.get(key)
        if not (isinstance(ty, tuple) and ty[0] == 'optl'):
            return None
        if tkey != key and tkey not in env:
            return None
        env2 = dict(env)
        env2[key] = ty[1]
        saved_attrs, saved_rename = dict(self.attrs), dict(self.rename)
        if key.startswith('self.'):
            self.attrs[key] = ('v__', ty[1])
        else:
            self.rename[key] = 'v__'
        try:
            r = self.tx(s.body[0].value, env2)
        finally:
            self.attrs, self.rename = saved_attrs, saved_rename
        nm = self.key_name(key)
        if tkey != key:
            # `if x is not None: y = f(x, y)`: y keeps its value when x is None
            if r[1] != env[tkey]:
                self.fail(s, 'the conditional assignment changes the type of %s' % tkey)
            self.gen[tkey] = self.gen.get(tkey, 0) + 1
            tn = self.key_name(tkey)
            return '%slet %s := (Option.elim %s %s (fun v__ => %s))\n' % (ind, tn, nm, tn, r[0])
        if r[1] != ty[1]:
            self.fail(s, 'the update changes the type of the optional list')
        self.gen[key] = self.gen.get(key, 0) + 1
        return '%slet %s := (Option.map (fun v__ => %s) %s)\n' % (ind, nm, r[0], nm)

    def invalidate(self, key, env):
        """`key` was re-bound: what was known about optional values that mention it no longer holds"""
        pat = re.compile(r'(?<![\w.])' + re.escape(key) + r'(?![\w])')
        for k in [k for k in env if isinstance(k, str) and (k.startswith('#ref:') or k.startswith('#alias:'))]:
            if k.startswith('#alias:') and k[7:] == key:
                del env[k]
            elif pat.search(k.split(':', 1)[1] if k.startswith('#ref:') else str(env[k])):
                del env[k]

    def opt_refine(self, s, env, ind, ctx):
        """`if E is None: A else: B` for an optional number E (any expression): `Option.elim E (A) (fun v => B)`, where in B
        the expression E (and every local that was assigned from it) is the number `v`, and in A it is None (tests on it are
        decided).  The branches give the variables they assign; a branch that may raise gives an `Except`, bound by `match`.
        None: not this pattern"""
        t = s.test
        if not (isinstance(t, ast.Compare) and len(t.ops) == 1 and isinstance(t.ops[0], (ast.Is, ast.IsNot))
                and isinstance(t.comparators[0], ast.Constant) and t.comparators[0].value is None):
            return None
        snap = self.snapshot()
        etxt, ety = self.tx(t.left, env)
        if ety != 'opt' or self.pending != snap[1]:
            self.restore(snap)
            return None
        text = ast.unparse(t.left)
        none_body, some_body = (s.body, s.orelse) if isinstance(t.ops[0], ast.Is) else (s.orelse, s.body)
        both = [n for n in self.vassigned(s.body, env) if n in self.vassigned(s.orelse, env)]
        names = [n for n in self.vassigned([s], env) if n in env or n in both]
        if not names:
            self.fail(s, 'conditional without effect on the variables in scope')
        self.ntmp += 1
        v = 'v%d__' % self.ntmp
        aliases = [k[7:] for k in env if isinstance(k, str) and k.startswith('#alias:') and env[k] == text]

        def env_of(kind):
            e = dict(env)
            e['#ref:' + text] = ('()', 'none') if kind == 'none' else (v, 's')
            for x in aliases:
                e[x] = 'none' if kind == 'none' else 's'
                e.pop('#alias:' + x, None)
            return e
        pre = ''.join('%slet %s := %s\n' % (ind + '    ', self.var(x), v) for x in aliases)
        snap2 = self.snapshot()
        n0 = self.nexits
        recs = []
        probe = lambda e: self.pack(names, e, None, recs)
        self.block(none_body, env_of('none'), ind + '    ', probe, ctx)
        self.block(some_body, env_of('some'), ind + '    ', probe, ctx)
        exits = self.nexits != n0
        self.restore(snap2)
        tys = self.merge_types(recs, lambda why: self.fail(s, why))
        if exits:
            self.err('raised in a branch', s)
            if ctx.get('cont'):
                self.fail(s, 'a branch that may raise inside a translated loop body')
            final = lambda e: '(Except.ok %s)' % self.pack(names, e, tys)
        else:
            final = lambda e: self.pack(names, e, tys)
        nb = self.block(none_body, env_of('none'), ind + '    ', final, ctx)
        sb = self.block(some_body, env_of('some'), ind + '    ', final, ctx)
        val = '(Option.elim %s (\n%s%s  ) (fun %s =>\n%s%s%s  ))' % (etxt, nb, ind, v, pre, sb, ind)
        if not exits:
            return self.unpack_keys(names, tys, val, ind, env)
        tmp = self.fresh()
        out = '%smatch %s with\n%s| Except.error e__ => (Except.error e__)\n%s| Except.ok %s =>\n' % (
            ind, val, ind, ind, tmp)
        self.nexits += 1
        return out + self.unpack_keys(names, tys, tmp, ind, env)

    def optl_refine(self, s, rest, env, ind, tail, ctx):
        """`if E is None: A else: B` for an optional ARRAY E (`('optl', t)`, a name or attribute), in continuation style:
        `Option.elim E (A; rest) (fun v => B; rest)`; in B (and the statements after the conditional on that path) E is the
        array `v`, in A it is None.  None: not this pattern"""
        t = s.test
        if not (isinstance(t, ast.Compare) and len(t.ops) == 1 and isinstance(t.ops[0], (ast.Is, ast.IsNot))
                and isinstance(t.comparators[0], ast.Constant) and t.comparators[0].value is None
                and isinstance(t.left, (ast.Name, ast.Attribute))):
            return None
        snap = self.snapshot()
        etxt, ety = self.tx(t.left, env)
        if not (isinstance(ety, tuple) and ety[0] == 'optl') or self.pending != snap[1]:
            self.restore(snap)
            return None
        if ctx.get('cont'):
            self.fail(s, 'a test of an optional array inside a translated loop body')
        text = ast.unparse(t.left)
        none_body, some_body = (s.body, s.orelse) if isinstance(t.ops[0], ast.Is) else (s.orelse, s.body)
        self.ntmp += 1
        v = 'v%d__' % self.ntmp
        en, es = dict(env), dict(env)
        en['#ref:' + text] = ('()', 'none')
        es['#ref:' + text] = (v, ety[1])
        nb = self.block(list(none_body) + list(rest), en, ind + '    ', tail, ctx)
        sb = self.block(list(some_body) + list(rest), es, ind + '    ', tail, ctx)
        return '%sOption.elim %s (\n%s%s  ) (fun %s =>\n%s%s  )\n' % (ind, etxt, nb, ind, v, sb, ind)

    def unzip_try(self, s, env, ind, ctx):
        """try: a, b = zip(*L)  except ValueError: a, b = e1, e2   (L a list of pairs; see the module docstring)"""
        h = s.handlers[0] if len(s.handlers) == 1 else None
        hb = [x for x in (h.body if h else []) if not (isinstance(x, ast.Expr) and isinstance(x.value, ast.Call)
                                                       and re.search(self.ignore_calls, ast.unparse(x.value)))]
        ok = h is not None and not s.orelse and not s.finalbody and isinstance(h.type, ast.Name) \
            and h.type.id == 'ValueError' and h.name is None and len(s.body) == 1 and len(hb) == 1 \
            and all(isinstance(x, ast.Assign) and len(x.targets) == 1 and isinstance(x.targets[0], ast.Tuple)
                    and len(x.targets[0].elts) == 2 for x in (s.body[0], hb[0]))
        if ok:
            v = s.body[0].value
            ok = isinstance(v, ast.Call) and ast.unparse(v.func) == 'zip' and len(v.args) == 1 and not v.keywords \
                and isinstance(v.args[0], ast.Starred) and isinstance(hb[0].value, ast.Tuple) \
                and len(hb[0].value.elts) == 2
        if ok:
            keys = [self.target_key(e) for e in s.body[0].targets[0].elts]
            ok = None not in keys and keys == [self.target_key(e) for e in hb[0].targets[0].elts]
        if not ok:
            self.fail(s, 'unsupported try statement')
        n0 = len(self.pending)
        L = self.tx(s.body[0].value.args[0].value, env)
        if len(self.pending) != n0:
            self.fail(s, 'the unzipped expression may raise')
        if not (isinstance(L[1], tuple) and L[1][0] == 'plist'):
            self.fail(s, 'zip(*L) of something else than a list of pairs')
        inv = {v_: k_ for k_, v_ in self.SEQ_ELEM.items()}
        okv, exv, tys = [], [], []
        for j, (e, t) in enumerate(zip(hb[0].value.elts, L[1][1])):
            lt = inv[t]
            comp = '(List.map (fun p__ => p__.%d) z__)' % (j + 1)
            if isinstance(e, ast.Constant) and e.value is None:
                okv.append('(some %s)' % comp)
                exv.append('none')
                tys.append(('optl', lt))
            elif isinstance(e, ast.List) and not e.elts:
                okv.append(comp)
                exv.append('[]')
                tys.append(lt)
            else:
                okv.append(comp)
                exv.append(self.co(self.tx(e, env), lt, e))
                tys.append(lt)
        out = '%slet z__ := %s\n' % (ind, L[0])
        src = '(if z__.isEmpty then (%s, %s) else (%s, %s))' % (exv[0], exv[1], okv[0], okv[1])
        return out + self.unpack_keys(keys, tys, src, ind, env)

    def block(self, stmts, env, ind, tail, ctx=None):
        ctx = ctx or {}
        out = ''
        for i, s in enumerate(stmts):
            rest = stmts[i + 1:]
            if isinstance(s, ast.Expr) and isinstance(s.value, ast.Constant) and isinstance(s.value.value, str):
                continue
            if isinstance(s, (ast.Pass, ast.Import, ast.ImportFrom)):
                continue
            if isinstance(s, ast.Expr) and isinstance(s.value, ast.Call):
                f = ast.unparse(s.value.func)
                if f in self.known and self.known[f].get('raises') and 'lens_order' in self.known[f]:
                    # a method that only raises, translated by the base / arr rules: its Bool result is "it raises"
                    if self.raise_value is None:
                        self.fail(s, 'call of a raising method (no value declared for the raise)')
                    call = self.call_arr_known(f, s.value, env)
                    out += self.flush(ind, ctx, s)
                    if ctx.get('cont'):
                        self.fail(s, 'a raising call inside a translated loop body')
                    out += '%sif %s then %s else\n' % (ind, call, self.raise_value)
                    self.nexits += 1
                    continue
                if f in self.known and self.known[f].get('state'):
                    if self.known[f].get('raises'):
                        self.fail(s, 'call statement of a state method that may raise')
                    txt, ty = self.call_known(f, s.value.args, s, env)
                    out += self.flush(ind, ctx, s)
                    keys = self.known[f]['state']
                    tys = list(ty[1]) if is_tuple(ty) else [ty]
                    out += self.unpack_keys(keys, tys, txt, ind, env)
                    continue
                if re.search(self.ignore_calls, ast.unparse(s.value)):
                    continue
            if isinstance(s, ast.Expr) and isinstance(s.value, ast.Call) and isinstance(s.value.func, ast.Attribute) \
                    and s.value.func.attr == 'append' and isinstance(s.value.func.value, ast.Name) \
                    and len(s.value.args) == 1 and not s.value.keywords \
                    and env.get(s.value.func.value.id) in ('list', 'rows', 'rows3', 'strlist', 'natlist'):
                x = s.value.func.value.id                 # x.append(e): the list with one more element
                want = {'list': 's', 'rows': 'list', 'rows3': 'rows', 'strlist': 'str', 'natlist': 'nat'}[env[x]]
                e = self.co(self.tx(s.value.args[0], env), want, s)
                out += self.flush(ind, ctx, s)
                self.gen[x] = self.gen.get(x, 0) + 1
                out += '%slet %s := (%s ++ [%s])\n' % (ind, self.var(x), self.var(x), e)
                self.invalidate(x, env)
                continue
            if isinstance(s, ast.With) and len(s.items) == 1 and ast.unparse(s.items[0].context_expr) in self.with_ext:
                # the handle is used only through declared texts (`f.readlines()`): the body runs as it is
                return out + self.block(list(s.body) + list(rest), env, ind, tail, ctx)
            if isinstance(s, ast.Try):
                out += self.unzip_try(s, env, ind, ctx)
                continue
            if isinstance(s, ast.Raise):
                self.nexits += 1
                return out + ind + self.raise_text(s) + '\n'
            if isinstance(s, ast.Continue):
                if not ctx.get('cont'):
                    self.fail(s, 'continue outside a translated loop')
                return out + ind + ctx['cont'](env) + '\n'
            if isinstance(s, ast.Return):
                if ctx.get('cont'):
                    self.fail(s, 'return inside a loop')
                if s.value is None:
                    if not self.state:
                        self.fail(s, 'bare return')
                    v = self.state_value(env)
                    return out + ind + ('(Except.ok %s)' % v if self.raises else v) + '\n'
                if self.state:
                    self.fail(s, 'a state method that returns a value')
                res = self.tx(s.value, env)
                out += self.flush(ind, ctx, s)
                if is_lit(res[1]):
                    res = (self.co(res, 's', s), 's')
                want = self.spec.get('returns')
                if isinstance(want, tuple) and want[0] == 'optl':
                    # declared optional result: `return None` is `none`, `return e` is `some e`
                    if res[1] == 'none':
                        res = ('none', want)
                    elif res[1] == want[1]:
                        res = ('(some %s)' % res[0], want)
                if self.ret is not None and self.ret != res[1]:
                    self.fail(s, 'return values of different types (%s, %s)' % (self.ret, res[1]))
                self.ret = res[1]
                return out + ind + ('(Except.ok %s)' % res[0] if self.raises else res[0]) + '\n'
            if isinstance(s, ast.Assign):
                if len(s.targets) != 1:
                    self.fail(s, 'multiple assignment targets')
                t = s.targets[0]
                if isinstance(t, ast.Name) and isinstance(s.value, ast.Dict) and not s.value.keys:
                    env[t.id] = 'anydict'                 # `d = {}`: the empty insertion-ordered dict
                    self.gen[t.id] = self.gen.get(t.id, 0) + 1
                    out += '%slet %s : %s := []\n' % (ind, self.var(t.id), self.lean_ty('anydict'))
                    continue
                if isinstance(t, ast.Subscript) and isinstance(t.value, ast.Name) and env.get(t.value.id) == 'anydict':
                    if not (isinstance(t.slice, ast.Constant) and isinstance(t.slice.value, str)):
                        self.fail(s, 'a dict store whose key is not a string literal')
                    res = self.tx(s.value, env)
                    out += self.flush(ind, ctx, s)
                    d = self.var(t.value.id)
                    self.gen[t.value.id] = self.gen.get(t.value.id, 0) + 1
                    out += '%slet %s := (Np.dictSet %s "%s" %s)\n' % (ind, d, d, t.slice.value, self.inject(res, s))
                    continue
                if isinstance(t, ast.Subscript) and isinstance(t.value, ast.Name) and env.get(t.value.id) == 'rows' \
                        and isinstance(t.slice, ast.Tuple) and len(t.slice.elts) == 2 \
                        and isinstance(t.slice.elts[1], ast.Slice) and not (t.slice.elts[1].lower or t.slice.elts[1].upper
                                                                            or t.slice.elts[1].step):
                    # M[i, :] = v: row i of a 2-D array (numpy raises unless v has the row's length or one entry)
                    self.check_store(t.value.id, env, s)
                    i = self.co(self.tx(t.slice.elts[0], env), 'nat', s)
                    v = self.co(self.tx(s.value, env), 'list', s)
                    out += self.flush(ind, ctx, s)
                    m = self.var(t.value.id)
                    self.gen[t.value.id] = self.gen.get(t.value.id, 0) + 1
                    out += '%slet %s := (Np.setRow %s %s %s)\n' % (ind, m, m, i, v)
                    continue
                if isinstance(t, ast.Subscript):
                    out += self.store(t, s.value, None, env, ind, s, ctx)
                    continue
                if isinstance(t, ast.Name) and isinstance(s.value, ast.List) and not s.value.elts \
                        and t.id in self.local_kinds:
                    k = self.local_kinds[t.id]            # `x = []` with a declared element type
                    env[t.id] = k
                    self.gen[t.id] = self.gen.get(t.id, 0) + 1
                    out += '%slet %s : %s := []\n' % (ind, self.var(t.id), self.lean_ty(k))
                    self.note_binding(t, None, env)
                    self.invalidate(t.id, env)
                    continue
                if isinstance(t, ast.Name) and isinstance(s.value, ast.List) and not s.value.elts:
                    env[t.id] = 'emptylist'               # `x = []`: a value that must be overwritten before it is used
                    self.gen[t.id] = self.gen.get(t.id, 0) + 1
                    self.invalidate(t.id, env)
                    continue
                txt, ty = self.tx(s.value, env)
                out += self.flush(ind, ctx, s)
                out += self.bind(t, txt, ty, env, ind, s)
                self.note_binding(t, s.value, env)
                for k in ([self.target_key(e) for e in t.elts] if isinstance(t, ast.Tuple) else [self.target_key(t)]):
                    if k is not None:
                        self.invalidate(k, env)
                if isinstance(t, ast.Name) and ty == 'opt' and isinstance(s.value, (ast.Name, ast.Attribute, ast.Subscript)):
                    env['#alias:' + t.id] = ast.unparse(s.value)      # t holds the same optional value as that expression
                continue
            if isinstance(s, ast.AugAssign):
                ops = {ast.Add: '+', ast.Sub: '-', ast.Mult: '*', ast.Div: '/'}
                if type(s.op) not in ops:
                    self.fail(s, 'unsupported augmented assignment')
                t = s.target
                if isinstance(t, ast.Subscript):
                    out += self.store(t, s.value, ops[type(s.op)], env, ind, s, ctx)
                    continue
                key = self.target_key(t)
                if key is not None and env.get(key) in LISTY:
                    self.check_store(key, env, s)         # `a += b` on an array works in place
                txt, ty = self.arith(ops[type(s.op)], self.tx(t, env), self.tx(s.value, env), s)
                out += self.flush(ind, ctx, s)
                out += self.bind(t, txt, ty, env, ind, s)
                if key is not None:
                    self.invalidate(key, env)
                continue
            if isinstance(s, ast.For):
                out += self.loop(s, env, ind)
                continue
            if isinstance(s, ast.If):
                r = self.static(s.test, env)
                if r is not None:
                    return out + self.block(list(s.body if r else s.orelse) + rest, env, ind, tail, ctx)
                od = self.opt_default(s, env, ind)
                if od is None:
                    od = self.optl_update(s, env, ind)
                if od is not None:
                    out += self.flush(ind, ctx, s) + od
                    continue
                od = self.opt_refine(s, env, ind, ctx)
                if od is not None:
                    out += od
                    continue
                od = self.optl_refine(s, rest, env, ind, tail, ctx)
                if od is not None:
                    return out + od
                c = self.cond(s.test, env)
                out += self.flush(ind, ctx, s)
                if self.jumps(s.body):
                    body = self.block(s.body, dict(env), ind + '  ', None, ctx)
                    other = self.block(list(s.orelse) + rest, env, ind + '  ', tail, ctx)
                    return out + '%sif %s then\n%s%selse\n%s' % (ind, c, body, ind, other)
                both = [n for n in self.vassigned(s.body, env) if n in self.vassigned(s.orelse, env)]
                names = [n for n in self.vassigned([s], env) if n in env or n in both]
                if not names:
                    self.fail(s, 'conditional without effect on the variables in scope')
                snap = self.snapshot()
                n0 = self.nexits
                recs = []
                probe = lambda e: self.pack(names, e, None, recs)
                self.block(s.body, dict(env), ind + '    ', probe, ctx)
                self.block(s.orelse, dict(env), ind + '    ', probe, ctx)
                exits = self.nexits != n0
                self.restore(snap)
                if exits:
                    # a branch may leave the function (run-time check): continuation style, `rest` in both branches
                    body = self.block(list(s.body) + rest, dict(env), ind + '  ', tail, ctx)
                    other = self.block(list(s.orelse) + rest, dict(env), ind + '  ', tail, ctx)
                    return out + '%sif %s then\n%s%selse\n%s' % (ind, c, body, ind, other)
                tys = self.merge_types(recs, lambda why: self.fail(s, why))
                before = dict(self.gen)
                outer = set(env)

                def final(e):
                    self.check_carried(before, names, {k: 0 for k in e if k in outer}, s)
                    return self.pack(names, e, tys)
                envs = []

                def branch(stmts_):
                    e = dict(env)
                    envs.append(e)
                    return self.block(stmts_, e, ind + '    ', final, ctx)
                body = branch(s.body)
                other = branch(s.orelse)
                src = '(if %s then\n%s%s  else\n%s%s  )' % (c, body, ind, other, ind)
                out += self.unpack_keys(names, tys, src, ind, env)
                for n in names:                           # after the conditional a variable may be what either branch made it
                    if env.get(n) in LISTY:
                        env['#local:' + n] = all(e.get('#local:' + n, False) for e in envs)
                        env['#roots:' + n] = set().union(*[e.get('#roots:' + n, set()) for e in envs])
                continue
            self.fail(s, 'unsupported statement')
        if tail is None:
            raise Untranslatable('%s: a path does not end in return' % self.spec['func'])
        return out + ind + tail(env) + '\n'

    # ------------------------------------------------------------------ whole function
    def translate(self):
        node = self.node
        if node.args.vararg or node.args.kwarg or node.args.kwonlyargs:
            self.fail(node, 'unsupported signature')
        env = {}
        params = []
        self.arg_kinds = []
        self.arg_names = []
        for a in node.args.args:
            if a.arg == 'self':
                continue
            self.arg_names.append(a.arg)
            k = self.kinds.get(a.arg)
            if k is None:
                raise Untranslatable('%s: parameter %s has no declared kind (signature changed?)'
                                     % (self.spec['func'], a.arg))
            self.arg_kinds.append(k)
            if k == 'skip':
                continue
            env[a.arg] = k
            if k != 'none':
                params.append('(%s : %s)' % (self.var(a.arg), self.lean_ty(k)))
        declared = [p for p in self.kinds if p not in [a.arg for a in node.args.args]]
        if declared:
            raise Untranslatable('%s: declared parameter(s) %s no longer in the signature' % (self.spec['func'], declared))
        if self.state:
            tail = (lambda e: '(Except.ok %s)' % self.state_value(e)) if self.raises else (lambda e: self.state_value(e))
        else:
            tail = None
        stmts = list(node.body)
        if self.spec.get('start_at') or self.spec.get('stop_at'):
            # a statement range of the body: from the statement whose text is `start_at` up to (not including) the first
            # statement after it whose text starts with `stop_at`; its value is the tuple of the `result` locals
            texts = [ast.unparse(x) for x in stmts]
            a = 0
            if self.spec.get('start_at'):
                hits = [i for i, t in enumerate(texts) if t == self.spec['start_at']]
                if len(hits) != 1:
                    raise Untranslatable('%s: start_at statement not found exactly once' % self.spec['func'])
                a = hits[0]
            b = len(stmts)
            if self.spec.get('stop_at'):
                hits = [i for i, t in enumerate(texts) if i > a and t.startswith(self.spec['stop_at'])]
                if not hits:
                    raise Untranslatable('%s: stop_at statement not found' % self.spec['func'])
                b = hits[0]
            stmts = stmts[a:b]
            self.lineno = stmts[0].lineno
            self.src = ''.join(self.src_lines[stmts[0].lineno - 1:stmts[-1].end_lineno])
            for n, k in self.spec.get('free_locals', {}).items():
                env[n] = k
                params.append('(%s : %s)' % (self.var(n), self.lean_ty(k)))
            names = list(self.spec['result'])

            def tail(e, names=names):
                for n in names:
                    if n not in e:
                        raise Untranslatable('%s: result %s is not assigned on every path' % (self.spec['func'], n))
                rec = []
                self.pack(names, e, None, rec)
                tys = [('nat' if is_lit(t) else t) for t in rec[0]]
                ret = ('tuple', tuple(tys)) if len(tys) > 1 else tys[0]
                if self.ret is not None and self.ret != ret:
                    raise Untranslatable('%s: results of different types on different paths' % self.spec['func'])
                self.ret = ret
                v = self.pack(names, e, tys)
                return '(Except.ok %s)' % v if self.raises else v
            self.known_segment = (self.spec.get('start_at'), self.spec.get('stop_at'), tuple(names))
        body = self.block(stmts, env, '  ', tail)
        if self.pending:
            raise Untranslatable('%s: a run-time check was not attached to a statement' % self.spec['func'])
        if self.ret is None:
            raise Untranslatable('%s: no return value' % self.spec['func'])
        self.extra_params.sort()
        extra = ''.join(' (%s : %s)' % (n, t) for n, t in self.extra_params)
        rty = self.lean_ty(self.ret)
        if self.raises:
            rty = 'Except String (%s)' % rty
        head = 'def %s %s%s : %s :=\n' % (self.spec.get('lean', self.spec['func']), ' '.join(params), extra, rty)
        self.known_extra = dict(ret=self.ret, state=list(self.state), prop=bool(self.spec.get('prop')),
                                raises=self.raises, seq=True)
        if getattr(self, 'known_segment', None):
            self.known_extra['segment'] = self.known_segment
            self.known_extra['free_locals'] = dict(self.spec.get('free_locals', {}))
        return head + body
