"""./check <Cxx> [--tier quick|thorough] [--replay file] [--relock]"""
import os
import sys
import json
import time
import signal
import argparse
import importlib
import traceback
import warnings

sys.path.insert(0, os.path.dirname(os.path.dirname(os.path.abspath(__file__))))
from harness import common as C  # noqa: E402


def relock():
    lines = []
    pd = os.path.join(C.LEAN, 'Props')
    for fn in sorted(os.listdir(pd)):
        if fn.endswith('.lean'):
            lines.append('%s %s\n' % (fn[:-5], C.sha(os.path.join(pd, fn))))
    open(C.LOCK, 'w').writelines(lines)
    print('props.lock rewritten (%d files)' % len(lines))
    lit = C.pin_literals()
    print('tools/src_literals.json rewritten (%d properties, %d literals)' % (
        len(lit), sum(len(v) for d in lit.values() for v in d.values())))


def on_alarm(signum, frame):
    print('TIMEOUT: check exceeded its time budget (infrastructure, not a violation)')
    os._exit(2)


def main():
    ap = argparse.ArgumentParser()
    ap.add_argument('pid', nargs='?')
    ap.add_argument('--tier', default=os.environ.get('VERIF_TIER', 'quick'))
    ap.add_argument('--replay')
    ap.add_argument('--relock', action='store_true')
    a = ap.parse_args()
    if a.relock:
        relock()
        return 0
    if a.tier not in ('quick', 'thorough'):
        a.tier = 'quick'
    pid = a.pid
    try:
        seed = int(os.environ.get('VERIF_SEED', '0'))
    except ValueError:
        seed = 0
    os.environ.setdefault('TAUREX3_VERIF', '1')
    warnings.filterwarnings('ignore')
    signal.signal(signal.SIGALRM, on_alarm)
    signal.alarm(1500 if a.tier == 'quick' else 6 * 3600)
    ctx = C.Ctx(pid, a.tier, seed)
    try:
        mod = importlib.import_module('harness.' + pid.lower())
    except ImportError as e:
        print('no check module for', pid, e)
        return 2
    gen_broken = []
    try:
        if hasattr(mod, 'pregen'):
            mod.pregen(ctx)
        ok, log = C.lake_build(['Props.' + pid, 'driver_' + pid.lower()] +
                               ['driver_' + x.lower() for x in getattr(mod, 'USES_MODELS', [])])
        if not ok:
            # a failing build is a broken proof obligation only when it is caused by a table
            # regenerated from /repo; otherwise it is our own infrastructure
            if hasattr(mod, 'build_failure_is_obligation') and mod.build_failure_is_obligation(log):
                gen_broken.append(log[-1500:])
            else:
                print(log[-3000:])
                print('INFRA: lake build failed')
                return 2
        tie = C.source_tie(pid, mod)
        if tie is not None:
            ctx.extra = dict(getattr(ctx, 'extra', None) or {}, source_tie=tie['info'])
        if gen_broken:
            aud = dict(obligations=1, discharged=0, failures=['lake build of the regenerated tables failed: '
                       + gen_broken[0]], axioms={}, checker_cmd='cd lean && lake build', theorems=[])
        else:
            aud = C.audit(pid, thorough=(a.tier == 'thorough'), tie=tie)
        if a.replay:
            case = C.unjson_floats(json.load(open(a.replay)))
            mod.replay(ctx, case)
        else:
            for fn, case in C.corpus_cases(pid):
                ctx.bucket('corpus')
                mod.replay(ctx, case.get('case', case))
            mod.run(ctx)
            if (aud['failures'] or ctx.mismatches) and not ctx.violations and hasattr(mod, 'search'):
                mod.search(ctx)
    except C.InfraError as e:
        print('INFRA:', e)
        return 2
    except Exception as e:
        # an exception that escapes the property module: if it was RAISED INSIDE the implementation under test (innermost
        # frame in the taurex package) on an input the module generated, the real code failed on an input of the
        # quantified domain -> a violation with the traceback as replay; anything raised by our own code is infrastructure
        tb = traceback.extract_tb(e.__traceback__)
        # walking outwards from the raise site, which comes first: a frame of the package under test, or a frame of ours?
        # (library frames - numpy, scipy, h5py - raised on behalf of whoever called them)
        here = os.path.dirname(os.path.abspath(__file__))
        inner = ''
        for fr in reversed(tb):
            fn = fr.filename.replace('\\', '/')
            if fn.startswith(here):
                break
            if '/taurex/' in fn and '/site-packages/' not in fn:
                inner = fn
                tb = tb[:tb.index(fr) + 1]
                break
        if inner:
            ctx.violation('uncaught-exception-from-implementation:%s:%s' % (type(e).__name__, os.path.basename(inner)),
                          'the implementation raised %r inside %s:%d (%s) on a generated input that the check does not '
                          'guard' % (e, inner, tb[-1].lineno, tb[-1].name), dict(traceback=traceback.format_exc()[-3000:]))
            aud = locals().get('aud') or dict(obligations=1, discharged=0, failures=['check aborted by an exception from the '
                                              'implementation'], axioms={}, checker_cmd='', theorems=[])
        else:
            traceback.print_exc()
            print('INFRA: unexpected exception in the check itself')
            return 2
    finally:
        ctx.close()

    known = dict(C.known_findings(pid))
    new_v = []
    seen_known = set()
    for v in ctx.violations:
        if v['key'] in known:
            if v['key'] not in seen_known:
                seen_known.add(v['key'])
                print('KNOWN-FINDING: property=%s %s [%s]' % (pid, known[v['key']], v['key']))
        else:
            new_v.append(v)
    rc = 0
    nviol = 0
    if new_v:
        seen = set()
        for i, v in enumerate(new_v):
            if v['key'] in seen:
                continue
            seen.add(v['key'])
            nviol += 1
            p = C.write_replay(pid, seed, i, dict(property=pid, kind='failing-input', key=v['key'], what=v['what'],
                                                  case=v['case'], detail=v['detail']))
            print('VIOLATION property=%s replay=%s' % (pid, p))
            print('  ', v['what'])
        rc = 1
    elif aud['failures'] or ctx.mismatches:
        nviol = 1
        mm = [m for m in ctx.mismatches if m][:5]
        p = C.write_replay(pid, seed, 0, dict(
            property=pid, kind='unchecked-obligation',
            theorems_no_longer_checked=aud['failures'],
            correspondence_no_longer_checked=[m['observable'] for m in mm],
            first_disagreements=mm,
            note='no input was found on which the property itself fails on the implementation; '
                 'the property is no longer shown to hold'))
        print('VIOLATION property=%s replay=%s no-failing-input-found' % (pid, p))
        for f in aud['failures'][:5]:
            print('   audit:', f)
        for m in mm[:3]:
            print('   correspondence:', m['observable'], json.dumps(m['detail'])[:300])
        rc = 1
    C.write_evidence(ctx, aud, getattr(mod, 'RULE', ''), getattr(mod, 'ASSUMPTIONS', []),
                     extra=getattr(ctx, 'extra', None), nviol=nviol)
    print('%s %s seed=%d: obligations %d/%d, cases %d (%d distinct non-trivial), comparisons %d, '
          'mismatches %d, violations %d, known %d, %.1fs' % (
              pid, a.tier, seed, aud['discharged'], aud['obligations'], ctx.evaluations,
              len(ctx.nontrivial_keys), ctx.disagreements_checked, len(ctx.mismatches), nviol,
              len(seen_known), time.time() - ctx.t0))
    return rc


if __name__ == '__main__':
    sys.exit(main())
