"""A fake `mpi4py` for the C18 check: `size` ranks are forked processes, the parent is a hub; every object that
crosses a collective is really pickled by the sending rank and really unpickled by each receiving rank (the hub
only shuffles the pickled bytes).  The collectives are synchronous, like mpi4py's: a rank blocks until every rank
has entered the same collective.

How taurex obtains the communicator (taurex/mpi.py): every helper does `from mpi4py import MPI` inside the call and
uses `MPI.COMM_WORLD`; `nprocs`, `get_rank`, `shared_comm`, `shared_rank` are `functools.lru_cache`d, so they are
cleared in every simulated rank before the target runs (the parent, which has no mpi4py, may have cached 1 / 0).

    results = run_ranks(size, target)      # target(rank, size) runs inside rank `rank`, returns a picklable value
    -> list over ranks of dict(status='ok'|'exc', value=…, error=…, stats=dict(exchanges=…, pickled_bytes=…))

Collectives provided on COMM_WORLD: Get_rank, Get_size, allgather, allreduce(op=SUM|PROD|MAX|MIN), bcast, Bcast,
gather, Barrier.  `allreduce` of Python objects applies the operator pairwise in rank order, as mpi4py's pickle-based
reduction does (so lists concatenate in rank order under SUM).
"""
import os
import sys
import time
import types
import pickle
import select
import signal
import struct
import operator
import functools
import traceback


class FakeMPIError(Exception):
    """the simulated ranks lost step with each other, died, or timed out (infrastructure or a deadlock in the code)"""


# ----------------------------------------------------------------------------- framing
def _write_all(fd, data):
    view = memoryview(data)
    while len(view):
        n = os.write(fd, view[:1 << 16])
        view = view[n:]


def _send(fd, kind, root, payload):
    _write_all(fd, struct.pack('<cqQ', kind, root, len(payload)) + payload)


def _read_exact(fd, n, deadline):
    chunks = []
    while n > 0:
        if deadline is not None:
            left = deadline - time.time()
            if left <= 0:
                raise FakeMPIError('timeout waiting for a rank')
            r, _, _ = select.select([fd], [], [], min(left, 5.0))
            if not r:
                continue
        b = os.read(fd, min(n, 1 << 20))
        if not b:
            raise FakeMPIError('a rank closed its pipe (died) inside the run')
        chunks.append(b)
        n -= len(b)
    return b''.join(chunks)


def _recv(fd, deadline=None):
    kind, root, ln = struct.unpack('<cqQ', _read_exact(fd, 17, deadline))
    return kind, root, _read_exact(fd, ln, deadline)


# ----------------------------------------------------------------------------- rank side
class Op:
    def __init__(self, name, fn):
        self.name = name
        self.fn = fn

    def __repr__(self):
        return '<fake MPI.%s>' % self.name


SUM = Op('SUM', operator.add)
PROD = Op('PROD', operator.mul)
MAX = Op('MAX', max)
MIN = Op('MIN', min)


class FakeComm:
    """COMM_WORLD of one simulated rank"""

    def __init__(self, rank, size, rfd, wfd):
        self.rank = rank
        self.size = size
        self._r = rfd
        self._w = wfd
        self.exchanges = 0
        self.pickled_bytes = 0
        self.log = []

    def Get_rank(self):
        return self.rank

    def Get_size(self):
        return self.size

    def _dumps(self, obj):
        b = pickle.dumps(obj, protocol=pickle.HIGHEST_PROTOCOL)
        self.pickled_bytes += len(b)
        return b

    def _collective(self, kind, root, payload):
        self.exchanges += 1
        self.log.append(kind.decode())
        _send(self._w, kind, root, payload)
        k, _, resp = _recv(self._r)
        if k != kind:
            raise FakeMPIError('hub answered %r to %r' % (k, kind))
        return resp

    def allgather(self, sendobj):
        blobs = pickle.loads(self._collective(b'G', 0, self._dumps(sendobj)))
        return [pickle.loads(b) for b in blobs]

    def gather(self, sendobj, root=0):
        out = self.allgather(sendobj)
        return out if self.rank == root else None

    def allreduce(self, sendobj, op=SUM):
        parts = self.allgather(sendobj)
        return functools.reduce(op.fn, parts)

    def bcast(self, obj=None, root=0):
        payload = self._dumps(obj) if self.rank == root else b''
        return pickle.loads(self._collective(b'B', root, payload))

    def Bcast(self, buf, root=0):
        import numpy as np
        got = self.bcast(np.array(buf, copy=True) if self.rank == root else None, root=root)
        if self.rank != root:
            buf[...] = got

    def Barrier(self):
        self._collective(b'R', 0, b'')

    barrier = Barrier

    def Split_type(self, *a, **k):
        raise NotImplementedError('fake mpi4py: shared-memory communicators are not simulated')


def install(comm):
    """make `from mpi4py import MPI` resolve to the fake in this process and reset taurex's cached rank/size"""
    mpi = types.ModuleType('mpi4py.MPI')
    mpi.COMM_WORLD = comm
    mpi.SUM, mpi.PROD, mpi.MAX, mpi.MIN = SUM, PROD, MAX, MIN
    mpi.COMM_TYPE_SHARED = 0
    mpi.Op = Op
    mpi.__fake__ = True
    pkg = types.ModuleType('mpi4py')
    pkg.MPI = mpi
    pkg.__path__ = []
    pkg.__fake__ = True
    sys.modules['mpi4py'] = pkg
    sys.modules['mpi4py.MPI'] = mpi
    reset_taurex_mpi_caches()


def uninstall():
    sys.modules.pop('mpi4py', None)
    sys.modules.pop('mpi4py.MPI', None)
    reset_taurex_mpi_caches()


def reset_taurex_mpi_caches():
    try:
        import taurex.mpi as tm
    except Exception:
        return
    for name in dir(tm):
        f = getattr(tm, name, None)
        if callable(f) and hasattr(f, 'cache_clear'):
            f.cache_clear()


def _child(rank, size, rfd, wfd, target):
    status = 'ok'
    value = None
    error = None
    comm = FakeComm(rank, size, rfd, wfd)
    try:
        try:
            devnull = os.open(os.devnull, os.O_WRONLY)
            os.dup2(devnull, 1)
            os.dup2(devnull, 2)
        except OSError:
            pass
        signal.alarm(0)
        install(comm)
        value = target(rank, size)
    except BaseException as e:  # noqa: the rank reports, the hub decides
        status = 'exc'
        error = dict(type=type(e).__name__, text=str(e)[:500], trace=traceback.format_exc()[-2000:])
    try:
        blob = pickle.dumps(dict(status=status, value=value, error=error,
                                 stats=dict(exchanges=comm.exchanges, pickled_bytes=comm.pickled_bytes,
                                            log=''.join(comm.log))))
    except Exception as e:
        blob = pickle.dumps(dict(status='exc', value=None,
                                 error=dict(type='Unpicklable', text=repr(e)[:300], trace=''),
                                 stats=dict(exchanges=comm.exchanges, pickled_bytes=comm.pickled_bytes, log='')))
    try:
        _send(wfd, b'D', 0, blob)
    finally:
        os._exit(0)


# ----------------------------------------------------------------------------- hub side
def run_ranks(size, target, timeout=120.0):
    """fork `size` ranks running `target(rank, size)` under the fake communicator; serve their collectives"""
    if size < 1:
        raise ValueError('size >= 1')
    sys.stdout.flush()
    sys.stderr.flush()
    up = []      # child -> hub   (read end kept by the hub)
    down = []    # hub -> child   (write end kept by the hub)
    pids = []
    pipes = [(os.pipe(), os.pipe()) for _ in range(size)]
    try:
        for rank in range(size):
            (c2p_r, c2p_w), (p2c_r, p2c_w) = pipes[rank]
            pid = os.fork()
            if pid == 0:
                # keep only this rank's ends
                for r2, ((a, b), (c, d)) in enumerate(pipes):
                    for fd in ((a, d) if r2 == rank else (a, b, c, d)):
                        try:
                            os.close(fd)
                        except OSError:
                            pass
                _child(rank, size, p2c_r, c2p_w, target)
                os._exit(0)
            pids.append(pid)
        for (c2p_r, c2p_w), (p2c_r, p2c_w) in pipes:
            os.close(c2p_w)
            os.close(p2c_r)
            up.append(c2p_r)
            down.append(p2c_w)
        deadline = time.time() + timeout
        results = [None] * size
        rounds = 0
        while True:
            msgs = [_recv(up[r], deadline) for r in range(size)]
            kinds = {m[0] for m in msgs}
            if b'D' in kinds:
                done = [pickle.loads(m[2]) if m[0] == b'D' else None for m in msgs]
                if kinds != {b'D'}:
                    bad = [d for d in done if d is not None and d['status'] == 'exc']
                    if bad:     # one rank raised while the others wait in a collective: report the exception
                        for r in range(size):
                            results[r] = done[r] or dict(status='abandoned', value=None, error=None, stats={})
                        return results
                    raise FakeMPIError('ranks out of step: some finished while others entered %r'
                                       % sorted(k.decode() for k in kinds))
                return done
            if len(kinds) != 1:
                raise FakeMPIError('ranks entered different collectives: %r' % sorted(k.decode() for k in kinds))
            kind = msgs[0][0]
            rounds += 1
            if kind == b'G':
                resp = pickle.dumps([m[2] for m in msgs])
                for r in range(size):
                    _send(down[r], kind, 0, resp)
            elif kind == b'B':
                roots = {m[1] for m in msgs}
                if len(roots) != 1:
                    raise FakeMPIError('bcast with different roots %r' % sorted(roots))
                root = roots.pop()
                for r in range(size):
                    _send(down[r], kind, root, msgs[root][2])
            elif kind == b'R':
                for r in range(size):
                    _send(down[r], kind, 0, b'')
            else:
                raise FakeMPIError('unknown collective %r' % kind)
    finally:
        for fd in up + down:
            try:
                os.close(fd)
            except OSError:
                pass
        if not up:      # fork failed half-way: close what the hub still holds
            for (a, b), (c, d) in pipes:
                for fd in (a, b, c, d):
                    try:
                        os.close(fd)
                    except OSError:
                        pass
        for pid in pids:
            try:
                t_end = time.time() + 2.0
                while True:
                    p, _ = os.waitpid(pid, os.WNOHANG)
                    if p:
                        break
                    if time.time() > t_end:
                        os.kill(pid, signal.SIGKILL)
                        os.waitpid(pid, 0)
                        break
                    time.sleep(0.001)
            except (ChildProcessError, ProcessLookupError):
                pass
