"""Helpers shared by the C02 (emission / direct image) and C20 (correlated-k) checks: real forward models of /repo
built on in-memory cross-sections / CIA, or on pickle / HDF5 k-table files written to a scratch directory, and an
independent numpy evaluation of the documented integrals (used only by the property predicates)."""
import os
import pickle
import numpy as np
import taurex.log

taurex.log.disableLogging()


# ----------------------------------------------------------------------------- cache state
class CacheState:
    """saves and restores the singletons the checks touch (GlobalCache, OpacityCache, KTableCache, CIACache)"""

    def __enter__(self):
        from taurex.cache import GlobalCache, OpacityCache, CIACache
        from taurex.cache.ktablecache import KTableCache
        self.g = dict(GlobalCache().variable_dict)
        self.o = dict(OpacityCache().opacity_dict)
        self.k = dict(KTableCache().opacity_dict)
        self.kp = KTableCache()._opacity_path
        self.c = dict(CIACache().cia_dict)
        return self

    def __exit__(self, *a):
        from taurex.cache import GlobalCache, OpacityCache, CIACache
        from taurex.cache.ktablecache import KTableCache
        GlobalCache().variable_dict = self.g
        OpacityCache().opacity_dict = self.o
        KTableCache().opacity_dict = self.k
        KTableCache()._opacity_path = self.kp
        CIACache().cia_dict = self.c
        return False


def use_xsec():
    from taurex.cache import GlobalCache
    GlobalCache()['opacity_method'] = 'xsec'


def use_ktables(path):
    from taurex.cache import GlobalCache
    from taurex.cache.ktablecache import KTableCache
    GlobalCache()['opacity_method'] = 'ktables'
    GlobalCache()['ktable_path'] = path
    KTableCache().clear_cache()


WN_DTYPE = None        # set by a check for the duration of one case (integer-dtype wavenumber axis quota)


def mem_opacity(name, tg, pg_pa, tab, wn, mode='linear'):
    """in-memory cross-section table: tab[P, T, wn] (cm2), pressures in Pa"""
    from taurex.opacity.interpolateopacity import InterpolatingOpacity
    tg, pg_pa, tab, wn = (np.asarray(x, float) for x in (tg, pg_pa, tab, wn))
    if WN_DTYPE is not None and np.all(wn == np.round(wn)):
        # quota: a table whose wavenumber axis is stored with an integer (or single-precision) dtype, as loaders of
        # user-made files can produce; the values are the same numbers
        wn = wn.astype(WN_DTYPE)

    class MemOpacity(InterpolatingOpacity):
        def __init__(self):
            super().__init__('MemOpacity:' + name, interpolation_mode=mode)

        moleculeName = name
        xsecGrid = property(lambda self: tab)
        wavenumberGrid = property(lambda self: wn)
        temperatureGrid = property(lambda self: tg)
        pressureGrid = property(lambda self: pg_pa)
    return MemOpacity()


def install_xsecs(tables, mode='linear'):
    """tables: {molecule: (tg, pg_bar, tab[P,T,wn], wn)}; replaces the content of OpacityCache"""
    from taurex.cache import OpacityCache
    OpacityCache().clear_cache()
    for name, (tg, pg_bar, tab, wn) in tables.items():
        OpacityCache().add_opacity(mem_opacity(name, tg, np.asarray(pg_bar, float) * 1e5, tab, wn, mode))
    use_xsec()


def write_ktables(path, tables, fmt='pickle'):
    """tables: {molecule: (tg, pg_bar, kcoeff[P,T,wn,g], wn, weights)} -> `<molecule>.pickle` files in the layout the
    real loader (PickleKTable) reads, or (`fmt='hdf5'`) `<molecule>.h5` files in the layout of HDF5KTable (pressure unit
    bar); removes older k-table files of the directory first"""
    for fn in os.listdir(path):
        if fn.endswith(('.pickle', '.h5', '.hdf5')):
            os.remove(os.path.join(path, fn))
    for name, (tg, pg_bar, kc, wn, w) in tables.items():
        d = dict(bin_centers=np.asarray(wn, float), ngauss=len(w), t=np.asarray(tg, float),
                 p=np.asarray(pg_bar, float), kcoeff=np.asarray(kc, float), weights=np.asarray(w, float), name=name)
        if fmt == 'hdf5':
            import h5py
            with h5py.File(os.path.join(path, name + '.h5'), 'w') as f:
                for key in ('bin_centers', 'ngauss', 't', 'kcoeff', 'weights'):
                    f.create_dataset(key, data=d[key])
                f.create_dataset('p', data=d['p']).attrs['units'] = 'bar'
            continue
        with open(os.path.join(path, name + '.pickle'), 'wb') as fh:
            pickle.dump(d, fh)


def install_ktables(path, tables, fmt='pickle'):
    write_ktables(path, tables, fmt)
    use_ktables(path)


def mem_cia(pair, tg, tab, wn):
    """in-memory CIA: tab[T, wn]; linear interpolation in T clamped at the ends (documented in `law`)"""
    from taurex.cia.cia import CIA
    tg, tab, wn = (np.asarray(x, float) for x in (tg, tab, wn))

    class MemCIA(CIA):
        def __init__(self):
            super().__init__('MemCIA', pair)

        wavenumberGrid = property(lambda self: wn)
        temperatureGrid = property(lambda self: tg)

        def compute_cia(self, temperature):
            return np.array([np.interp(temperature, tg, tab[:, i]) for i in range(len(wn))])
    return MemCIA()


def install_cia(cias):
    from taurex.cache import CIACache
    CIACache().cia_dict = {}
    for c in cias:
        CIACache().add_cia(c)


# ----------------------------------------------------------------------------- forward models
def build_model(kind, spec):
    """kind in {'emission','direct','transmission'}; spec keys: mp, rp (Jupiter units), ts, rs (solar), dist (pc),
    nlayers, pmin, pmax (Pa), T (scalar or per-layer list), gases {name: mix}, cia [pair…], ngauss, fill, ratio"""
    from taurex.data import Planet
    from taurex.data.stellar import BlackbodyStar
    from taurex.data.profiles.temperature import Isothermal
    from taurex.data.profiles.temperature.temparray import TemperatureArray
    from taurex.data.profiles.chemistry import TaurexChemistry, ConstantGas
    from taurex.contributions import AbsorptionContribution, CIAContribution
    # the global option that switches molecules off as absorbers (read when the chemistry is constructed): it must act the
    # same way in both opacity modes
    from taurex.cache import GlobalCache
    GlobalCache()['deactive_molecules'] = list(spec['deactive']) if spec.get('deactive') else None
    planet = Planet(planet_mass=spec['mp'], planet_radius=spec['rp'])
    star = BlackbodyStar(temperature=spec['ts'], radius=spec['rs'], distance=spec.get('dist', 1.0))
    T = spec['T']
    if np.ndim(T) == 0:
        tp = Isothermal(T=float(T))
    else:
        tp = TemperatureArray(tp_array=np.asarray(T, float))
    chem = TaurexChemistry(fill_gases=spec.get('fill', ['H2', 'He']), ratio=spec.get('ratio', 0.17))
    for g, mix in spec['gases'].items():
        chem.addGas(ConstantGas(g, mix_ratio=mix))
    kw = dict(planet=planet, star=star, temperature_profile=tp, chemistry=chem, nlayers=int(spec['nlayers']),
              atm_min_pressure=spec['pmin'], atm_max_pressure=spec['pmax'])
    if kind == 'transmission':
        from taurex.model import TransmissionModel
        m = TransmissionModel(**kw)
    elif kind == 'direct':
        from taurex.model import DirectImageModel
        m = DirectImageModel(ngauss=int(spec.get('ngauss', 4)), **kw)
    else:
        from taurex.model import EmissionModel
        m = EmissionModel(ngauss=int(spec.get('ngauss', 4)), **kw)
    # insertion order is kept by build() (stable sort on equal `order`): with `cia_first` the collision-induced
    # absorption is already in tau[layer] when the molecular (cross-section or k-table) kernel adds its part
    if spec.get('contribs') is not None:
        # an explicit contribution list, in this order; it may leave the molecular absorption out:
        # 'absorption' | 'cia' (pairs spec['cia']) | 'rayleigh' | 'flatmie' (spec['flatmie'] = dict(mix[, bottomP, topP]))
        from taurex.contributions import RayleighContribution, FlatMieContribution
        for name in spec['contribs']:
            if name == 'absorption':
                m.add_contribution(AbsorptionContribution())
            elif name == 'cia':
                m.add_contribution(CIAContribution(cia_pairs=list(spec['cia'])))
            elif name == 'rayleigh':
                m.add_contribution(RayleighContribution())
            elif name == 'flatmie':
                fm = spec['flatmie']
                m.add_contribution(FlatMieContribution(flat_mix_ratio=fm['mix'], flat_bottomP=fm.get('bottomP', -1),
                                                       flat_topP=fm.get('topP', -1)))
            else:
                raise ValueError(name)
    elif spec.get('cia') and spec.get('cia_first'):
        m.add_contribution(CIAContribution(cia_pairs=list(spec['cia'])))
        m.add_contribution(AbsorptionContribution())
    else:
        m.add_contribution(AbsorptionContribution())
        if spec.get('cia'):
            m.add_contribution(CIAContribution(cia_pairs=list(spec['cia'])))
    m.build()
    return m


def planck_constants():
    """the constants the kernel uses, read from the repo at run time: (PI, PLANCK, SPDLIGT, KBOLTZ)"""
    import taurex.util.emission as ue
    return float(ue.PI), float(ue.PLANCK), float(ue.SPDLIGT), float(ue.KBOLTZ)


def planck_np(wn, T):
    """independent numpy evaluation of the documented Planck law (W/m2/um) at wavenumbers `wn` (cm-1)"""
    PI, H, CL, KB = planck_constants()
    wl = 10000 * 1e-6 / np.asarray(wn, float)
    return (PI * (2.0 * H * CL ** 2) / wl ** 5) * (1.0 / (np.exp((H * CL) / (wl * KB * T)) - 1)) * 1e-6


def contribution_inputs(m):
    """after a model run: list of (kind, sigma) per contribution in list order; kind 0: sigma*rho, 1: sigma*rho^2.
    A CIA contribution without pairs adds nothing (the code skips it) and is omitted."""
    from taurex.contributions import CIAContribution
    out = []
    for c in m.contribution_list:
        if isinstance(c, CIAContribution):
            if len(c.ciaPairs) > 0:
                out.append((1, np.array(c.sigma_xsec, float)))
        else:
            out.append((0, np.array(c.sigma_xsec, float)))
    return out


# ----------------------------------------------------------------------------- independent reference (numpy)
def layer_elements(contribs, dz, dens):
    """optical-depth element of every (layer, wavenumber): sum over contributions of sigma*dz*rho (rho^2 for CIA)"""
    dz = np.asarray(dz, float)[:, None]
    dens = np.asarray(dens, float)[:, None]
    el = 0.0
    for kind, sig in contribs:
        el = el + np.asarray(sig, float) * dz * (dens if kind == 0 else dens * dens)
    return el


def ref_emission(nus, el, T, mus, ws, clamp=10.0):
    """the documented plane-parallel integral evaluated with plain numpy from the per-layer optical-depth elements
    `el[layer, wn]`: returns dict(I_uncut[q,wn], I_cut[q,wn], flux_uncut[wn], flux_cut[wn], band_flux[wn], surf,
    clampedD[layer]) where `cut` applies the code's licensed saturation clamp (transmittance of a level whose
    optical depth is >= clamp at every wavenumber is taken as zero) and band_flux is the proved bound
    exp(-clamp) * sum over clamped layers of B(T_l)."""
    PI = planck_constants()[0]
    nus = np.asarray(nus, float)
    T = np.asarray(T, float)
    n = len(T)
    el = np.asarray(el, float)
    lt = np.array([el[l + 1:].sum(axis=0) if l + 1 < n else np.zeros(len(nus)) for l in range(n)])
    dt = lt + el
    surf = el.sum(axis=0)
    B = np.array([planck_np(nus, T[l]) / PI for l in range(n)])
    keepL = np.array([lt[l].min() < clamp for l in range(n)])
    keepD = np.array([dt[l].min() < clamp for l in range(n)])
    Iu = []
    Ic = []
    for mu in mus:
        iu = B[0] * np.exp(-surf / mu)
        ic = iu.copy()
        for l in range(n):
            eL = np.exp(-lt[l] / mu)
            eD = np.exp(-dt[l] / mu)
            iu = iu + B[l] * (eL - eD)
            ic = ic + B[l] * ((eL if keepL[l] else 0.0) - (eD if keepD[l] else 0.0))
        Iu.append(iu)
        Ic.append(ic)
    Iu = np.array(Iu)
    Ic = np.array(Ic)
    wm = (np.asarray(ws, float) * np.asarray(mus, float))[:, None]
    band = np.exp(-clamp) * (B[~keepD].sum(axis=0) * PI if (~keepD).any() else np.zeros(len(nus)))
    return dict(I_uncut=Iu, I_cut=Ic, flux_uncut=2 * np.pi * (Iu * wm).sum(axis=0),
                flux_cut=2 * np.pi * (Ic * wm).sum(axis=0), band_flux=band * 2 * float(wm.sum()), surf=surf,
                clampedD=~keepD, B=B, lt=lt, dt=dt)


# ----------------------------------------------------------------------------- one model run, either opacity mode
def install_tables(wn, tables, cia, mode, scratch=None, weights=None, kfmt='pickle', interp=None):
    """register one opacity set (call inside CacheState()): tables {mol: dict(tg, pg (bar), tab[P,T,wn] or
    kcoeff[P,T,wn,g], optional own 'wn' grid, optional own 'weights')}; mode 'xsec' or 'ktables' (then k-table files of the
    container `kfmt` ('pickle' | 'hdf5') are (re)written into `scratch`, KTableCache is cleared and pointed there).
    `interp` ('linear' | 'exp'; default: whatever is configured, in-memory cross-sections linear): the temperature
    interpolation mode, selected through the public OpacityCache().set_interpolation before the set is installed"""
    wn = np.asarray(wn, float)
    if interp is not None:
        from taurex.cache import OpacityCache
        OpacityCache().set_interpolation(interp)

    def grid(t):
        return wn if t.get('wn') is None else np.asarray(t['wn'], float)
    if mode == 'xsec':
        from taurex.cache import OpacityCache
        OpacityCache().clear_cache()
        for nm, t in tables.items():
            OpacityCache().add_opacity(mem_opacity(nm, t['tg'], np.asarray(t['pg'], float) * 1e5,
                                                   np.asarray(t['tab'], float), grid(t), interp or 'linear'))
        use_xsec()
    else:
        install_ktables(scratch, {nm: (t['tg'], t['pg'], np.asarray(t['kcoeff'], float), grid(t),
                                       np.asarray(t['weights'] if t.get('weights') is not None else weights, float))
                                  for nm, t in tables.items()}, kfmt)
    cias = []
    if cia:
        cias.append(mem_cia(cia['pair'], cia['tg'], np.asarray(cia['tab'], float), wn))
    install_cia(cias)


def observe_model(m, kind):
    """run a (possibly reused) model object and return everything observed"""
    out = {}
    if kind != 'transmission':
        I, _mu, _w, _ = m.partial_model()
        out.update(I=np.array(I, float), muinv=np.array(_mu, float).ravel(), w=np.array(_w, float).ravel(),
                   mu_quads=np.array(m._mu_quads, float), wi_quads=np.array(m._wi_quads, float))
    grid, flux, tau, _ = m.model()
    from taurex.contributions import AbsorptionContribution
    # (a model built from an explicit list `spec['contribs']` may hold no molecular absorption: `ab` is None then)
    ab = ([c for c in m.contribution_list if isinstance(c, AbsorptionContribution)] + [None])[0]
    out.update(grid=np.array(grid, float), flux=np.array(flux, float).ravel(), tau=np.array(tau, float),
               dz=np.array(m.deltaz, float), dens=np.array(m.densityProfile, float),
               T=np.array(m.temperatureProfile, float), ap=np.array(m.altitudeProfile, float),
               sigma_abs=None if ab is None else np.array(ab.sigma_xsec, float),
               weights=None if ab is None or ab.weights is None else np.array(ab.weights, float),
               nonmol=[kc for kc, c in zip(contribution_inputs_all(m), m.contribution_list) if c is not ab and kc],
               rp=float(m.planet.fullRadius), rs=float(m.star.radius), dist=float(m.star.distance),
               tstar=float(m.star.temperature), sed=np.array(m.star.spectralEmissionDensity, float))
    if kind == 'transmission':
        out['path'] = [np.array(p, float) for p in m.path_length]
    return out


def run_model(kind, spec, wn, tables, cia, mode, scratch=None, weights=None, kfmt='pickle', interp=None):
    """build a fresh model on the given opacity set and run it; cache state is restored afterwards"""
    with CacheState():
        install_tables(wn, tables, cia, mode, scratch, weights, kfmt, interp)
        return observe_model(build_model(kind, spec), kind)


def contribution_inputs_all(m):
    """like contribution_inputs but aligned with m.contribution_list (None for a CIA contribution without pairs and
    for the k-table absorption, whose sigma is 3-D)"""
    from taurex.contributions import CIAContribution
    out = []
    for c in m.contribution_list:
        if isinstance(c, CIAContribution):
            out.append((1, np.array(c.sigma_xsec, float)) if len(c.ciaPairs) > 0 else None)
        elif np.ndim(c.sigma_xsec) == 2:
            out.append((0, np.array(c.sigma_xsec, float)))
        else:
            out.append(None)
    return out
