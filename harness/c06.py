"""C06 — every sampler is handed the Gaussian log-likelihood of the binned model.

Recording doubles (harness/doubles.py) replace nestle / pymultinest / pypolychord; the real wrappers
(`NestleOptimizer`, `MultiNestOptimizer`, `PolyChordOptimizer`) are driven through `compile_params()` +
`compute_fit()` and the two callbacks they hand to the sampler entry point are captured.  For generated
observations, fitted subsets, priors and sequences of unit-cube points (valid and invalid interleaved) the captured
callbacks are compared with
  (i)  an independent evaluation: a second model/observation pair built from the same spec, parameters written by
       hand (`model[name] = prior(sample(u))`), `model.model(wngrid=obs)` binned with a fresh `obs.create_binner()`,
       chi^2 and the normalisation recomputed in numpy — these are the property's own predicates;
  (ii) the Lean model (`Likelihood.priorTransform / updateModel / loglike / runSequence`) through `driver_c06`.
"""
import io
import os
import math
import shutil
import logging
import tempfile
import contextlib
import numpy as np
from harness import common as C
from harness import doubles

RULE = ('fixture polynomial forward model (1-4 coefficients, linear/log modes, invalid when c0 > limit, optional NaN '
        'bins) with a native-grid observation (NativeBinner) or a real ArraySpectrum (FluxBinner, 3/4 columns, any '
        'bin layout), optional observation-owned fitted parameter; real TransmissionModel (in-memory H2O / CH4 opacity; '
        'isothermal / NPoint with 1-3 intermediate nodes (any node temperature / pressure fitted) / Guillot; constant or '
        'layer-dependent TwoLayerGas abundances) with invalid vectors (mixing ratios above unity in every layer or in part of '
        'the atmosphere only, inverted NPoint pressure nodes, zero Guillot opacities), the reference being a model CONSTRUCTED '
        'at the prior-transformed values; fitted subsets with default linear/log priors or user priors (Uniform, LogUniform bounds / '
        'lin_bounds, Gaussian, LogGaussian); sequences of 4-8 cube points incl. 0, 1 and invalid ones; all three '
        'wrappers; the prior callback of the samplers that return the point (nestle, PolyChord) also evaluated twice on a row '
        'of a live-point array the caller keeps; shaped stream: the native-grid observation keeps spectrum and error bars '
        'as a row / column vector or a 2-D / 3-D array (2-30 bins). distinct non-trivial = distinct (sampler, stream, observation type, prior kinds, #fitted, has '
        'invalid point) with at least one finite likelihood')
ASSUMPTIONS = ['scipy.stats.uniform.ppf(x, loc, scale) = x*scale + loc on [0, 1]; scipy.stats.norm.ppf = ndtri(x)*scale + loc '
               '(ndtri supplied by scipy.special)',
               'np.nansum treats NaN entries as 0; np.sum / np.nansum modelled as left folds (pairwise order differs by rounding only)',
               'observation errors > 0 and finite, observation finite (exact fits, chi^2 == 0, are judged like any other point)',
               'forward model + binner are real code (parameter of the Lean model); binning itself is property C05',
               'a real model constructed at given values (constructor arguments) is the forward model "evaluated at exactly '
               'these values"; an atmosphere whose gas profiles (fresh gas objects on the model\'s pressure grid) sum to more '
               'than one in some layer is invalid: Chemistry.mixProfile of the C10 model (driver_c10) decides, cross-checked '
               'with the direct sum',
               'samplers replaced by recording doubles: what the real samplers do with the callbacks is out of scope',
               'rounding: compared to 1e-9 relative + 1e-12*(sum |log terms| + chi^2)']

# source tie (harness/translate.py, dialect 'obj' of harness/translate_obj.py -> lean/TaurexModel/Gen/SrcC06.lean, tied to
# TaurexModel/Likelihood.lean in lean/Props/C06Src.lean)
_OPT = 'taurex/optimizer/optimizer.py'
_OBS = {'self._observed.spectrum': ('spectrum', 'list'), 'self._observed.errorBar': ('errorBar', 'list'),
        'self._observed.wavenumberGrid': ('wavenumberGrid', 'list'), 'np.pi': ('pi', 's'), 'np.nan': ('np_nan', 's')}
_FIT = {'self.fitting_parameters': ('fitting_parameters', 'objlist:Param'),
        'self.fitting_priors': ('fitting_priors', 'objlist:Prior')}
_METH = {'Prior.sample': ('sample', 1), 'Prior.prior': ('prior', 1)}
_CHI = {'self.chisq_trans': ('chisq_trans', ['list', 'list', 'list'], 's')}
SRC_SPECS = [
    dict(module=_OPT, cls='Optimizer', func='chisq_trans', lean='chisq_trans', dialect='obj',
         params=dict(fit_params='skip', data='skip', datastd='list'), attrs=_OBS,
         bool_externals={'np.isnan': 'isnan'},
         # update_model writes the parameters into the forward model (translated separately); its effect reaches this
         # function only through the forward model's binned output, the external `final_model`
         ignore_calls=r'^self\.(debug|info|warning|error|critical)\(|^self\.update_model\(fit_params\)$',
         tuples={'self._binner.bin_model(self._model.model(wngrid=obs_bins))':
                 [('u1', 'skip'), ('final_model', 'list'), ('u2', 'skip'), ('u3', 'skip')]}),
    dict(module='taurex/optimizer/nestle.py', cls='NestleOptimizer', func='compute_fit', inner='nestle_loglike',
         lean='nestle_loglike', dialect='obj', closure=['sqrtpi'], closure_params=['data', 'datastd'],
         params=dict(params='list', data='list', datastd='list'), attrs=_OBS, list_externals=_CHI),
    dict(module='taurex/optimizer/multinest.py', cls='MultiNestOptimizer', func='compute_fit', inner='multinest_loglike',
         lean='multinest_loglike', dialect='obj', closure=['sqrtpi'],
         params=dict(cube='list', ndim='skip', nparams='skip'), attrs=_OBS, list_externals=_CHI,
         lens={'self.fitting_parameters': 'nfit'}),
    dict(module='taurex/optimizer/polychord.py', cls='PolyChordOptimizer', func='compute_fit', inner='polychord_loglike',
         lean='polychord_loglike', dialect='obj', closure=['sqrtpi'], closure_params=['data', 'datastd'],
         params=dict(cube='list', data='list', datastd='list'), attrs=_OBS, list_externals=_CHI,
         lens={'self.fitting_parameters': 'nfit'}, returns=['s', 'list']),
    # the prior callbacks and update_model: loops over the parallel lists fitting_parameters / fitting_priors (abstract objects;
    # `prior.sample`, `prior.prior` are function parameters, the tie supplies the model's)
    dict(module='taurex/optimizer/nestle.py', cls='NestleOptimizer', func='compute_fit', inner='nestle_uniform_prior',
         lean='nestle_uniform_prior', dialect='obj', params=dict(theta='list'), attrs=_FIT, methods=_METH, returns='list'),
    dict(module='taurex/optimizer/multinest.py', cls='MultiNestOptimizer', func='compute_fit',
         inner='multinest_uniform_prior', lean='multinest_uniform_prior', dialect='obj',
         params=dict(cube='list', ndim='skip', nparams='skip'), attrs=_FIT, methods=_METH, out='cube'),
    dict(module='taurex/optimizer/polychord.py', cls='PolyChordOptimizer', func='compute_fit',
         inner='polychord_uniform_prior', lean='polychord_uniform_prior', dialect='obj', closure=['ndim'],
         params=dict(hypercube='list'), attrs=_FIT, methods=_METH, returns='list'),
    dict(module=_OPT, cls='Optimizer', func='update_model', lean='update_model', dialect='obj',
         params=dict(fit_params='list'), attrs=_FIT, methods=_METH, returns='effects', effects_type='Param',
         raises='option'),
]

SAMPLERS = ['nestle', 'multinest', 'polychord']
USES_MODELS = ['C10']     # Chemistry.mixProfile: the mixture rule (sum of the gas profiles above unity in ANY layer = invalid)
TWO_PI_SQRT = math.sqrt(2 * math.pi)
_FX = {}
_TMP = {}


# ------------------------------------------------------------------------------------------ fixtures
def quiet():
    import taurex.log
    from taurex.log.logger import root_logger
    for h in root_logger.handlers:
        h.setLevel(logging.CRITICAL + 10)
    taurex.log.setLogLevel(logging.CRITICAL + 10)


def fixtures():
    """fixture classes built on the repo's own base classes (after the doubles are installed)"""
    if _FX:
        return _FX
    N, M, Pc = doubles.install()
    quiet()
    from taurex.model import ForwardModel
    from taurex.core import fitparam
    from taurex.spectrum import BaseSpectrum
    from taurex.data.spectrum.array import ArraySpectrum
    from taurex.exceptions import InvalidModelException
    from taurex.util.util import clip_native_to_wngrid

    class InvalidPoly(InvalidModelException):
        pass

    class PolyModel(ForwardModel):
        """spectrum = sum_k c_k * x**k on a native grid; InvalidModelException when c0 > limit"""

        def __init__(self, coefs, modes, native, limit, nan_idx=()):
            super().__init__('PolyModel')
            self._c = [float(v) for v in coefs]
            self._x = np.asarray(native, float)
            self._limit = float(limit)
            self._nan = list(nan_idx)
            self.evals = 0
            for k in range(len(self._c)):
                def fget(self_, k=k):
                    return self_._c[k]

                def fset(self_, value, k=k):
                    self_._c[k] = value
                self.add_fittable_param('c%d' % k, 'c%d' % k, fget, fset, modes[k], False, [0.1, 2.0])

            def dsum(self_):
                return float(np.sum(np.asarray(self_._c, float)))

            def dprod(self_):
                return float(self_._c[0]) * float(self_._c[-1]) + 1.0
            self.add_derived_param('csum', 'csum', dsum, False)
            self.add_derived_param('cprod', 'cprod', dprod, False)

        def build(self):
            pass

        def initialize_profiles(self):
            pass

        def generate_profiles(self):
            # "profiles" of this model: its current coefficients (so that the stored profiles show at WHICH parameter
            # vector they were generated); it has no per-contribution breakdown (model_contrib is the base class's)
            return {'coefficients': np.array(self._c, float)}

        def model(self, wngrid=None, cutoff_grid=True):
            self.evals += 1
            native = self._x
            idx = np.arange(len(native))
            if wngrid is not None and cutoff_grid and len(native) > len(np.atleast_1d(wngrid)) >= 2:
                keep = clip_native_to_wngrid(native, wngrid)
                idx = idx[np.isin(native, keep)]
                native = native[idx]
            if self._c[0] > self._limit:
                raise InvalidPoly('c0 above limit')
            acc = 0.0
            pw = np.ones_like(native)
            xs = native / 1000.0
            for c in self._c:
                acc = acc + c * pw
                pw = pw * xs
            acc = np.asarray(acc, float) + np.zeros_like(native)
            for j in self._nan:
                acc[idx == j] = np.nan
            return native, acc, np.zeros((1, len(native))), None

    class GridObs(BaseSpectrum):
        """observation on its own wavenumber grid, NativeBinner (like tests/optimizer LineObs) + a fitted offset"""

        def __init__(self, wn, spec, err, shape=None):
            super().__init__('GridObs')
            self._wn = np.asarray(wn, float)
            self._y = np.asarray(spec, float)
            self._e = np.asarray(err, float)
            if shape is not None:
                # the observation keeps its spectrum and error bars in an array of this shape (orders x pixels, a row /
                # column vector read from a file, ...), bins in C order
                self._y = self._y.reshape(shape)
                self._e = self._e.reshape(shape)
            self._offset = 0.0

        def create_binner(self):
            from taurex.binning import NativeBinner
            return NativeBinner()

        spectrum = property(lambda self: self._y + self._offset)
        wavenumberGrid = property(lambda self: self._wn)
        wavelengthGrid = property(lambda self: 10000 / self._wn)
        errorBar = property(lambda self: self._e)

        @fitparam(param_name='offset', param_latex='off', default_mode='linear', default_fit=False,
                  default_bounds=[-1.0, 1.0])
        def offset(self):
            return self._offset

        @offset.setter
        def offset(self, value):
            self._offset = value

    class OffsetArrayObs(ArraySpectrum):
        """the repo's ArraySpectrum (FluxBinner) + an observation-owned fitted parameter"""

        def __init__(self, arr):
            self._offset = 0.0
            super().__init__(np.asarray(arr, float))

        @property
        def spectrum(self):
            return self._obs_spectrum[:, 1] + self._offset

        @fitparam(param_name='offset', param_latex='off', default_mode='linear', default_fit=False,
                  default_bounds=[-1.0, 1.0])
        def offset(self):
            return self._offset

        @offset.setter
        def offset(self, value):
            self._offset = value

    _FX.update(N=N, M=M, Pc=Pc, PolyModel=PolyModel, GridObs=GridObs, OffsetArrayObs=OffsetArrayObs,
               ArraySpectrum=ArraySpectrum, InvalidModelException=InvalidModelException)
    return _FX


def tmpdir():
    if 'd' not in _TMP:
        _TMP['d'] = tempfile.mkdtemp(prefix='verif_c06_')
        _TMP['n'] = 0
    _TMP['n'] += 1
    return os.path.join(_TMP['d'], 'r%d' % _TMP['n'])


def cleanup():
    d = _TMP.pop('d', None)
    if d:
        shutil.rmtree(d, ignore_errors=True)


# ------------------------------------------------------------------------------------------ real forward model
TM_WN = np.linspace(800.0, 3000.0, 45)
TM_T = np.array([200.0, 900.0, 3500.0])
TM_P = np.array([1e-3, 1e2, 1e8])


def install_opacity():
    if _FX.get('opac'):
        return
    from taurex.cache import OpacityCache
    from taurex.opacity.interpolateopacity import InterpolatingOpacity
    r = np.random.Generator(np.random.PCG64(12345))
    xs = 10 ** (-21.0 + 2.5 * np.sin(TM_WN / 170.0)[None, None, :] + r.uniform(-0.3, 0.3, (3, 3, len(TM_WN))))
    xs_ch4 = 10 ** (-21.5 + 2.0 * np.cos(TM_WN / 230.0)[None, None, :] + r.uniform(-0.3, 0.3, (3, 3, len(TM_WN))))

    class MemOpacity(InterpolatingOpacity):
        def __init__(self, mol='H2O', grid=xs):
            super().__init__('MemOpacity:' + mol, interpolation_mode='linear')
            self._mol, self._grid = mol, grid
        moleculeName = property(lambda self: self._mol)
        xsecGrid = property(lambda self: self._grid)
        wavenumberGrid = property(lambda self: TM_WN)
        temperatureGrid = property(lambda self: TM_T)
        pressureGrid = property(lambda self: TM_P)
    OpacityCache().clear_cache()
    OpacityCache().add_opacity(MemOpacity())
    OpacityCache().add_opacity(MemOpacity('CH4', xs_ch4))     # only chemistries that contain CH4 use it
    _FX['opac'] = True


def tm_gases(tspec):
    """gas profiles of a real-model spec: `gases` (constant / two-layer profiles) or, in the first form of the spec, one
    constant H2O abundance `h2o`"""
    if tspec.get('gases') is not None:
        return tspec['gases']
    return [dict(mol='H2O', kind='constant', mix=tspec['h2o'])]


def make_gas(g):
    from taurex.data.profiles.chemistry import ConstantGas, TwoLayerGas
    if g['kind'] == 'constant':
        return ConstantGas(g['mol'], mix_ratio=g['mix'])
    return TwoLayerGas(g['mol'], mix_ratio_surface=g['surface'], mix_ratio_top=g['top'], mix_ratio_P=g['P'],
                       mix_ratio_smoothing=g.get('smooth', 10))


def tm_at(m, values):
    """the spec of the real model with the given parameter VALUES put where the constructors take them: the forward model
    "evaluated at exactly these values" is then built from scratch, not reached through the fitted object's setters"""
    import copy
    m = copy.deepcopy(m)
    t = m['temperature']
    for n, v in values.items():
        v = float(v)
        if n == 'planet_radius':
            m['radius'] = v
        elif n == 'planet_mass':
            m['mass'] = v
        elif n in ('T', 'T_surface', 'T_top', 'T_irr', 'kappa_irr', 'kappa_v1', 'kappa_v2', 'alpha'):
            t[n] = v
        elif n.startswith('T_point'):
            t['T_points'][int(n[7:]) - 1] = v
        elif n.startswith('P_point'):
            t['P_points'][int(n[7:]) - 1] = v
        elif m.get('gases') is None and n == 'H2O':
            m['h2o'] = v
        else:
            for g in m.get('gases') or []:
                if g['kind'] == 'constant' and n == g['mol']:
                    g['mix'] = v
                    break
                if g['kind'] == 'twolayer' and n in (g['mol'] + '_surface', g['mol'] + '_top', g['mol'] + '_P'):
                    g[n[len(g['mol']) + 1:]] = v
                    break
            else:
                raise C.InfraError('no constructor argument known for fitted parameter %r' % (n,))
    return m


def mixture_above_unity(ctx, mspec, sm):
    """the property's own notion of an invalid mixture, independent of TaurexChemistry: the profiles of freshly built gas
    objects on the model's pressure grid, summed per layer, exceed one in SOME layer — decided by the C10 model
    (Chemistry.mixProfile through driver_c10) and directly"""
    from taurex.data.profiles.pressure import SimplePressureProfile
    n = int(mspec['nlayers'])
    pp = SimplePressureProfile(nlayers=n, atm_min_pressure=1e-1, atm_max_pressure=1e6)
    pp.compute_pressure_profile()
    P = np.asarray(pp.profile, float)
    T = np.full(n, 1000.0)
    rows = []
    for g in tm_gases(mspec):
        go = make_gas(g)
        go.initialize_profile(n, T, P, None)
        rows.append([float(x) for x in np.asarray(go.mixProfile, float)])
    total = np.sum(np.asarray(rows, float), axis=0)
    direct = bool(np.any(total > 1.0))
    tag = ctx.model('C10').call('c10.mix', C.N(2), C.L([0.17]), C.LL(rows), C.N(n)).nat()
    ctx.check_eq('mixture above unity in some layer: Chemistry.mixProfile (C10 model) vs the summed gas profiles',
                 tag == 1, direct, dict(sm, gases=tm_gases(mspec)))
    if direct:
        ctx.bucket('mixture:above-unity:' + ('every-layer' if bool(np.all(total > 1.0)) else 'some-layers-only'))
    return direct


def build_tm(tspec):
    """a real TransmissionModel: planet, star, H2/He + constant H2O (in-memory opacity), absorption"""
    install_opacity()
    from taurex.model import TransmissionModel
    from taurex.data import Planet
    from taurex.data.stellar import BlackbodyStar
    from taurex.data.profiles.temperature import Isothermal, NPoint, Guillot2010
    from taurex.data.profiles.chemistry import TaurexChemistry
    from taurex.contributions import AbsorptionContribution
    t = tspec['temperature']
    if t['type'] == 'isothermal':
        tp = Isothermal(T=t['T'])
    elif t['type'] == 'npoint':
        tp = NPoint(T_surface=t['T_surface'], T_top=t['T_top'], temperature_points=list(t['T_points']),
                    pressure_points=list(t['P_points']), smoothing_window=t.get('smooth', 10))
    else:
        tp = Guillot2010(T_irr=t['T_irr'], kappa_irr=t['kappa_irr'], kappa_v1=t['kappa_v1'],
                         kappa_v2=t['kappa_v2'], alpha=t['alpha'])
    chem = TaurexChemistry(fill_gases=['H2', 'He'], ratio=0.17)
    for g in tm_gases(tspec):
        chem.addGas(make_gas(g))
    tm = TransmissionModel(planet=Planet(planet_mass=tspec['mass'], planet_radius=tspec['radius']),
                           star=BlackbodyStar(temperature=5800.0, radius=1.0), temperature_profile=tp,
                           chemistry=chem, nlayers=tspec['nlayers'], atm_min_pressure=1e-1, atm_max_pressure=1e6)
    tm.add_contribution(AbsorptionContribution())
    tm.build()
    return tm


# ------------------------------------------------------------------------------------------ building a case
def build_obs(o):
    fx = fixtures()
    if o['type'] == 'grid':
        return fx['GridObs'](o['wn'], o['spectrum'], o['err'], o.get('shape'))
    cols = [np.asarray(o['wl'], float), np.asarray(o['spectrum'], float), np.asarray(o['err'], float)]
    if o.get('widths') is not None:
        cols.append(np.asarray(o['widths'], float))
    arr = np.stack(cols, axis=1)
    return fx['OffsetArrayObs'](arr) if o['type'] == 'array+offset' else fx['ArraySpectrum'](arr)


def build_pair(spec):
    """(model, observation) from a spec — called twice per case: once for the optimizer, once for the oracle"""
    fx = fixtures()
    o = spec['obs']
    obs = build_obs(o)
    m = spec['model']
    if m['kind'] == 'poly':
        native = m['native'] if m.get('native') is not None else o['wn']
        if isinstance(native, dict):          # compact form {'arange': [start, stop, step]}
            native = np.arange(*native['arange'])
        model = fx['PolyModel'](m['coefs'], m['modes'], native, m['limit'], m.get('nan_idx', ()))
    else:
        model = build_tm(m)
    return model, obs


def make_prior_obj(p):
    from taurex.core.priors import Uniform, LogUniform, Gaussian, LogGaussian
    k = p['kind']
    if k == 'uniform':
        return Uniform(bounds=[p['a'], p['b']])
    if k == 'loguniform':
        return LogUniform(bounds=[p['a'], p['b']])
    if k == 'loguniform_lin':
        return LogUniform(lin_bounds=[p['a'], p['b']])
    if k == 'gaussian':
        return Gaussian(mean=p['a'], std=p['b'])
    if k == 'loggaussian':
        return LogGaussian(mean=p['a'], std=p['b'])
    raise ValueError(k)


def make_optimizer(spec, model, obs):
    fx = fixtures()
    s = spec['sampler']
    final_obs = obs
    if spec.get('prev_obs') is not None:
        # history: the optimizer is built on ANOTHER observation first and handed the real one with set_observed();
        # everything that follows must be that of the observation it holds now
        obs = build_obs(spec['prev_obs'])
    if s == 'nestle':
        opt = fx['N'](observed=obs, model=model, num_live_points=5)
    elif s == 'multinest':
        opt = fx['M'](multi_nest_path=tmpdir(), observed=obs, model=model,
                      search_multi_modes=bool(spec.get('search_multi_modes', spec.get('multimodal', True))),
                      importance_sampling=bool(spec.get('importance', False)))
    else:
        opt = fx['Pc'](polychord_path=tmpdir(), observed=obs, model=model, cluster=bool(spec.get('cluster', True)))
    if final_obs is not obs:
        opt.set_observed(final_obs)
    for f in spec['fit']:
        opt.enable_fit(f['name'])
        if f.get('mode') is not None:
            opt.set_mode(f['name'], f['mode'])
        if f.get('bounds') is not None:
            opt.set_boundary(f['name'], list(f['bounds']))
        if f.get('prior') is not None:
            opt.set_prior(f['name'], make_prior_obj(f['prior']))
    return opt


def fit_order(spec, model2, obs2):
    """expected order of the sampled space: the model's fitting parameters in their dictionary order, then the
    observation's; fitted = enabled by the spec or fitted by default"""
    fitset = {f['name']: f for f in spec['fit']}
    order = []
    for owner in (model2, obs2):
        for n, p in owner.fittingParameters.items():
            if n in order:
                continue
            if n in fitset or p[5]:
                order.append(n)
                if n not in fitset:
                    fitset[n] = dict(name=n, mode=None, bounds=list(p[6]), prior=None)
    return order, fitset


def prior_desc(f, default_mode):
    """(wire kind, a, b, is_log, is_gauss) of the prior the optimizer must use for fitted entry f"""
    p = f.get('prior')
    if p is not None:
        kind = {'uniform': 0, 'loguniform': 1, 'loguniform_lin': 2, 'gaussian': 3, 'loggaussian': 4}[p['kind']]
        return kind, float(p['a']), float(p['b']), p['kind'].startswith('log'), 'gauss' in p['kind']
    mode = f.get('mode') or default_mode
    a, b = f['bounds']
    return (6 if mode == 'log' else 5), float(a), float(b), mode == 'log', False


def oracle_sample(desc, u):
    """independent inverse CDF: Uniform lo + (hi-lo)*u in the prior's space; Gaussian mean + std*ndtri(u)"""
    from scipy.special import ndtri
    kind, a, b, is_log, is_gauss = desc
    if is_gauss:
        return a + b * float(ndtri(u))
    if kind in (2, 6):
        a, b = math.log10(a), math.log10(b)
    lo, hi = min(a, b), max(a, b)
    return lo + (hi - lo) * u


def canned_script(spec, descs):
    def script(call):
        nd = call['ndim']
        rows = np.array([[oracle_sample(d, u) for d in descs] for u in (0.3, 0.5, 0.7, 0.6)]).reshape(4, nd)
        mode = dict(samples=rows, weights=np.array([0.2, 0.4, 0.3, 0.1]), m2logl=np.array([3.0, 1.0, 2.0, 4.0]),
                    mean=rows.mean(0), sigma=rows.std(0) + 1e-3, maximum=rows[1], map=rows[1], logz=-5.0, logzerr=0.1)
        return dict(modes=[mode], logz=-5.0, logzerr=0.1, h=1.0)
    return script


def call_prior(sampler, cb, u):
    if sampler == 'nestle':
        return [float(v) for v in cb(np.array(u, float))]
    if sampler == 'multinest':
        cube = [float(x) for x in u]
        cb(cube, len(u), len(u))
        return [float(v) for v in cube]
    return [float(v) for v in cb(np.array(u, float))]


def call_prior_kept(sampler, cb, u, visits=2):
    """the prior callback as the samplers that RETURN the transformed point use it (nestle, PolyChord): the unit-cube point
    is a row of the sampler's own live-point array (the callback is handed a view of it) and the sampler comes back to the
    same point later. Returns the values of every visit. (MultiNest's callback transforms its cube in place by contract: no
    second visit of the same memory there.)"""
    live = np.zeros((3, len(u)), float)
    live[1, :] = u
    out = []
    for _ in range(visits):
        out.append([float(v) for v in cb(live[1])])
    return out


def call_loglike(sampler, cb, v):
    if sampler == 'nestle':
        return float(cb(np.array(v, float)))
    if sampler == 'multinest':
        return float(cb(list(v), len(v), len(v)))
    r = cb(np.array(v, float))
    return float(r[0])


def wire_priors(descs, zs):
    return C.L(list(zip(descs, zs)), lambda dz: ' '.join([C.N(dz[0][0]), C.F(dz[0][1]), C.F(dz[0][2]), C.F(dz[1])]))


def dec_val(d):
    tag = d.nat()
    x = d.flt()
    return x if tag == 0 else (float('nan') if tag == 1 else float('inf'))


def dec_optval(d):
    if d.nat() == 0:
        return None
    return dec_val(d)


def enc_out(binned):
    if binned is None:
        return '1 0'
    return '0 ' + C.L(list(binned), lambda x: '0' if math.isnan(x) else '1 ' + C.F(x))


def small(spec):
    s = dict(sampler=spec['sampler'], stream=spec.get('stream'), obs=spec['obs']['type'], nobs=len(spec['obs']['err']),
             fit=[(f['name'], f.get('mode'), f.get('bounds'), f.get('prior')) for f in spec['fit']],
             model=spec['model']['kind'])
    return s


# ------------------------------------------------------------------------------------------ one case
def eval_case(ctx, spec):
    from scipy.special import ndtri
    fx = fixtures()
    Invalid = fx['InvalidModelException']
    sampler = spec['sampler']
    model, obs = build_pair(spec)
    model2, obs2 = build_pair(spec)
    order, fitset = fit_order(spec, model2, obs2)
    owner2 = {n: (model2 if n in model2.fittingParameters else obs2) for n in order}
    descs = [prior_desc(fitset[n], owner2[n].fittingParameters[n][4]) for n in order]
    case = dict(spec)
    sm = small(spec)
    doubles.REC.reset()
    doubles.REC.script = canned_script(spec, descs)
    try:
        with contextlib.redirect_stdout(io.StringIO()):
            opt = make_optimizer(spec, model, obs)
            opt.compile_params()
            opt.compute_fit()
    except Exception as e:
        ctx.violation('setup-raises:' + sampler, 'compile_params/compute_fit raised %r before the sampler returned' % (e,),
                      case, dict(error=repr(e)))
        return
    call = doubles.REC.last(sampler)
    if call is None:
        ctx.violation('sampler-not-called:' + sampler, 'the wrapper did not call the sampler entry point', case)
        return
    ctx.check_eq('parameter order of the sampled space', [c[0] for c in opt.fitting_parameters], order, sm)
    ctx.check_eq('ndim handed to the sampler', int(call['ndim']), len(order), sm)
    err = np.asarray(obs2.errorBar, float).ravel()
    norm_terms = np.log(err * TWO_PI_SQRT)
    norm = float(np.sum(norm_terms))
    any_finite = False
    has_invalid = False
    seq_impl, seq_points, seq_binned = [], [], []
    first_valid = None
    for u in spec['cubes']:
        u = [float(x) for x in u]
        zs = [float(ndtri(x)) if d[4] else 0.0 for d, x in zip(descs, u)]
        # ---- prior callback
        try:
            v = call_prior(sampler, call['prior'], u)
        except Exception as e:
            ctx.violation('prior-raises:' + sampler, 'prior callback raised %r' % (e,), case, dict(u=u))
            return
        v_or = [oracle_sample(d, x) for d, x in zip(descs, u)]
        v_md = ctx.model().call('c06.prior', wire_priors(descs, zs), C.L(u)).list()
        ctx.check_close('prior callback vs Likelihood.priorTransform', v, v_md, dict(sm, u=u), rel=1e-12, abs_=1e-300)
        if not C.close(v, v_or, rel=1e-11, abs_=1e-13):
            ctx.violation('prior-order:' + sampler, 'prior callback is not prior_i.sample(u_i) in parameter order',
                          case, dict(u=u, impl=v, expected=v_or, order=order))
        if sampler != 'multinest':
            # the same point held in the sampler's live-point array and visited twice: every visit is the prior transform
            # of the unit-cube point
            try:
                visits = call_prior_kept(sampler, call['prior'], u)
            except Exception as e:
                ctx.violation('prior-raises:' + sampler + ':kept-point', 'prior callback raised %r' % (e,), case, dict(u=u))
                return
            ctx.bucket('prior:kept-live-point-visited-twice:' + sampler)
            for nv, vv in enumerate(visits):
                ctx.check_close('prior callback on a kept live point (visit %d) vs Likelihood.priorTransform' % (nv + 1),
                                vv, v_md, dict(sm, u=u), rel=1e-12, abs_=1e-300)
                if not C.close(vv, v_or, rel=1e-11, abs_=1e-13):
                    ctx.violation('prior-order:%s:kept-point-visit-%d' % (sampler, nv + 1),
                                  'visit %d of a unit-cube point the sampler keeps: the prior callback is not '
                                  'prior_i.sample(u_i) in parameter order' % (nv + 1),
                                  case, dict(u=u, impl=vv, expected=v_or, order=order))
                    break
        # ---- log-likelihood callback at the transformed point
        try:
            with contextlib.redirect_stdout(io.StringIO()):
                L = call_loglike(sampler, call['loglike'], v)
            raised = None
        except Exception as e:
            L, raised = None, e
        # ---- independent evaluation (the property's own definition)
        params = [(10 ** x if d[3] else x) for d, x in zip(descs, v_or)]
        for n, p in zip(order, params):
            owner2[n][n] = p
        ref = model2
        if spec['model']['kind'] == 'tm':
            # the real forward model "evaluated at exactly the prior-transformed parameter values": a model CONSTRUCTED at
            # these values (independent of every setter the optimizer writes through and of what was evaluated before)
            mspec3 = tm_at(spec['model'], dict(zip(order, params)))
        try:
            if spec['model']['kind'] == 'tm':
                ref = build_tm(mspec3)
            nat = ref.model(wngrid=obs2.wavenumberGrid)
            binned = np.asarray(obs2.create_binner().bindown(nat[0], nat[1])[1], float).ravel()
            invalid = False
        except Invalid:
            binned, invalid = None, True
        if spec['model']['kind'] == 'tm' and mixture_above_unity(ctx, mspec3, dict(sm, u=u)) and not invalid:
            # mixing ratios above unity in part of the atmosphere: invalid by the property's own words, whatever the
            # forward model made of it
            ctx.bucket('mixture:above-unity-but-forward-model-evaluates')
            binned, invalid = None, True
        data2 = np.asarray(obs2.spectrum, float).ravel()
        # values written by update_model: parameter i must hold prior_i.prior(v_i)
        written = [float(np.asarray((model if n in model.fittingParameters else obs)[n])) for n in order]
        d = ctx.model().call('c06.update', wire_priors(descs, zs), C.L(v))
        p_md = d.list() if d.nat() else None
        ctx.check_close('values written by update_model vs Likelihood.updateModel', written, p_md, dict(sm, u=u),
                        rel=1e-12, abs_=1e-300)
        if not C.close(written, params, rel=1e-10, abs_=1e-300):
            ctx.violation('update-order:' + sampler, 'after the callback parameter i does not hold prior_i(sample_i(u_i))',
                          case, dict(u=u, written=written, expected=params, order=order))
        if raised is not None:
            key = ('invalid-raises:' if invalid else 'callback-raises:') + sampler
            ctx.violation(key, 'log-likelihood callback raised %r' % (raised,), case, dict(u=u, invalid=invalid))
            return
        # ---- Lean model on the same numbers
        Lm = dec_val(ctx.model().call('c06.loglike', C.F(math.pi), C.L(data2), C.L(err), enc_out(binned)))
        scale = float(np.sum(np.abs(norm_terms)))
        chi2 = None
        if not invalid:
            r = (data2 - binned) / err
            chi2 = float(np.nansum(r * r))
            scale += chi2
        ctx.check_close('loglike callback vs Likelihood.loglike', L, Lm, dict(sm, u=u, invalid=invalid), rel=1e-9,
                        abs_=1e-12 * scale)
        bucket = 'point:invalid' if invalid else ('point:nan-bins' if np.any(np.isnan(binned)) else 'point:valid')
        ctx.bucket(bucket)
        if invalid:
            has_invalid = True
            if spec['model']['kind'] == 'tm':
                ctx.bucket('fault:' + spec.get('fault', '?'))
            if np.isfinite(L):
                ctx.violation('invalid-finite:' + sampler, 'an invalid parameter vector received a finite likelihood',
                              case, dict(u=u, loglike=L))
        elif not np.any(np.isnan(binned)):
            Lx = -norm - 0.5 * float(np.sum(((data2 - binned) / err) ** 2))
            if chi2 == 0.0:
                ctx.bucket('point:exact-fit')
            if not C.close(L, Lx, rel=1e-9, abs_=1e-12 * scale):
                ctx.violation('loglike-formula:' + sampler + (':exact-fit' if chi2 == 0.0 else ''),
                              'callback != -sum(log(sigma*sqrt(2*pi))) - chi^2/2 of the binned model at the '
                              'prior-transformed parameters', case, dict(u=u, impl=L, expected=Lx, chi2=chi2))
            any_finite = any_finite or np.isfinite(L)
            if first_valid is None:
                first_valid = (v, L)
        seq_impl.append(L)
        seq_points.append(u)
        seq_binned.append(binned)
    # ---- fault sequence: an invalid vector must not poison a later valid evaluation
    if first_valid is not None and has_invalid:
        try:
            with contextlib.redirect_stdout(io.StringIO()):
                L2 = call_loglike(sampler, call['loglike'], first_valid[0])
            if not C.close(L2, first_valid[1], rel=1e-12):
                ctx.violation('poisoned-after-invalid:' + sampler, 'a valid vector evaluates differently after an invalid one',
                              case, dict(before=first_valid[1], after=L2))
        except Exception as e:
            ctx.violation('poisoned-after-invalid:' + sampler, 'valid vector raises after an invalid one: %r' % (e,), case)
    # ---- whole sequence through the Lean composite (fixture forward model evaluated inside the model)
    m = spec['model']
    if m['kind'] == 'poly' and spec['obs']['type'] == 'grid' and 'offset' not in fitset and \
            [n for n in order] == ['c%d' % k for k in range(len(m['coefs']))] and not any(d[4] for d in descs):
        xs = np.asarray(spec['obs']['wn'], float) / 1000.0
        d = ctx.model().call('c06.cube_poly', C.F(math.pi), wire_priors(descs, [0.0] * len(descs)), C.L(xs),
                             C.F(m['limit']), C.L(m.get('nan_idx', []), C.N), C.L(np.asarray(obs2._y, float).ravel()),
                             C.L(err), C.LL(seq_points))
        seq_md = d.list(lambda: dec_optval(d))
        ctx.check_close('callback sequence vs Likelihood.runSequence (fixture forward model inside the model)',
                        seq_impl, [float('nan') if x is None else x for x in seq_md], sm, rel=1e-9,
                        abs_=1e-9 * (abs(norm) + 1.0))
        ctx.bucket('composite-sequence')
    kinds = tuple(d[0] for d in descs)
    ctx.case(key=(sampler, spec.get('stream'), spec['obs']['type'], kinds, len(order), has_invalid) if any_finite else None,
             sample=dict(sm, cubes=spec['cubes'][:2], loglike=seq_impl[:2]), bucket='stream:%s' % spec.get('stream'))
    ctx.bucket('sampler:' + sampler)
    if spec.get('prev_obs') is not None:
        ctx.bucket('history:set_observed-after-another-observation')
    ctx.bucket('nfit:%d' % len(order))
    if spec['obs'].get('shape') is not None:
        sh = tuple(spec['obs']['shape'])
        ctx.bucket('observation-arrays:%d-D:%s:%s' % (len(sh), 'first-axis-shorter-than-bins' if sh[0] < len(err) else
                                                     'all-bins-on-first-axis', sampler))


# ------------------------------------------------------------------------------------------ generators
def gen_prior(rng, lo, hi, positive):
    """a user prior whose support lies in [lo, hi] (linear space); log priors need positive supports"""
    r = rng.random()
    if positive and r < 0.25:
        return dict(kind='loguniform_lin', a=lo, b=hi)
    if positive and r < 0.45:
        return dict(kind='loguniform', a=math.log10(lo), b=math.log10(hi))
    if positive and r < 0.55:
        return dict(kind='loggaussian', a=math.log10(math.sqrt(lo * hi)), b=(math.log10(hi) - math.log10(lo)) / 8)
    if r < 0.7:
        return dict(kind='gaussian', a=0.5 * (lo + hi), b=(hi - lo) / 8)
    a, b = (lo, hi) if rng.random() < 0.8 else (hi, lo)
    return dict(kind='uniform', a=a, b=b)


def gen_cubes(rng, nd, n, gauss_cols, inv_col=None):
    pts = []
    for k in range(n):
        r = rng.random()
        if r < 0.1:
            u = np.full(nd, rng.choice([0.0, 1.0, 0.5]))
        elif r < 0.2:
            u = rng.choice([0.0, 1.0], size=nd).astype(float)
        else:
            u = rng.random(nd)
        u = np.asarray(u, float)
        for j in gauss_cols:
            u[j] = min(max(u[j], 0.02), 0.98)
        if inv_col is not None:
            u[inv_col] = rng.uniform(0.86, 1.0) if rng.random() < 0.35 else rng.uniform(0.0, 0.74)
        pts.append([float(x) for x in u])
    return pts


def shapes_of(n):
    """the array shapes (other than flat) an observation of n bins may keep its spectrum / error bars in"""
    out = [(1, n), (n, 1), (1, 1, n)]
    for a in range(2, n):
        if n % a == 0:
            out.append((a, n // a))
            for b in range(2, n // a):
                if (n // a) % b == 0:
                    out.append((a, b, n // a // b))
    return out


def gen_shaped_spec(rng, k):
    """the fixture observation keeps its spectrum and error bars in a 2-D / 3-D array (row or column vector, orders x pixels,
    ...): chisq_trans flattens them, the bins are those of the wavenumber grid in C order"""
    spec = gen_poly_spec(rng, k, otype='grid', nobs=int(rng.choice([2, 3, 4, 6, 8, 9, 12, 16, 24, 30])))
    spec['stream'] = 'poly-shaped'
    sh = shapes_of(len(spec['obs']['err']))
    spec['obs']['shape'] = list(sh[(k // 3) % len(sh)])
    return spec


def gen_poly_spec(rng, k, otype=None, nobs=None):
    sampler = SAMPLERS[k % 3]
    ncoef = int(rng.integers(1, 5))
    modes = [('log' if rng.random() < 0.4 else 'linear') for _ in range(ncoef)]
    coefs = [float(rng.uniform(0.2, 1.5)) for _ in range(ncoef)]
    nobs = nobs or int(rng.integers(1, 13))
    otype = otype or ['grid', 'array', 'array+offset'][int(rng.integers(0, 3))]
    # fixed quota (every 7th case, all three samplers in turn): a long observation (90-260 bins) with very small or very
    # large error bars - the regime where a product of the per-bin normalisations under/overflows although the sum of
    # their logarithms is an ordinary number
    big = (k % 7 == 6)
    if big:
        nobs = int(rng.integers(90, 260))
        otype = 'grid'
    if otype == 'grid':
        wn = np.sort(rng.choice(np.arange(600.0, 4000.0, 13.0), size=nobs, replace=False))
        if rng.random() < 0.3:
            wn = wn[::-1].copy()
        native = None
        wl = 10000 / wn
        widths = None
    else:
        wn_c = np.sort(rng.choice(np.arange(900.0, 3500.0, 40.0), size=nobs, replace=False))
        wl = 10000 / wn_c
        wl = wl[rng.permutation(nobs)]
        widths = None
        if rng.random() < 0.5 or nobs == 1:
            widths = [float(w) for w in (wl * rng.uniform(0.01, 0.08, size=nobs))]
        native = dict(arange=[500.0, 4200.0, float(rng.choice([3.0, 7.0, 11.0, 29.0]))])
        wn = 10000 / wl
    truth = sum(c * (np.asarray(wn) / 1000.0) ** j for j, c in enumerate(coefs))
    emag = 10 ** rng.uniform(-4, 0.5)
    if big:
        emag = 10 ** (rng.uniform(-7, -4) if rng.random() < 0.6 else rng.uniform(2, 4))
    err = emag * rng.uniform(0.3, 3.0, size=nobs)
    spectrum = truth + err * rng.normal(size=nobs)
    obs = dict(type=otype, wn=[float(x) for x in wn], wl=[float(x) for x in wl], spectrum=[float(x) for x in spectrum],
               err=[float(x) for x in err], widths=widths)
    prev_obs = None
    if k % 5 == 1 and not big:
        # quota: the optimizer held another observation before (same bin centres: other widths where there are widths,
        # other values and error bars; or, every second time, a different grid of the same kind)
        prev_obs = dict(obs, spectrum=[float(x) for x in truth * rng.uniform(0.5, 1.5, size=nobs)],
                        err=[float(x) for x in err * rng.uniform(0.3, 3.0, size=nobs)])
        if widths is not None:
            prev_obs['widths'] = [float(w * f) for w, f in zip(widths, rng.uniform(0.3, 0.9, size=nobs))]
        elif otype != 'grid' and nobs >= 2 and (k // 5) % 2 == 0:
            prev_obs['wl'] = [float(x * 1.013) for x in wl]
    # fitted subset
    names = ['c%d' % j for j in range(ncoef)]
    nfit = int(rng.integers(1, ncoef + 1))
    chosen = sorted(rng.choice(ncoef, size=nfit, replace=False).tolist())
    enable_order = [names[j] for j in chosen]
    if otype != 'array' and rng.random() < 0.4:
        enable_order.append('offset')
    enable_order = [enable_order[i] for i in rng.permutation(len(enable_order))]
    fit = []
    limit = 1e300
    for n in enable_order:
        if n == 'offset':
            b = sorted(rng.uniform(-2, 2, size=2).tolist())
            f = dict(name=n, mode=None, bounds=[b[0], b[1] + 0.1], prior=None)
            if rng.random() < 0.3:
                f['prior'] = dict(kind='gaussian', a=0.0, b=0.3)
            fit.append(f)
            continue
        j = int(n[1:])
        lo = float(10 ** rng.uniform(-2, 0))
        hi = lo * float(10 ** rng.uniform(0.3, 2))
        f = dict(name=n, mode=None, bounds=[lo, hi], prior=None)
        r = rng.random()
        if r < 0.25:
            f['mode'] = 'log' if modes[j] == 'linear' else 'linear'   # set_mode before compile
        if rng.random() < 0.35:
            f['prior'] = gen_prior(rng, lo, hi, True)
        if j == 0 and f['prior'] is None:
            mode0 = f['mode'] or modes[0]
            if rng.random() < 0.7:   # a fault-capable case: the top fifth of c0's prior range is invalid
                limit = (10 ** (math.log10(lo) + 0.8 * (math.log10(hi) - math.log10(lo)))) if mode0 == 'log' \
                    else lo + 0.8 * (hi - lo)
        fit.append(f)
    if 'c0' not in enable_order and rng.random() < 0.05:
        limit = coefs[0] - 0.01     # always invalid
    nan_idx = []
    if rng.random() < 0.12 and nobs >= 2:
        if native is None:
            nan_idx = sorted(rng.choice(nobs, size=int(rng.integers(1, nobs)), replace=False).tolist())
        else:
            c = float(rng.choice(wn))
            nan_idx = [i for i, x in enumerate(np.arange(*native['arange'])) if abs(x - c) < 15.0]
    model = dict(kind='poly', coefs=coefs, modes=modes, native=native, limit=float(limit), nan_idx=nan_idx)
    spec = dict(stream='poly', sampler=sampler, multimodal=bool(rng.random() < 0.5), model=model, obs=obs, fit=fit,
                prev_obs=prev_obs)
    # cube points
    m2, o2 = build_pair(spec)
    order, fs = fit_order(spec, m2, o2)
    gauss_cols = [i for i, n in enumerate(order) if fs[n]['prior'] is not None and 'gauss' in fs[n]['prior']['kind']]
    inv_col = order.index('c0') if ('c0' in order and limit < 1e299) else None
    spec['cubes'] = gen_cubes(rng, len(order), int(rng.integers(4, 9)), gauss_cols, inv_col)
    return spec


TM_FIT = {
    'isothermal': [('T', 'linear', (400.0, 2500.0)), ('planet_radius', 'linear', (0.7, 1.4))],
    'npoint': [('T_surface', 'linear', (900.0, 2200.0)), ('T_top', 'linear', (300.0, 1200.0))],
    'guillot': [('T_irr', 'linear', (600.0, 2500.0)), ('kappa_irr', 'linear', (0.0, 0.05)),
                ('kappa_v1', 'linear', (0.0, 0.02))],
}


def gen_tm_spec(rng, k):
    sampler = SAMPLERS[k % 3]
    ttype = ['isothermal', 'npoint', 'guillot'][(k // 3) % 3]
    cands = list(TM_FIT[ttype])
    if ttype == 'isothermal':
        temp = dict(type='isothermal', T=float(rng.uniform(600, 2000)))
    elif ttype == 'npoint':
        # 1-3 intermediate nodes (pressures decreasing from the surface), every node temperature / pressure can be fitted
        nn = 1 + (k // 9) % 3
        pp = sorted((float(10 ** x) for x in rng.uniform(0.5, 4.5, size=nn)), reverse=True)
        if nn > 1:
            pp = [float(10 ** x) for x in np.linspace(4.2, 1.0, nn) + rng.uniform(-0.4, 0.4, size=nn)]
        temp = dict(type='npoint', T_surface=float(rng.uniform(1200, 2000)), T_top=float(rng.uniform(400, 1000)),
                    T_points=[float(x) for x in rng.uniform(700, 1500, size=nn)], P_points=pp, smooth=10)
        for i in range(nn):
            cands.append(('T_point%d' % (i + 1), 'linear', (500.0, 1800.0)))
        cands.append(('P_point1', 'log', (1e-3, 1e8)))
        if nn > 1:
            cands.append(('P_point%d' % nn, 'log', (1e-1, 1e5)))
    else:
        temp = dict(type='guillot', T_irr=float(rng.uniform(900, 2000)), kappa_irr=float(rng.uniform(0.005, 0.03)),
                    kappa_v1=float(rng.uniform(0.002, 0.01)), kappa_v2=float(rng.uniform(0.002, 0.01)),
                    alpha=float(rng.uniform(0.2, 0.8)))
    model = dict(kind='tm', temperature=temp, h2o=float(10 ** rng.uniform(-6, -3)), mass=float(rng.uniform(0.5, 2.0)),
                 radius=float(rng.uniform(0.8, 1.3)), nlayers=int(rng.integers(5, 16)))
    # chemistry: every second case has a layer-dependent gas profile (TwoLayerGas) next to / instead of the constant one
    layered = (k // 2) % 2 == 1
    mix_fault = None
    if layered:
        shape = int(rng.integers(0, 3))
        h2o, ch4 = model['h2o'], float(10 ** rng.uniform(-6, -0.2))

        def two(mol, a):
            return dict(mol=mol, kind='twolayer', surface=a, top=float(a * 10 ** rng.uniform(-3, 0)),
                        P=float(10 ** rng.uniform(1.5, 4.5)), smooth=10)
        if shape == 0:
            gases = [two('H2O', h2o), dict(mol='CH4', kind='constant', mix=ch4)]
        elif shape == 1:
            gases = [dict(mol='H2O', kind='constant', mix=h2o), two('CH4', min(ch4, 1e-2))]
        else:
            gases = [two('H2O', h2o)]
        model['gases'] = gases
        lay = [g for g in gases if g['kind'] == 'twolayer'][0]['mol']
        side = ['surface', 'top'][int(rng.integers(0, 2))]
        other = 'top' if side == 'surface' else 'surface'
        # the fitted side may exceed unity (alone or together with the other gases) while the other side stays small: the
        # mixture is then invalid in PART of the atmosphere only
        cands += [('%s_%s' % (lay, side), 'log', (1e-7, 30.0)), ('%s_%s' % (lay, other), 'log', (1e-8, 1e-3)),
                  ('%s_P' % lay, 'log', (1e1, 1e5))]
        for g in gases:
            if g['kind'] == 'constant':
                cands.append((g['mol'], 'log', (1e-7, 30.0) if g['mol'] == 'H2O' else (1e-7, 0.9)))
        mix_fault = '%s_%s' % (lay, side)
    else:
        cands.append(('H2O', 'log', (1e-7, 30.0)))
    nobs = int(rng.integers(3, 11))
    wn_c = np.sort(rng.choice(np.arange(900.0, 2900.0, 55.0), size=nobs, replace=False))
    wl = (10000 / wn_c)[rng.permutation(nobs)]
    widths = [float(w) for w in wl * rng.uniform(0.02, 0.06, size=nobs)] if rng.random() < 0.5 else None
    tm = build_tm(model)
    obs0 = dict(type='array', wl=[float(x) for x in wl], spectrum=[0.0] * nobs, err=[1.0] * nobs, widths=widths, wn=[])
    _, o = build_pair(dict(model=dict(kind='poly', coefs=[1.0], modes=['linear'], native=[1.0, 2.0], limit=1e300), obs=obs0))
    nat = tm.model(wngrid=o.wavenumberGrid)
    truth = np.asarray(o.create_binner().bindown(nat[0], nat[1])[1], float)
    # rows of ArraySpectrum are sorted by decreasing wavelength: put the truth back in the caller's row order
    srt = np.argsort(wl)[::-1]
    spec_rows = np.empty(nobs)
    spec_rows[srt] = truth
    err = 10 ** rng.uniform(-5.5, -3.5) * rng.uniform(0.5, 2.0, size=nobs)
    spectrum = spec_rows + err * rng.normal(size=nobs)
    obs = dict(type='array', wl=[float(x) for x in wl], spectrum=[float(x) for x in spectrum],
               err=[float(x) for x in err], widths=widths, wn=[])
    nfit = int(rng.integers(1, min(len(cands), 5) + 1))
    pick = sorted(rng.choice(len(cands), size=nfit, replace=False).tolist())
    pick = [pick[i] for i in rng.permutation(nfit)]
    # every case can reach an invalid atmosphere: a mixing ratio up to 30 (> 1, in every layer or - layered profiles - in part
    # of the atmosphere), P_point1 above the surface pressure / nodes out of order, kappa_irr / kappa_v1 = 0 at the cube edge
    if mix_fault is not None and rng.random() < 0.7:
        fault = mix_fault
    else:
        gasf = 'H2O' if any(c[0] == 'H2O' for c in cands) else mix_fault
        fault = {'isothermal': gasf, 'npoint': ['P_point1', gasf][int(rng.integers(0, 2))],
                 'guillot': ['kappa_irr', 'kappa_v1', gasf][int(rng.integers(0, 3))]}[ttype]
    names = [cands[i][0] for i in pick]
    if fault not in names:
        names.append(fault)
    fit = []
    for n in names:
        _, mode, (lo, hi) = [c for c in cands if c[0] == n][0]
        f = dict(name=n, mode=mode, bounds=[lo, hi], prior=None)
        if mode == 'linear' and lo > 0 and rng.random() < 0.25:
            f['prior'] = dict(kind='uniform', a=hi, b=lo)
        fit.append(f)
    spec = dict(stream='tm:' + ttype, fault=ttype + ':' + ('layered-gas' if fault == mix_fault else fault), sampler=sampler,
                multimodal=bool(rng.random() < 0.5), model=model, obs=obs, fit=fit)
    m2, o2 = build_pair(dict(spec, obs=obs0))
    order, _ = fit_order(spec, m2, o2)
    col = order.index(fault)
    gas_cols = [order.index(c[0]) for c in cands if c[0] in order and c[2][1] >= 0.9 and c[1] == 'log' and c[0] != fault
                and not c[0].startswith('P_point') and not c[0].endswith('_P')]
    cubes = []
    for j in range(int(rng.integers(4, 8))):
        u = rng.uniform(0.05, 0.8, size=len(order))
        for gc in gas_cols:
            u[gc] = rng.uniform(0.0, 0.6)
        bad = rng.random() < 0.4
        if fault == 'H2O' or fault == mix_fault:
            u[col] = rng.uniform(0.8, 1.0) if bad else rng.uniform(0.0, 0.7)
        elif fault == 'P_point1':
            u[col] = rng.uniform(0.85, 1.0) if bad else rng.uniform(0.3, 0.6)
        else:
            u[col] = 0.0 if bad else rng.uniform(0.1, 0.9)
        cubes.append([float(x) for x in u])
    spec['cubes'] = cubes
    return spec


def gen_k1_spec(rng, k):
    """exact fit (formerly K1): the observation is exactly the binned model at one cube point (chi^2 == 0)"""
    sampler = SAMPLERS[k % 3]
    nobs = int(rng.integers(1, 6))
    wn = np.sort(rng.choice(np.arange(600.0, 4000.0, 13.0), size=nobs, replace=False))
    lo, hi = 0.25, 1.75
    u = [0.5, 0.25]
    c = [lo + (hi - lo) * x for x in u]
    spectrum = c[0] * np.ones(nobs) + c[1] * (wn / 1000.0)
    err = rng.uniform(0.01, 0.1, size=nobs)
    obs = dict(type='grid', wn=[float(x) for x in wn], wl=[float(x) for x in 10000 / wn],
               spectrum=[float(x) for x in spectrum], err=[float(x) for x in err], widths=None)
    model = dict(kind='poly', coefs=[1.0, 1.0], modes=['linear', 'linear'], native=None, limit=1e300, nan_idx=[])
    fit = [dict(name='c0', mode=None, bounds=[lo, hi], prior=None), dict(name='c1', mode=None, bounds=[lo, hi], prior=None)]
    return dict(stream='exact-fit', sampler=sampler, multimodal=True, model=model, obs=obs, fit=fit,
                cubes=[u, [0.5, 0.75]])


# ------------------------------------------------------------------------------------------ externals, malformed
def validate_externals(ctx):
    """scipy ppf's and np.nansum / np.sum against the model's definitions"""
    import scipy.stats as st
    from scipy.special import ndtri
    from taurex.core.priors import Uniform, LogUniform, Gaussian, LogGaussian
    rng = ctx.rng
    for _ in range(ctx.n(60, 600)):
        a, b = rng.uniform(-5, 5, size=2)
        u = float(rng.choice([0.0, 1.0, rng.random()]))
        kind = int(rng.integers(0, 5))
        if kind == 0:
            p, w = Uniform(bounds=[a, b]), (0, a, b)
        elif kind == 1:
            p, w = LogUniform(bounds=[a, b]), (1, a, b)
        elif kind == 2:
            a, b = 10 ** a, 10 ** b
            p, w = LogUniform(lin_bounds=[a, b]), (2, a, b)
        elif kind == 3:
            b = abs(b) + 0.01
            u = min(max(u, 0.01), 0.99)
            p, w = Gaussian(mean=a, std=b), (3, a, b)
        else:
            b = abs(b) + 0.01
            u = min(max(u, 0.01), 0.99)
            p, w = LogGaussian(mean=a, std=b), (4, a, b)
        z = float(ndtri(u)) if kind >= 3 else 0.0
        desc = (w[0], float(w[1]), float(w[2]), kind in (1, 2, 4), kind >= 3)
        md = ctx.model().call('c06.prior', wire_priors([desc], [z]), C.L([u])).list()[0]
        ctx.check_close('Prior.sample vs model prior', float(p.sample(u)), md, dict(kind=kind, a=a, b=b, u=u), rel=1e-12,
                        abs_=1e-15)
        x = float(rng.uniform(-3, 3))
        d = ctx.model().call('c06.update', wire_priors([desc], [z]), C.L([x]))
        d.nat()
        ctx.check_close('Prior.prior vs model prior', float(p.prior(x)), d.list()[0], dict(kind=kind, x=x), rel=1e-13)
        ctx.bucket('external:prior')
    for _ in range(ctx.n(40, 400)):
        n = int(rng.integers(1, 40))
        obs = rng.normal(size=n)
        sig = 10 ** rng.uniform(-3, 1, size=n)
        m = obs + sig * rng.normal(size=n)
        if rng.random() < 0.3:
            m[rng.random(n) < 0.3] = np.nan
        if rng.random() < 0.1:
            m[:] = np.nan
        if rng.random() < 0.1:
            m = obs.copy()
        r = (obs - m) / sig
        exp = float('nan') if np.all(np.isnan(r)) else float(np.nansum(r * r))
        d = ctx.model().call('c06.chisq', C.L(obs), C.L(sig), enc_out(m))
        ctx.check_close('np.nansum of squared residuals vs Likelihood.chisq', exp, dec_val(d), dict(n=n), rel=1e-12)
        ctx.bucket('external:nansum')


def malformed(ctx):
    """outside the quantifier: zero / NaN error bars, NaN observation, wrong-length vectors — recorded, never judged"""
    rng = ctx.rng
    for k in range(ctx.n(9, 60)):
        spec = gen_k1_spec(rng, k)
        spec['obs']['spectrum'] = [x + 0.01 for x in spec['obs']['spectrum']]
        what = ['sigma=0', 'sigma=nan', 'obs=nan', 'theta-too-short', 'theta-too-long', 'sigma<0'][k % 6]
        if what == 'sigma=0':
            spec['obs']['err'][0] = 0.0
        elif what == 'sigma=nan':
            spec['obs']['err'][0] = float('nan')
        elif what == 'sigma<0':
            spec['obs']['err'][0] = -abs(spec['obs']['err'][0])
        elif what == 'obs=nan':
            spec['obs']['spectrum'][0] = float('nan')
        model, obs = build_pair(spec)
        doubles.REC.reset()
        doubles.REC.script = canned_script(spec, [(5, 0.25, 1.75, False, False)] * 2)
        try:
            with contextlib.redirect_stdout(io.StringIO()):
                opt = make_optimizer(spec, model, obs)
                opt.compile_params()
                opt.compute_fit()
            call = doubles.REC.last()
            v = [1.0, 1.0]
            if what == 'theta-too-short':
                v = [1.0]
            if what == 'theta-too-long':
                v = [1.0, 1.0, 1.0]
            L = call_loglike(spec['sampler'], call['loglike'], v)
            ctx.malformed_outcome('%s:%s:%s' % (what, spec['sampler'], 'finite' if np.isfinite(L) else 'nonfinite'))
        except Exception as e:
            ctx.malformed_outcome('%s:%s:%s' % (what, spec['sampler'], type(e).__name__))


# ------------------------------------------------------------------------------------------ entry points
def run(ctx):
    ctx.notes.append('samplers are recording doubles: only the two callbacks handed to nestle.sample / pymultinest.run / '
                     'pypolychord.run_polychord are judged; NaN bins of the binned model are skipped by np.nansum (finite '
                     'likelihood from the remaining bins) — mirrored by the model, not judged as "invalid atmosphere"')
    ctx.notes.append('outside the quantifier, recorded in malformed_stream: zero / negative / NaN error bars, NaN observation, '
                     'parameter vectors of the wrong length; a single-bin observation makes SimpleForwardModel.model(wngrid=obs) '
                     'raise IndexError in clip_native_to_wngrid (spectral-grid restriction is C13) — the real-model stream uses >= 3 bins')
    try:
        fixtures()
        validate_externals(ctx)
        rng = ctx.rng
        for k in range(ctx.n(900, 15000)):
            eval_case(ctx, gen_poly_spec(rng, k))
        for k in range(ctx.n(180, 3000)):
            eval_case(ctx, gen_tm_spec(rng, k))
        for k in range(ctx.n(6, 60)):
            eval_case(ctx, gen_k1_spec(rng, k))
        malformed(ctx)
        # (later streams after the older ones, whose random draws they leave as they were)
        for k in range(ctx.n(120, 2400)):
            eval_case(ctx, gen_shaped_spec(rng, k))
    finally:
        cleanup()


def replay(ctx, case):
    if isinstance(case.get('case'), dict) and 'sampler' not in case:
        case = case['case']          # a replay file written by main.py wraps the failing input
    try:
        fixtures()
        eval_case(ctx, case)
    finally:
        cleanup()
