"""Shared machinery of the /verif checks: Lean build + audit, model driver (line protocol),
evidence, violations, known findings.  Run by /venv/bin/python (the interpreter that has /repo
installed in editable mode, so `import taurex` always executes /repo's working tree)."""
import os
import sys
import re
import json
import time
import struct
import hashlib
import subprocess
import fcntl
import math
import traceback

VERIF = os.path.dirname(os.path.dirname(os.path.abspath(__file__)))
LEAN = os.path.join(VERIF, 'lean')
BIN = os.path.join(LEAN, '.lake', 'build', 'bin')
EVIDENCE = os.path.join(VERIF, 'evidence')
REPLAYS = os.path.join(VERIF, 'replays')
CORPUS = os.path.join(VERIF, 'corpus')
KNOWN = os.path.join(VERIF, 'known_findings.txt')
LOCK = os.path.join(VERIF, 'props.lock')
REPO = '/repo'

ALLOWED_AXIOMS = {'propext', 'Classical.choice', 'Quot.sound'}
FORBIDDEN = re.compile(r'\b(sorry|admit|native_decide|bv_decide|implemented_by|unsafe)\b|^\s*axiom\s|maxHeartbeats\s+0\b',
                       re.M)

TRUSTED_BASE = [
    'Lean 4.33.0 kernel',
    'Mathlib v4.33.0 (precompiled under /opt/veriftools/mathlib4)',
    'axioms: propext, Classical.choice, Quot.sound only (audited by #print axioms on every run)',
    'hand-written Lean model, tied to /repo only by this run\'s correspondence check (differential testing)',
    'Float (run) vs Real (proved) carrier of the same definitions: rounding is not modelled',
    'numpy/scipy/h5py/numba externals assumed to behave as documented (validated numerically each run)',
    'the Python harness: generators, tolerances, doubles',
]


class InfraError(Exception):
    pass


# ----------------------------------------------------------------------------- floats on the wire
def f2u(x):
    return struct.unpack('<Q', struct.pack('<d', float(x)))[0]


def u2f(n):
    return struct.unpack('<d', struct.pack('<Q', int(n)))[0]


def F(x):
    return str(f2u(x))


def N(n):
    return str(int(n))


def L(xs, enc=F):
    xs = list(xs)
    if not xs:
        return '0'
    return str(len(xs)) + ' ' + ' '.join(enc(x) for x in xs)


def LL(xss, enc=F):
    return L(xss, lambda xs: L(xs, enc))


def LLL(xsss, enc=F):
    return L(xsss, lambda xss: LL(xss, enc))


def S(s):
    """string token: no spaces allowed on the wire"""
    s = str(s)
    if s == '':
        return '%e'
    return s.replace('%', '%25').replace(' ', '%20').replace('\n', '%0A').replace('\t', '%09')


class Dec:
    """token reader for a response payload"""

    def __init__(self, toks):
        self.t = toks
        self.i = 0

    def tok(self):
        v = self.t[self.i]
        self.i += 1
        return v

    def nat(self):
        return int(self.tok())

    def int(self):
        return int(self.tok())

    def flt(self):
        return u2f(self.tok())

    def bool(self):
        return self.tok() != '0'

    def str(self):
        s = self.tok()
        if s == '%e':
            return ''
        return s.replace('%20', ' ').replace('%0A', '\n').replace('%09', '\t').replace('%25', '%')

    def list(self, f=None):
        f = f or self.flt
        n = self.nat()
        return [f() for _ in range(n)]

    def opt(self, f=None):
        f = f or self.flt
        return f() if self.nat() else None

    def done(self):
        return self.i == len(self.t)


class ModelError(Exception):
    pass


class Driver:
    """the compiled Lean model behind a one-line-in / one-line-out pipe"""

    def __init__(self, pid):
        exe = os.path.join(BIN, 'driver_' + pid.lower())
        if not os.path.exists(exe):
            raise InfraError('model driver not built: ' + exe)
        self.p = subprocess.Popen([exe], stdin=subprocess.PIPE, stdout=subprocess.PIPE,
                                  text=True, bufsize=1 << 20)
        self.calls = 0

    def call(self, op, *tokens):
        line = op + ' ' + ' '.join(tokens) + '\n'
        self.p.stdin.write(line)
        self.p.stdin.flush()
        out = self.p.stdout.readline()
        self.calls += 1
        if not out:
            raise InfraError('model driver died on op ' + op)
        toks = out.split()
        if toks[0] != 'ok':
            raise ModelError(out.strip())
        return Dec(toks[1:])

    def close(self):
        try:
            self.p.stdin.close()
            self.p.wait(timeout=5)
        except Exception:
            self.p.kill()


# ----------------------------------------------------------------------------- build and audit
def _locked(fn):
    os.makedirs(os.path.join(LEAN, '.lake'), exist_ok=True)
    with open(os.path.join(LEAN, '.lake', 'verif.lock'), 'w') as lk:
        fcntl.flock(lk, fcntl.LOCK_EX)
        try:
            return fn()
        finally:
            fcntl.flock(lk, fcntl.LOCK_UN)


def lake_build(targets=None, timeout=3000):
    """`lake build` (no-op when nothing changed). Returns (ok, log)."""
    def go():
        cmd = ['lake', 'build'] + (targets or [])
        r = subprocess.run(cmd, cwd=LEAN, capture_output=True, text=True, timeout=timeout)
        return r.returncode == 0, r.stdout + r.stderr
    return _locked(go)


def strip_comments(src):
    src = re.sub(r'/-.*?-/', ' ', src, flags=re.S)
    src = re.sub(r'--.*', '', src)
    return src


def source_grep():
    """forbidden constructs in any .lean source of the project (comments discarded)"""
    hits = []
    for root, dirs, files in os.walk(LEAN):
        dirs[:] = [d for d in dirs if d not in ('.lake',)]
        for fn in files:
            if fn.endswith('.lean'):
                p = os.path.join(root, fn)
                src = strip_comments(open(p).read())
                for m in FORBIDDEN.finditer(src):
                    hits.append((os.path.relpath(p, LEAN), m.group(0).strip()))
    return hits


LITERALS = os.path.join(VERIF, 'tools', 'src_literals.json')


def read_literals():
    return json.load(open(LITERALS))


def pin_literals():
    """(./check --relock) pin the float literals of every translated function, per property"""
    import importlib
    from harness import translate
    out = {}
    for fn in sorted(os.listdir(os.path.dirname(os.path.abspath(__file__)))):
        if len(fn) == 6 and fn.startswith('c') and fn.endswith('.py'):
            mod = importlib.import_module('harness.' + fn[:-3])
            specs = getattr(mod, 'SRC_SPECS', None)
            if specs:
                pid = fn[:-3].upper()
                r = translate.translate_file(repo_root(), specs, 'Taurex.Gen.Src' + pid,
                                             os.path.join(LEAN, 'TaurexModel', 'Gen', 'Src%s.lean' % pid),
                                             header=_tie_header(pid, specs))
                out[pid] = {f['lean']: f.get('literal_params', []) for f in r['functions']}
    json.dump(out, open(LITERALS, 'w'), indent=1, sort_keys=True)
    return out


def _tie_header(pid, specs):
    return 'property %s; functions: %s' % (pid, ', '.join('%s:%s' % (sp['module'], sp['func']) for sp in specs))


def repo_root():
    import taurex
    return os.path.dirname(os.path.dirname(os.path.abspath(taurex.__file__)))


def source_tie(pid, mod):
    """Regenerate TaurexModel/Gen/Src<pid>.lean from the source text of the taurex package under check (translate.py) and
    re-check the tie theorems Props/<pid>Src.lean.  Returns None when the property has no source tie, else
    dict(ok, failures[], info{...}).  A tie that no longer checks is a broken proof obligation, not an infra failure."""
    specs = getattr(mod, 'SRC_SPECS', None)
    if not specs:
        return None
    from harness import translate
    root = repo_root()
    out = os.path.join(LEAN, 'TaurexModel', 'Gen', 'Src%s.lean' % pid)
    r = translate.translate_file(root, specs, 'Taurex.Gen.Src' + pid, out,
                                 header=_tie_header(pid, specs))
    failures = ['source no longer translatable (%s)' % e for e in r['errors']]
    # float literals of the source become parameters named after their value (c1em06 …); the tie theorems instantiate
    # them (often positionally), so the set of literals of every translated function is pinned like the statements are
    lit_now = {f['lean']: f.get('literal_params', []) for f in r['functions']}
    lit_pin = (read_literals().get(pid) if os.path.exists(LITERALS) else None)
    if lit_pin is None:
        failures.append('no pinned literal table for %s in tools/src_literals.json (run ./check --relock)' % pid)
    else:
        for fn in sorted(set(lit_now) | set(lit_pin)):
            if lit_now.get(fn, []) != lit_pin.get(fn, []) and fn in lit_now:
                failures.append('float literals of %s changed in the source: pinned %s, now %s (the tie theorems instantiate '
                                'literal parameters by the pinned values)' % (fn, lit_pin.get(fn, []), lit_now.get(fn, [])))
    targets = ['Props.%sSrc' % pid]
    if os.path.exists(os.path.join(LEAN, 'Props', pid + 'SrcProps.lean')):
        targets.append('Props.%sSrcProps' % pid)      # the property theorems restated about the regenerated definitions
    ok, log = lake_build(targets)
    if not ok:
        errs = [l.strip() for l in log.split('\n') if 'error' in l][:6]
        failures.append('source tie Props/%sSrc.lean no longer checks against the regenerated TaurexModel/Gen/Src%s.lean: %s'
                        % (pid, pid, ' | '.join(errs)[:900]))
    return dict(ok=ok and not r['errors'], built=ok, failures=failures,
                info=dict(generated_file='lean/TaurexModel/Gen/Src%s.lean' % pid, regenerated_changed=r['changed'],
                          repo_root=root, functions=r['functions'], translator_errors=r['errors']))


def prop_theorems(pid):
    """names of the theorems registered for a property = every `theorem` in Props/<pid>.lean"""
    p = os.path.join(LEAN, 'Props', pid + '.lean')
    src = strip_comments(open(p).read())
    ns = re.findall(r'^namespace\s+(\S+)', src, re.M)
    ns = ns[0] if ns else ''
    names = re.findall(r'^(?:private\s+|protected\s+)?theorem\s+(\S+)', src, re.M)
    return [(ns + '.' + n) if ns else n for n in names], p


def sha(path):
    return hashlib.sha256(open(path, 'rb').read()).hexdigest()


def read_lock():
    d = {}
    if os.path.exists(LOCK):
        for line in open(LOCK):
            parts = line.split()
            if len(parts) == 2:
                d[parts[0]] = parts[1]
    return d


def audit(pid, thorough=False, tie=None):
    """returns dict(obligations, discharged, failures[list of str], axioms{thm: [..]}, checker_cmd).
    `tie`: result of source_tie (the theorems of Props/<pid>Src.lean are audited obligations as well)"""
    names, ppath = prop_theorems(pid)
    failures = []
    lock = read_lock()
    if lock.get(pid) != sha(ppath):
        failures.append('props.lock: statement file Props/%s.lean differs from the pinned hash' % pid)
    tie_names = []
    tie_mods = []
    if tie is not None:
        tie_names, tpath = prop_theorems(pid + 'Src')
        tie_mods = ['Props.%sSrc' % pid]
        if lock.get(pid + 'Src') != sha(tpath):
            failures.append('props.lock: statement file Props/%sSrc.lean differs from the pinned hash' % pid)
        if os.path.exists(os.path.join(LEAN, 'Props', pid + 'SrcProps.lean')):
            more, ppath2 = prop_theorems(pid + 'SrcProps')
            tie_names = tie_names + more
            tie_mods.append('Props.%sSrcProps' % pid)
            if lock.get(pid + 'SrcProps') != sha(ppath2):
                failures.append('props.lock: statement file Props/%sSrcProps.lean differs from the pinned hash' % pid)
        failures.extend(tie['failures'])
    for f, w in source_grep():
        failures.append('forbidden construct %r in %s' % (w, f))
    adir = os.path.join(LEAN, '.lake', 'audit')
    os.makedirs(adir, exist_ok=True)
    afile = os.path.join(adir, pid + '.lean')
    with open(afile, 'w') as fh:
        fh.write('import Props.%s\n' % pid)
        if tie is not None and tie['built']:
            for tm in tie_mods:
                fh.write('import %s\n' % tm)
        for n in names:
            fh.write('#print axioms %s\n' % n)
        if tie is not None and tie['built']:
            for n in tie_names:
                fh.write('#print axioms %s\n' % n)
    if tie is not None:
        if tie['built']:
            names = names + tie_names
        else:
            # the tie file does not build: its theorems are obligations that are not discharged
            for n in tie_names:
                failures.append('theorem %s: not checked (source tie does not build)' % n)
    cmd = 'cd lean && lake env lean .lake/audit/%s.lean' % pid
    r = subprocess.run(['lake', 'env', 'lean', afile], cwd=LEAN, capture_output=True, text=True, timeout=1800)
    out = r.stdout + r.stderr
    axioms = {}
    for m in re.finditer(r"'([^']+)' depends on axioms: \[([^\]]*)\]", out, re.S):
        axioms[m.group(1)] = [a.strip() for a in m.group(2).replace('\n', ' ').split(',') if a.strip()]
    for m in re.finditer(r"'([^']+)' does not depend on any axioms", out):
        axioms[m.group(1)] = []
    discharged = 0
    for n in names:
        if n not in axioms:
            failures.append('theorem %s: not checked (%s)' % (n, out.strip()[:300]))
        elif not set(axioms[n]) <= ALLOWED_AXIOMS:
            failures.append('theorem %s depends on %s' % (n, sorted(set(axioms[n]) - ALLOWED_AXIOMS)))
        else:
            discharged += 1
    if r.returncode != 0 and not failures:
        failures.append('audit file failed: ' + out.strip()[:500])
    nobl = len(names) + (len(tie_names) if (tie is not None and not tie['built']) else 0)
    res = dict(obligations=nobl, discharged=discharged, failures=failures, axioms=axioms,
               checker_cmd=cmd, theorems=names)
    if thorough:
        mods = ['Props.' + pid] + (tie_mods if (tie is not None and tie['built']) else [])
        t0 = time.time()
        rc = subprocess.run(['lake', 'env', 'leanchecker'] + mods, cwd=LEAN, capture_output=True, text=True,
                            timeout=3000)
        res['leanchecker'] = dict(modules=mods, ok=rc.returncode == 0, wall_s=round(time.time() - t0, 1))
        if rc.returncode != 0:
            failures.append('leanchecker rejected %s: %s' % (mods, (rc.stdout + rc.stderr)[-400:]))
    return res


# ----------------------------------------------------------------------------- known findings
def known_findings(pid):
    """entries `known: property=<id> key=<key> <text>`; `fixed:` entries suppress nothing"""
    out = []
    if os.path.exists(KNOWN):
        for line in open(KNOWN):
            line = line.strip()
            m = re.match(r'known:\s+property=(\S+)\s+key=(\S+)\s+(.*)', line)
            if m and m.group(1) == pid:
                out.append((m.group(2), m.group(3)))
    return out


# ----------------------------------------------------------------------------- comparison helpers
def close(a, b, rel=1e-9, abs_=0.0):
    """float agreement under a relative tolerance; NaN == NaN, inf == inf"""
    if isinstance(a, (list, tuple)) or hasattr(a, '__len__'):
        a = list(a)
        b = list(b)
        return len(a) == len(b) and all(close(x, y, rel, abs_) for x, y in zip(a, b))
    a = float(a)
    b = float(b)
    if math.isnan(a) or math.isnan(b):
        return math.isnan(a) and math.isnan(b)
    if math.isinf(a) or math.isinf(b):
        return a == b
    return abs(a - b) <= abs_ + rel * max(abs(a), abs(b))


def jsonable(x):
    import numpy as np
    if isinstance(x, dict):
        return {str(k): jsonable(v) for k, v in x.items()}
    if isinstance(x, (list, tuple)):
        return [jsonable(v) for v in x]
    if isinstance(x, np.ndarray):
        return jsonable(x.tolist())
    if isinstance(x, (np.floating, float)):
        x = float(x)
        if math.isnan(x):
            return 'nan'
        if math.isinf(x):
            return 'inf' if x > 0 else '-inf'
        return x
    if isinstance(x, (np.integer,)):
        return int(x)
    if isinstance(x, (np.bool_,)):
        return bool(x)
    if isinstance(x, (str, int, bool)) or x is None:
        return x
    return repr(x)


def unjson_floats(x):
    if isinstance(x, list):
        return [unjson_floats(v) for v in x]
    if isinstance(x, dict):
        return {k: unjson_floats(v) for k, v in x.items()}
    if x == 'nan':
        return float('nan')
    if x == 'inf':
        return float('inf')
    if x == '-inf':
        return float('-inf')
    return x


# ----------------------------------------------------------------------------- run context
class Ctx:
    def __init__(self, pid, tier, seed):
        import numpy as np
        self.pid = pid
        self.tier = tier
        self.seed = seed
        self.rng = np.random.Generator(np.random.PCG64(seed))
        self.driver = None
        self.other_drivers = {}
        self.evaluations = 0
        self.nontrivial_keys = set()
        self.samples = []
        self.hist = {}
        self.mismatches = []      # correspondence disagreements (model vs implementation)
        self.violations = []      # property predicate false on the implementation, with the input
        self.malformed = {}
        self.disagreements_checked = 0
        self.notes = []
        self.t0 = time.time()

    @property
    def quick(self):
        return self.tier == 'quick'

    def n(self, quick, thorough):
        return quick if self.tier == 'quick' else thorough

    def model(self, pid=None):
        """the model driver of this property (or of another property `pid` whose model is reused)"""
        if pid is not None and pid != self.pid:
            if pid not in self.other_drivers:
                self.other_drivers[pid] = Driver(pid)
            return self.other_drivers[pid]
        if self.driver is None:
            self.driver = Driver(self.pid)
        return self.driver

    def case(self, key=None, sample=None, bucket=None):
        """count one evaluated case; `key` (hashable) identifies a distinct non-trivial case"""
        self.evaluations += 1
        if key is not None:
            self.nontrivial_keys.add(key)
        if bucket is not None:
            self.hist[bucket] = self.hist.get(bucket, 0) + 1
        if sample is not None and len(self.samples) < 5:
            self.samples.append(jsonable(sample))

    def bucket(self, name, k=1):
        self.hist[name] = self.hist.get(name, 0) + k

    def malformed_outcome(self, kind):
        self.malformed[kind] = self.malformed.get(kind, 0) + 1

    def mismatch(self, observable, case, detail):
        if len(self.mismatches) < 50:
            self.mismatches.append(dict(observable=observable, case=jsonable(case), detail=jsonable(detail)))
        else:
            self.mismatches.append(None)

    def violation(self, key, what, case, detail=None):
        """`key` canonically names the failing input class / call site (matched against known findings)"""
        if len(self.violations) < 50:
            self.violations.append(dict(key=key, what=what, case=jsonable(case), detail=jsonable(detail)))

    def check_close(self, observable, impl, model, case, rel=1e-9, abs_=0.0):
        self.disagreements_checked += 1
        if not close(impl, model, rel, abs_):
            self.mismatch(observable, case, dict(impl=impl, model=model, rel=rel, abs=abs_))
            return False
        return True

    def check_eq(self, observable, impl, model, case):
        self.disagreements_checked += 1
        if impl != model:
            self.mismatch(observable, case, dict(impl=impl, model=model))
            return False
        return True

    def close(self):
        if self.driver is not None:
            self.driver.close()
        for d in self.other_drivers.values():
            d.close()


def write_evidence(ctx, aud, rule, assumptions, extra=None, nviol=0):
    os.makedirs(EVIDENCE, exist_ok=True)
    cov = dict(
        obligations=aud['obligations'], discharged=aud['discharged'],
        checker_cmd=aud['checker_cmd'], trusted_base=TRUSTED_BASE,
        theorems=aud['theorems'],
        axioms_used=sorted({a for v in aud['axioms'].values() for a in v}),
        audit_failures=aud['failures'],
        evaluations=ctx.evaluations, distinct_nontrivial=len(ctx.nontrivial_keys),
        rule=rule, samples=ctx.samples if ctx.samples else [dict(note='no correspondence case was generated')],
        disagreements_checked=ctx.disagreements_checked,
        correspondence_mismatches=sum(1 for _ in ctx.mismatches),
        input_distribution=ctx.hist, malformed_stream=ctx.malformed,
        model_driver_calls=ctx.driver.calls if ctx.driver else 0,
    )
    if 'leanchecker' in aud:
        cov['leanchecker'] = aud['leanchecker']
    if extra:
        cov.update(jsonable(extra))
    if ctx.notes:
        cov['notes'] = ctx.notes
    ev = dict(property_id=ctx.pid, tier=ctx.tier, seed=ctx.seed, level='proof', coverage=cov,
              assumptions=assumptions, wall_s=round(time.time() - ctx.t0, 2), violations=nviol)
    path = os.path.join(EVIDENCE, ctx.pid + '.json')
    tmp = path + '.tmp'
    with open(tmp, 'w') as fh:
        json.dump(ev, fh, indent=1)
    os.replace(tmp, path)
    return path


def write_replay(pid, seed, n, payload):
    os.makedirs(REPLAYS, exist_ok=True)
    p = os.path.join(REPLAYS, '%s-%d-%d.json' % (pid, seed, n))
    with open(p, 'w') as fh:
        json.dump(jsonable(payload), fh, indent=1)
    return os.path.relpath(p, VERIF)


def corpus_cases(pid):
    d = os.path.join(CORPUS, pid)
    out = []
    if os.path.isdir(d):
        for fn in sorted(os.listdir(d)):
            if fn.endswith('.json'):
                out.append((fn, unjson_floats(json.load(open(os.path.join(d, fn))))))
    return out
