"""Recording doubles for the external samplers wrapped by taurex.optimizer: nestle, pymultinest, pypolychord.

`install()` puts the doubles in `sys.modules` (and re-imports the three wrapper modules so that they bind them).
Every call of a sampler entry point (`nestle.sample`, `pymultinest.run`, `pypolychord.run_polychord`) is appended
to `REC.calls` with the callbacks it was handed, and answered by `REC.script(call)`, a function installed by the
check that returns the canned sampler result:

    dict(modes=[dict(samples=(n, ndim) array, weights=(n,) array, m2logl=(n,) array,
                     mean=[..], sigma=[..], maximum=[..], map=[..], logz=float, logzerr=float)], ...
         logz=float, logzerr=float, h=float)

* nestle: the first mode is returned as a `nestle.Result` (samples / weights / logz / logzerr / h / niter / ncall /
  logvol / logl), exactly the attributes `NestleOptimizer.store_nestle_output` reads.  `nestle.mean_and_cov` is
  the installed library's own function when nestle is importable (a literal copy otherwise).
* pymultinest: `run` writes the text files `MultiNestOptimizer.store_nest_solutions` reads back:
  `<base>.txt` (weight, -2 logL, parameters), `<base>stats.dat`, `<base>post_separate.dat`; `Analyzer.get_stats`
  returns pymultinest's dictionary layout.  In non-multimodal mode the Analyzer reports no modes, so the wrapper's
  own `stats.dat` parser runs (the real MultiNest file layout cannot be checked offline: the double writes the
  layout that parser accepts, i.e. one header line per table).
* pypolychord: `run_polychord` writes `<base_dir>/<root>.txt`, `<root>.stats`, `clusters/<root>_<k>.txt`.

Numbers are written with 17 significant decimal digits after the point (`%.17e`), which round-trips IEEE doubles
exactly, so "stored unchanged" can be checked bit for bit.
"""
import os
import sys
import types
import importlib
import numpy as np


class Recorder:
    def __init__(self):
        self.calls = []
        self.script = None

    def reset(self):
        self.calls = []
        self.script = None

    def last(self, sampler=None):
        for c in reversed(self.calls):
            if sampler is None or c['sampler'] == sampler:
                return c
        return None


REC = Recorder()
_REAL = {}


def fmt(x):
    return '%.17e' % float(x)


def _answer(call):
    REC.calls.append(call)
    if REC.script is None:
        raise RuntimeError('doubles: no script installed')
    out = REC.script(call)
    call['result'] = out
    return out


# ------------------------------------------------------------------------------------------ nestle
def _nestle_double():
    m = types.ModuleType('nestle')
    m.__verif_double__ = True

    class Result(dict):
        def __getattr__(self, name):
            try:
                return self[name]
            except KeyError:
                raise AttributeError(name)
        __setattr__ = dict.__setitem__
        __delattr__ = dict.__delitem__

        def summary(self):
            return 'niter: {:d}\nncall: {:d}\nnsamples: {:d}\nlogz: {:6.3f} +/- {:6.3f}\nh: {:6.3f}'.format(
                self.niter, self.ncall, len(self.samples), self.logz, self.logzerr, self.h)

    def sample(loglikelihood, prior_transform, ndim, npoints=100, method='single', update_interval=None,
               npdim=None, maxiter=None, maxcall=None, dlogz=None, decline_factor=None, rstate=None,
               callback=None, **options):
        call = dict(sampler='nestle', loglike=loglikelihood, prior=prior_transform, ndim=ndim,
                    kwargs=dict(npoints=npoints, method=method, dlogz=dlogz, callback=callback))
        out = _answer(call)
        mode = out['modes'][0]
        n = len(mode['weights'])
        return Result([('niter', n), ('ncall', 3 * n), ('logz', float(out.get('logz', -1.0))),
                       ('logzerr', float(out.get('logzerr', 0.1))), ('h', float(out.get('h', 1.0))),
                       ('samples', mode['samples']), ('weights', mode['weights']),
                       ('logvol', np.zeros(n)), ('logl', -0.5 * np.asarray(mode['m2logl'], float))])

    def print_progress(info):
        pass

    def mean_and_cov(x, weights):
        real = _REAL.get('nestle')
        if real is not None:
            return real.mean_and_cov(x, weights)
        mean = np.average(x, weights=weights, axis=0)
        dx = x - mean
        wsum = np.sum(weights)
        w2sum = np.sum(weights ** 2)
        cov = wsum / (wsum ** 2 - w2sum) * np.einsum('i,ij,ik', weights, dx, dx)
        return mean, cov

    m.Result = Result
    m.sample = sample
    m.print_progress = print_progress
    m.mean_and_cov = mean_and_cov
    return m


# ------------------------------------------------------------------------------------------ pymultinest
_MN_STATS = {}


def _rows(mode):
    s = np.asarray(mode['samples'], float)
    w = np.asarray(mode['weights'], float)
    l = np.asarray(mode['m2logl'], float)
    return [' '.join([fmt(w[i]), fmt(l[i])] + [fmt(v) for v in s[i]]) for i in range(len(w))]


def _table(header, vals_cols):
    lines = [header]
    n = len(vals_cols[0])
    for i in range(n):
        lines.append(' '.join(['%d' % (i + 1)] + [fmt(c[i]) for c in vals_cols]))
    return '\n'.join(lines)


def _pymultinest_double():
    m = types.ModuleType('pymultinest')
    m.__verif_double__ = True

    def run(LogLikelihood, Prior, n_dims, n_params=None, n_clustering_params=None, wrapped_params=None,
            importance_nested_sampling=True, multimodal=True, const_efficiency_mode=False, n_live_points=400,
            evidence_tolerance=0.5, sampling_efficiency=0.8, n_iter_before_update=100, null_log_evidence=-1e90,
            max_modes=100, mode_tolerance=-1e90, outputfiles_basename='chains/1-', seed=-1, verbose=False,
            resume=True, context=0, write_output=True, log_zero=-1e100, max_iter=0, init_MPI=False,
            dump_callback=None, **kw):
        call = dict(sampler='multinest', loglike=LogLikelihood, prior=Prior, ndim=n_dims,
                    basename=outputfiles_basename,
                    kwargs=dict(multimodal=multimodal, n_live_points=n_live_points,
                                importance_nested_sampling=importance_nested_sampling,
                                n_clustering_params=n_clustering_params, max_modes=max_modes))
        out = _answer(call)
        base = outputfiles_basename
        os.makedirs(os.path.dirname(base) or '.', exist_ok=True)
        modes = out['modes']
        with open(base + '.txt', 'w') as fh:
            for mode in modes:
                for r in _rows(mode):
                    fh.write(r + '\n')
        # post_separate.dat: two blank lines before every mode.  MultiNest writes it only in mode-separation runs; an older
        # file of a previous run in the same chains directory is left where it is (as the real program leaves it)
        if multimodal:
            with open(base + 'post_separate.dat', 'w') as fh:
                for mode in modes:
                    fh.write('\n\n')
                    for r in _rows(mode):
                        fh.write(r + '\n')
        # stats.dat in the layout MultiNestOptimizer.store_nest_solutions parses when no mode is reported
        m0 = modes[0]
        with open(base + 'stats.dat', 'w') as fh:
            fh.write('Nested Sampling Global Log-Evidence           :   %s  +/-   %s\n' %
                     (fmt(out.get('logz', -1.0)), fmt(out.get('logzerr', 0.1))))
            fh.write('\n')
            fh.write(_table('Dim No.       Mean        Sigma', [m0['mean'], m0['sigma']]))
            fh.write('\n\n')
            fh.write(_table('Dim No.        Parameter', [m0['maximum']]))
            fh.write('\n\n')
            fh.write(_table('Dim No.        Parameter', [m0['map']]))
            fh.write('\n')
        stats = {'global evidence': float(out.get('logz', -1.0)),
                 'global evidence error': float(out.get('logzerr', 0.1)),
                 'nested sampling global log-evidence': float(out.get('logz', -1.0)),
                 'nested sampling global log-evidence error': float(out.get('logzerr', 0.1)),
                 'marginals': [], 'modes': []}
        if multimodal:
            for k, mode in enumerate(modes):
                stats['modes'].append({
                    'index': k,
                    'strictly local log-evidence': float(mode.get('logz', -1.0)),
                    'strictly local log-evidence error': float(mode.get('logzerr', 0.1)),
                    'local log-evidence': float(mode.get('logz', -1.0)),
                    'local log-evidence error': float(mode.get('logzerr', 0.1)),
                    'mean': [float(v) for v in mode['mean']], 'sigma': [float(v) for v in mode['sigma']],
                    'maximum': [float(v) for v in mode['maximum']],
                    'maximum a posterior': [float(v) for v in mode['map']]})
        _MN_STATS[os.path.abspath(base)] = stats

    class Analyzer:
        def __init__(self, n_params, outputfiles_basename='chains/1-', verbose=True):
            self.n_params = n_params
            self.outputfiles_basename = outputfiles_basename

        def get_stats(self):
            import copy
            return copy.deepcopy(_MN_STATS[os.path.abspath(self.outputfiles_basename)])

        def get_data(self):
            return np.loadtxt(self.outputfiles_basename + '.txt', ndmin=2)

    m.run = run
    m.Analyzer = Analyzer
    return m


# ------------------------------------------------------------------------------------------ pypolychord
def _pypolychord_double():
    m = types.ModuleType('pypolychord')
    m.__verif_double__ = True
    m.__path__ = []
    ms = types.ModuleType('pypolychord.settings')
    mp = types.ModuleType('pypolychord.priors')

    class PolyChordSettings:
        def __init__(self, nDims, nDerived, **kwargs):
            self.nDims = nDims
            self.nDerived = nDerived
            self.nlive = nDims * 25
            self.num_repeats = nDims * 5
            self.do_clustering = True
            self.precision_criterion = 0.001
            self.logzero = -1e30
            self.read_resume = True
            self.base_dir = 'chains'
            self.file_root = 'test'
            for k, v in kwargs.items():
                setattr(self, k, v)

    class UniformPrior:
        def __init__(self, a, b):
            self.a = a
            self.b = b

        def __call__(self, x):
            return self.a + (self.b - self.a) * x

    def run_polychord(loglikelihood, nDims, nDerived, settings, prior=None, dumper=None):
        call = dict(sampler='polychord', loglike=loglikelihood, prior=prior, ndim=nDims, nderived=nDerived,
                    settings=settings, basename=os.path.join(settings.base_dir, settings.file_root),
                    kwargs=dict(do_clustering=settings.do_clustering, nlive=settings.nlive))
        out = _answer(call)
        base_dir, root = settings.base_dir, settings.file_root
        os.makedirs(os.path.join(base_dir, 'clusters'), exist_ok=True)
        modes = out['modes']

        def rows(mode):
            # PolyChord appends the derived parameters after the sampled ones
            return [r + ''.join(' ' + fmt(0.0) for _ in range(nDerived)) for r in _rows(mode)]
        with open(os.path.join(base_dir, root + '.txt'), 'w') as fh:
            for mode in modes:
                for r in rows(mode):
                    fh.write(r + '\n')
        for k, mode in enumerate(modes):
            with open(os.path.join(base_dir, 'clusters', '%s_%d.txt' % (root, k + 1)), 'w') as fh:
                for r in rows(mode):
                    fh.write(r + '\n')
        with open(os.path.join(base_dir, root + '.stats'), 'w') as fh:
            fh.write('Evidence estimates:\n')
            fh.write('===================\n')
            fh.write('  - The evidence Z is a log-normally distributed, with location and scale parameters mu and sigma.\n')
            fh.write('  - We denote this as log(Z) = mu +/- sigma.\n')
            fh.write('\n')
            fh.write('Global evidence:\n')
            fh.write('----------------\n')
            fh.write('\n')
            fh.write('log(Z)       =  %s +/-  %s\n' % (fmt(out.get('logz', -1.0)), fmt(out.get('logzerr', 0.1))))
            fh.write('\n')
            fh.write('\n')
            fh.write('Local evidences:\n')
            fh.write('----------------\n')
            fh.write('\n')
            for k, mode in enumerate(modes):
                fh.write('log(Z_ %d)  =  %s +/-  %s\n' % (k + 1, fmt(mode.get('logz', -1.0)),
                                                        fmt(mode.get('logzerr', 0.1))))
        return None

    ms.PolyChordSettings = PolyChordSettings
    mp.UniformPrior = UniformPrior
    m.run_polychord = run_polychord
    m.settings = ms
    m.priors = mp
    return m, ms, mp


WRAPPERS = ['taurex.optimizer.nestle', 'taurex.optimizer.multinest', 'taurex.optimizer.polychord']


def install():
    """inject the doubles; returns (NestleOptimizer, MultiNestOptimizer, PolyChordOptimizer)"""
    cur = sys.modules.get('nestle')
    if cur is None or not getattr(cur, '__verif_double__', False):
        try:
            import nestle as real_nestle
            _REAL['nestle'] = real_nestle
        except Exception:
            _REAL['nestle'] = None
        sys.modules['nestle'] = _nestle_double()
        sys.modules['pymultinest'] = _pymultinest_double()
        pc, pcs, pcp = _pypolychord_double()
        sys.modules['pypolychord'] = pc
        sys.modules['pypolychord.settings'] = pcs
        sys.modules['pypolychord.priors'] = pcp
        for name in WRAPPERS:
            if name in sys.modules:
                importlib.reload(sys.modules[name])
    mods = [importlib.import_module(n) for n in WRAPPERS]
    for mod in mods[:1] + mods[2:]:
        pass
    assert getattr(mods[0].nestle, '__verif_double__', False), 'nestle double not bound'
    assert getattr(mods[2].pypolychord, '__verif_double__', False), 'pypolychord double not bound'
    return mods[0].NestleOptimizer, mods[1].MultiNestOptimizer, mods[2].PolyChordOptimizer
