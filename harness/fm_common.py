"""fm_common — build *real* TauREx forward models from generated, JSON-serialisable specs.

Used by the forward-model checks (C01, C03, C19; read-only by C02, C20, C13).  Everything is in memory:
opacities are `InterpolatingOpacity` subclasses registered through `OpacityCache().add_opacity`, CIA tables are
`CIA` subclasses registered through `CIACache().add_cia`.  No file is written, /repo is not touched.

API (stable; add, never change)
-------------------------------
quiet()                             taurex.log.disableLogging()
reset_caches()                      empty OpacityCache / CIACache, opacity_method -> cross-sections, no xsec/cia path
MemOpacity(mol, wn, tgrid, pgrid_pa, xsec[P,T,wn], mode='linear')
                                    in-memory cross-section table.  `xsec` is in the table unit (cm2): the code
                                    returns table/1e4 (m2).  `pgrid_pa` in Pa (the code takes log10 of it).
MemCIA(pair, wn, tgrid, xsec[T,wn]) in-memory CIA; linear in T between nodes, 0 outside the T range
                                    (same rule as the repo's PickleCIA/HitranCIA: "outside the grid -> zero").
register_opacity(op) / register_cia(c)
gen_wngrid(rng, n)                  strictly increasing wavenumber grid (cm-1)
gen_opacity(rng, mol, wn, log10_lo, log10_hi, nT=3, nP=3, zero=False)   random table, values 10**U(lo,hi) (cm2)
gen_cia(rng, pair, wn, log10_lo, log10_hi, nT=3, zero=False)
spec_install(spec)                  reset caches and register every table of `spec['opacities']`, `spec['cia']`
build_model(spec, kind='transmission'|'emission'|'directimage', install=True) -> model (already `.build()`-ed)
make_contribution(cspec)            one contribution object from {'type': ..., **params}
set_contributions(model, cspecs)    replace the contribution list of a built model (then model.build() is re-run)
profiles(model)                     dict of the exposed profiles after model.model(): rp, rs, z, dz, zb, density,
                                    P, Plev, T, nlayers
gen_spec(rng, ...)                  a random mostly-valid spec (see the function for the knobs; `extended=True`
                                    draws an inflated atmosphere whose top lies at 0.4 .. several Rp)

Spec (plain dict; numpy arrays allowed, `common.jsonable` makes it JSON):
  planet_mass [Mjup], planet_radius [Rjup], star_radius [Rsun], star_temperature [K],
  nlayers, pmin, pmax [Pa],
  temperature: {'type':'isothermal','T':..} | {'type':'array','tp':[...]} (one value per layer, surface first;
               other lengths are interpolated by the repo) | {'type':'npoint','T_surface','T_top','temperature_points',
               'pressure_points','smoothing_window'}
  fill_gases: ['H2','He'], ratio: 0.17
  gases: [{'mol':'H2O','type':'constant','mix':1e-4} | {'mol':..,'type':'array','mix':[...]}]
  chem_kind: absent (TaurexChemistry) | 'table' (plugin-style Chemistry subclass) | 'makefree-file' (ChemistryFile wrapped
             with MakeFreeMixin; then chem_file: {'gases': [...], 'table': [gas][layer]} and `gases` are the free gases)
  opacities: [{'mol','wn','t','p','xsec','mode'[,'wn_dtype': numpy dtype name of the stored wavenumber axis, default float64]}]
  cia: [{'pair','wn','t','xsec'}]
  contributions: [{'type':'absorption'} | {'type':'cia','pairs':[..]} | {'type':'rayleigh'} |
                  {'type':'clouds','clouds_pressure':..} | {'type':'flatmie','flat_mix_ratio','flat_bottomP','flat_topP'} |
                  {'type':'leemie','lee_mie_radius','lee_mie_q','lee_mie_mix_ratio','lee_mie_bottomP','lee_mie_topP'} |
                  {'type':'hm'}]       (list order = insertion order; the repo sorts by `.order` in build())
  new_path_method: bool (transmission), ngauss: int (emission)

Notes: a molecule is *active* iff a table for it is registered when the chemistry object is constructed, so
`build_model` installs the tables first.  numba kernels are JIT-compiled on first use (several seconds per process):
reuse models across cases (`set_contributions`, parameter setters, `model.build()`, `model.model()`).
"""
import numpy as np


def quiet():
    """switch the repo's logging off (the checks are noisy otherwise)"""
    import logging
    import taurex.log
    from taurex.log.logger import root_logger
    taurex.log.disableLogging()
    root_logger.setLevel(logging.CRITICAL + 1)


ACTIVE_POOL = ['H2O', 'CH4', 'CO2', 'CO', 'NH3', 'HCN', 'TiO', 'VO']
CIA_POOL = ['H2-H2', 'H2-He']


# --------------------------------------------------------------------------------------- caches
def reset_caches():
    from taurex.cache import OpacityCache, CIACache, GlobalCache
    OpacityCache().clear_cache()
    OpacityCache()._force_active = []
    CIACache().cia_dict = {}
    CIACache()._cia_path = None
    g = GlobalCache()
    g['opacity_method'] = 'xsec'
    g['xsec_path'] = None
    g['deactive_molecules'] = None


def MemOpacity(mol, wn, tgrid, pgrid_pa, xsec, mode='linear', wn_dtype=None):
    from taurex.opacity.interpolateopacity import InterpolatingOpacity
    wn = np.asarray(wn, float)
    if wn_dtype is not None:
        # a table whose wavenumber AXIS is stored with another dtype (integer / single precision: what np.arange, a text
        # loader or a user-made file produce); the values must be representable (whole numbers)
        assert np.array_equal(wn.astype(wn_dtype).astype(float), wn)
        wn = wn.astype(wn_dtype)
    tgrid = np.asarray(tgrid, float)
    pgrid_pa = np.asarray(pgrid_pa, float)
    xsec = np.asarray(xsec, float)
    assert xsec.shape == (len(pgrid_pa), len(tgrid), len(wn))

    class _MemOpacity(InterpolatingOpacity):
        def __init__(self):
            super().__init__('MemOpacity:' + mol, interpolation_mode=mode)

        moleculeName = property(lambda self: mol)
        xsecGrid = property(lambda self: xsec)
        wavenumberGrid = property(lambda self: wn)
        temperatureGrid = property(lambda self: tgrid)
        pressureGrid = property(lambda self: pgrid_pa)
    return _MemOpacity()


def MemCIA(pair, wn, tgrid, xsec):
    from taurex.cia.cia import CIA
    wn = np.asarray(wn, float)
    tgrid = np.asarray(tgrid, float)
    xsec = np.asarray(xsec, float)
    assert xsec.shape == (len(tgrid), len(wn))

    class _MemCIA(CIA):
        def __init__(self):
            super().__init__('MemCIA:' + pair, pair)

        wavenumberGrid = property(lambda self: wn)
        temperatureGrid = property(lambda self: tgrid)

        def compute_cia(self, temperature):
            return cia_value(tgrid, xsec, temperature)
    return _MemCIA()


def cia_value(tgrid, xsec, temperature):
    """the MemCIA law (also the oracle for it): linear in T between nodes, zero outside [Tmin, Tmax]"""
    tgrid = np.asarray(tgrid, float)
    xsec = np.asarray(xsec, float)
    if temperature < tgrid[0] or temperature > tgrid[-1]:
        return np.zeros(xsec.shape[1])
    if len(tgrid) == 1:
        return xsec[0].copy()
    j = int(np.searchsorted(tgrid, temperature, side='right')) - 1
    j = min(max(j, 0), len(tgrid) - 2)
    f = (temperature - tgrid[j]) / (tgrid[j + 1] - tgrid[j])
    return xsec[j] * (1.0 - f) + xsec[j + 1] * f


def register_opacity(op):
    from taurex.cache import OpacityCache
    OpacityCache().add_opacity(op)


def register_cia(c):
    from taurex.cache import CIACache
    CIACache().add_cia(c)


# --------------------------------------------------------------------------------------- generators
def gen_wngrid(rng, n):
    return np.sort(rng.choice(np.arange(300.0, 30000.0, 7.0), size=int(n), replace=False)) + float(rng.random())


def gen_opacity(rng, mol, wn, log10_lo, log10_hi, nT=3, nP=3, zero=False, mode='linear'):
    """spec entry of a random table; the atmosphere's (T,P) usually falls inside *and* outside the grid"""
    tg = np.sort(rng.choice(np.arange(100.0, 3500.0, 50.0), size=nT, replace=False))
    pg = 10 ** np.sort(rng.choice(np.linspace(-3, 7, 41), size=nP, replace=False))
    if zero:
        tab = np.zeros((nP, nT, len(wn)))
    else:
        tab = 10 ** rng.uniform(log10_lo, log10_hi, size=(nP, nT, len(wn)))
    return dict(mol=mol, wn=np.asarray(wn, float), t=tg, p=pg, xsec=tab, mode=mode)


def gen_cia(rng, pair, wn, log10_lo, log10_hi, nT=3, zero=False):
    tg = np.sort(rng.choice(np.arange(100.0, 3500.0, 50.0), size=nT, replace=False))
    if zero:
        tab = np.zeros((nT, len(wn)))
    else:
        tab = 10 ** rng.uniform(log10_lo, log10_hi, size=(nT, len(wn)))
    return dict(pair=pair, wn=np.asarray(wn, float), t=tg, xsec=tab)


def spec_install(spec):
    reset_caches()
    for o in spec.get('opacities', []):
        register_opacity(MemOpacity(o['mol'], o['wn'], o['t'], o['p'], o['xsec'], o.get('mode', 'linear'),
                                    o.get('wn_dtype')))
    for c in spec.get('cia', []):
        register_cia(MemCIA(c['pair'], c['wn'], c['t'], c['xsec']))


# --------------------------------------------------------------------------------------- builders
def make_temperature(tspec):
    from taurex.data.profiles.temperature import Isothermal, NPoint
    from taurex.data.profiles.temperature.temparray import TemperatureArray
    ty = tspec.get('type', 'isothermal')
    if ty == 'isothermal':
        return Isothermal(T=float(tspec['T']))
    if ty == 'array':
        return TemperatureArray(tp_array=np.asarray(tspec['tp'], float))
    if ty == 'npoint':
        return NPoint(T_surface=float(tspec['T_surface']), T_top=float(tspec['T_top']),
                      temperature_points=list(tspec.get('temperature_points', [])),
                      pressure_points=list(tspec.get('pressure_points', [])),
                      smoothing_window=int(tspec.get('smoothing_window', 10)))
    raise ValueError('unknown temperature spec ' + str(ty))


def make_chemistry(spec):
    from taurex.data.profiles.chemistry import TaurexChemistry, ConstantGas
    from taurex.data.profiles.chemistry.gas.arraygas import ArrayGas
    if spec.get('chem_kind') == 'makefree-file':
        return makefree_file_chemistry(spec)
    fill = list(spec.get('fill_gases', ['H2', 'He']))
    ratio = spec.get('ratio', 0.17567)
    if len(fill) == 1:
        chem = TaurexChemistry(fill_gases=fill)
    else:
        chem = TaurexChemistry(fill_gases=fill, ratio=ratio if isinstance(ratio, (list, tuple)) else float(ratio))
    for g in spec.get('gases', []):
        if g.get('type', 'constant') == 'constant':
            chem.addGas(ConstantGas(g['mol'], mix_ratio=float(g['mix'])))
        else:
            chem.addGas(ArrayGas(g['mol'], mix_ratio_array=np.asarray(g['mix'], float)))
    if spec.get('chem_kind') == 'table':
        return table_chemistry(chem)
    return chem


def makefree_file_chemistry(spec):
    """`chem_kind='makefree-file'`: a tabulated chemistry (`ChemistryFile`, keyword 'file': one column per molecule of
    `spec['chem_file']['gases']`, one row per layer, `spec['chem_file']['table'][gas][layer]`) enhanced with the
    `MakeFreeMixin` (keyword 'makefree'), every entry of `spec['gases']` handed to its `addGas`: a molecule of the file is
    REPLACED by the free gas, any other molecule is added; the mixin renormalises.  `fill_gases` / `ratio` are not used.
    The file is written to a scratch directory and removed once the chemistry has read it."""
    import os
    import shutil
    import tempfile
    from taurex.mixin import enhance_class, MakeFreeMixin
    from taurex.data.profiles.chemistry.filechemistry import ChemistryFile
    from taurex.data.profiles.chemistry import ConstantGas
    from taurex.data.profiles.chemistry.gas.arraygas import ArrayGas
    cf = spec['chem_file']
    d = tempfile.mkdtemp(prefix='verif_chem_')
    try:
        fn = os.path.join(d, 'chemistry.dat')
        np.savetxt(fn, np.asarray(cf['table'], float).T, fmt='%.17e')
        chem = enhance_class(ChemistryFile, MakeFreeMixin, gases=[str(g) for g in cf['gases']], filename=fn)
    finally:
        shutil.rmtree(d, ignore_errors=True)
    for g in spec.get('gases', []):
        if g.get('type', 'constant') == 'constant':
            chem.addGas(ConstantGas(g['mol'], mix_ratio=float(g['mix'])))
        else:
            chem.addGas(ArrayGas(g['mol'], mix_ratio_array=np.asarray(g['mix'], float)))
    return chem


def table_chemistry(inner):
    """the same composition served by a chemistry written the way plugin chemistries are: a direct subclass of the base
    class `Chemistry` that keeps its (ngas, nlayers) tables as attributes and relies on the base class's
    get_gas_mix_profile, which then hands out VIEWS of those tables (a consumer that modifies what it is handed corrupts
    the chemistry for every consumer after it)"""
    from taurex.data.profiles.chemistry.chemistry import Chemistry

    class TableChemistry(Chemistry):
        def __init__(self):
            super().__init__('TableChemistry')
            self._inner = inner
            self._act = self._inact = self._mu = None

        def initialize_chemistry(self, nlayers=100, temperature_profile=None, pressure_profile=None,
                                 altitude_profile=None):
            self._inner.initialize_chemistry(nlayers, temperature_profile, pressure_profile, altitude_profile)
            self._act = np.array(self._inner.activeGasMixProfile, float)
            self._inact = np.array(self._inner.inactiveGasMixProfile, float)
            self._mu = np.array(self._inner.muProfile, float)

        activeGases = property(lambda self: list(self._inner.activeGases))
        inactiveGases = property(lambda self: list(self._inner.inactiveGases))
        activeGasMixProfile = property(lambda self: self._act)
        inactiveGasMixProfile = property(lambda self: self._inact)
        muProfile = property(lambda self: self._mu)

        def fitting_parameters(self):
            return self._inner.fitting_parameters()

        def derived_parameters(self):
            return self._inner.derived_parameters()

        def write(self, output):
            return self._inner.write(output)
    return TableChemistry()


def make_contribution(c):
    from taurex.contributions import (AbsorptionContribution, CIAContribution, RayleighContribution,
                                      SimpleCloudsContribution, FlatMieContribution, LeeMieContribution,
                                      HydrogenIon)
    ty = c['type']
    kw = {k: v for k, v in c.items() if k != 'type'}
    if ty == 'absorption':
        return AbsorptionContribution()
    if ty == 'cia':
        return CIAContribution(cia_pairs=list(kw.get('pairs', [])))
    if ty == 'rayleigh':
        return RayleighContribution()
    if ty == 'clouds':
        return SimpleCloudsContribution(**kw)
    if ty == 'flatmie':
        return FlatMieContribution(**kw)
    if ty == 'leemie':
        return LeeMieContribution(**kw)
    if ty == 'hm':
        return HydrogenIon()
    raise ValueError('unknown contribution ' + str(ty))


def set_contributions(model, cspecs, build=True):
    """replace the contribution list (insertion order = list order) and rebuild (build() sorts by `.order`)"""
    model.contribution_list[:] = []
    objs = []
    for c in cspecs:
        o = make_contribution(c)
        model.add_contribution(o)
        objs.append(o)
    if build:
        model.build()
    return objs


def build_model(spec, kind='transmission', install=True, build=True):
    from taurex.data import Planet
    from taurex.data.stellar import BlackbodyStar
    from taurex.data.profiles.pressure import SimplePressureProfile
    if install:
        spec_install(spec)
    planet = Planet(planet_mass=float(spec.get('planet_mass', 1.0)), planet_radius=float(spec.get('planet_radius', 1.0)))
    star = BlackbodyStar(temperature=float(spec.get('star_temperature', 5700.0)), radius=float(spec.get('star_radius', 1.0)))
    pres = SimplePressureProfile(nlayers=int(spec.get('nlayers', 10)), atm_min_pressure=float(spec.get('pmin', 1e-2)),
                                 atm_max_pressure=float(spec.get('pmax', 1e6)))
    temp = make_temperature(spec.get('temperature', dict(type='isothermal', T=1500.0)))
    chem = make_chemistry(spec)
    if kind == 'transmission':
        from taurex.model import TransmissionModel
        m = TransmissionModel(planet=planet, star=star, pressure_profile=pres, temperature_profile=temp,
                              chemistry=chem, new_path_method=bool(spec.get('new_path_method', False)))
    elif kind == 'emission':
        from taurex.model import EmissionModel
        m = EmissionModel(planet=planet, star=star, pressure_profile=pres, temperature_profile=temp,
                          chemistry=chem, ngauss=int(spec.get('ngauss', 4)))
    elif kind == 'directimage':
        from taurex.model import DirectImageModel
        m = DirectImageModel(planet=planet, star=star, pressure_profile=pres, temperature_profile=temp,
                             chemistry=chem, ngauss=int(spec.get('ngauss', 4)))
    else:
        raise ValueError(kind)
    for c in spec.get('contributions', []):
        m.add_contribution(make_contribution(c))
    if build:
        m.build()
    return m


def profiles(model):
    """profiles the kernels use (valid after build(); refreshed by model.model())"""
    return dict(rp=float(model.planet.fullRadius), rs=float(model.star.radius),
                z=np.array(model.altitudeProfile, float), dz=np.array(model.deltaz, float),
                zb=np.array(model.altitude_boundaries, float), density=np.array(model.densityProfile, float),
                P=np.array(model.pressureProfile, float), Plev=np.array(model.pressure.pressure_profile_levels, float),
                T=np.array(model.temperatureProfile, float), nlayers=int(model.nLayers))


# --------------------------------------------------------------------------------------- a random spec
REGIMES = {'zero': None, 'thin': (-36.0, -30.0), 'mid': (-24.0, -18.0), 'thick': (-14.0, 4.0)}


def gen_spec(rng, nlayers=None, nwn=None, ngas=None, regime=None, with_cia=None, same_grid=True, extended=None):
    """random mostly-valid atmosphere.  `regime` in REGIMES picks the table magnitude (cm2):
    zero = fully transparent, thin = tau << 1, mid = tau around 1 somewhere, thick = saturated."""
    nl = int(nlayers if nlayers is not None else rng.integers(2, 41))
    nw = int(nwn if nwn is not None else rng.integers(1, 7))
    ng = int(ngas if ngas is not None else rng.integers(1, 5))
    regime = regime if regime is not None else str(rng.choice(list(REGIMES)))
    wn = gen_wngrid(rng, nw)
    mols = [str(m) for m in rng.choice(ACTIVE_POOL, size=ng, replace=False)]
    gases, ops = [], []
    for m in mols:
        if rng.random() < 0.6:
            gases.append(dict(mol=m, type='constant', mix=float(10 ** rng.uniform(-8, -1.5))))
        else:
            gases.append(dict(mol=m, type='array', mix=10 ** rng.uniform(-8, -1.5, size=nl)))
        # a differing grid is a non-empty subset of the native one (the longest grid is the native grid; a table
        # with no sample inside the native range makes Opacity.opacity raise in np.interp: malformed stream)
        if same_grid or nw < 2 or rng.random() < 0.5 or m == mols[0]:
            gwn = wn
        else:
            gwn = np.sort(rng.choice(wn, size=int(rng.integers(1, nw)), replace=False))
        r = REGIMES[regime]
        if r is None:
            ops.append(gen_opacity(rng, m, gwn, 0, 0, nT=int(rng.integers(2, 5)), nP=int(rng.integers(2, 5)), zero=True))
        else:
            ops.append(gen_opacity(rng, m, gwn, r[0], r[1], nT=int(rng.integers(2, 5)), nP=int(rng.integers(2, 5))))
    cia = []
    if with_cia if with_cia is not None else rng.random() < 0.5:
        for pair in CIA_POOL:
            if rng.random() < 0.7:
                cia.append(gen_cia(rng, pair, gen_wngrid(rng, int(rng.integers(2, 6))), -50.0, -40.0,
                                   nT=int(rng.integers(1, 4)), zero=(regime == 'zero')))
    lo = float(10 ** rng.uniform(-4, 1))
    hi = float(lo * 10 ** rng.uniform(2, 7))
    tkind = rng.random()
    if tkind < 0.4:
        temp = dict(type='isothermal', T=float(rng.uniform(150, 3000)))
    elif tkind < 0.8:
        temp = dict(type='array', tp=rng.uniform(150, 3000, size=nl))
    else:
        temp = dict(type='npoint', T_surface=float(rng.uniform(800, 2500)), T_top=float(rng.uniform(150, 1500)),
                    temperature_points=[float(rng.uniform(300, 2000))],
                    pressure_points=[float(np.sqrt(lo * hi))], smoothing_window=int(rng.integers(1, 12)))
    # a bound atmosphere: the hydrostatic altitude diverges unless Rp/H0 > ln(pmax/pmin); draw the surface gravity
    # above that limit (with margin) and derive the mass from it
    radius = float(10 ** rng.uniform(-1, 0.3))
    tmax = max([temp.get('T', 0.0), temp.get('T_surface', 0.0), temp.get('T_top', 0.0)] +
               list(np.ravel(temp.get('tp', [0.0]))) + list(temp.get('temperature_points', [])))
    rp_m = radius * 69911000.0
    # x = H0*ln(pmax/pmin)/Rp decides the extent: z_top/Rp ~ 1/(1-x) - 1 (isothermal, g ~ 1/r^2).  Compact
    # atmospheres (default): x <= 1/3 (z_top <= 0.4 Rp).  `extended=True`: x up to 0.95 on the nominal
    # mu = 2 amu, i.e. inflated, low-gravity atmospheres whose top lies at 0.4 .. several planetary radii.
    glim = np.log(hi / lo) * 1.380649e-23 * tmax / (2.0 * 1.66054e-27 * rp_m)          # x = 1
    if extended:
        grav = float(glim / rng.uniform(0.5, 0.95))
    else:
        grav = float(3.0 * glim * 10 ** rng.uniform(0.0, 1.5))
    mass = grav * rp_m ** 2 / 6.67384e-11 / 1.898e27
    return dict(planet_mass=float(mass), planet_radius=radius,
                star_radius=float(10 ** rng.uniform(-0.7, 0.4)), star_temperature=float(rng.uniform(3000, 8000)),
                nlayers=nl, pmin=lo, pmax=hi, temperature=temp, fill_gases=['H2', 'He'],
                ratio=float(rng.uniform(0.05, 0.3)), gases=gases, opacities=ops, cia=cia,
                contributions=[dict(type='absorption')], new_path_method=bool(rng.random() < 0.5),
                regime=regime, extended=bool(extended))
