"""C01 — transmission spectrum = documented transit-depth integral.

Correspondence: real `TransmissionModel` objects (both path methods) built by `fm_common` against the Lean model
`Taurex.Transmission` (closed-form chords, tau with and without the tau>10 early exit, depth), plus the property's
own predicates evaluated directly on `model.model()` for every case."""
import math
import numpy as np
from harness import common as C
from harness import fm_common as FM

RULE = ('real TransmissionModel (compact and inflated atmospheres: top at 0.01..several Rp), 2-40 layers, 1-6 wavenumbers, 1-4 trace gases with in-memory tables whose magnitude '
        'is drawn per case from {0, 1e-40..1e-34, 1e-28..1e-22, 1e-18..1} m2, isothermal/array/NPoint temperatures, '
        'optional CIA/Rayleigh/cloud/flat haze/Lee haze, both path methods; every 5th case reuses ONE model object '
        'across 2-3 parameter changes through model[name]=value (T, Rp, Mp, pressure range, abundances, cloud top - half of the time '
        'stepped exactly onto a layer pressure). Quotas, one case in ten each: molecules tabulated on wavenumber grids of their OWN '
        '(3-8 points; as many points as the native grid between the same limits / shifted by a fraction of the spacing / fewer points '
        'off the native ones / the mid-points) and a cloud deck whose top is exactly on / one ulp above / one ulp below a layer pressure, '
        'on a level, outside the grid; for every case the absorption cross-section on the grid of the run is rebuilt from the molecules\' '
        'own tables by the Lean model (AbsorptionGrid.absSigma) and the cloud deck is tau = inf for P >= P0 (Haze.cloudSigma), compared '
        'with the prepared contributions, and the documented integral is evaluated with them; one case in ten has abundance '
        'profiles that are EXACTLY zero in some layers and not in others (zero aloft / below / in one layer / in scattered layers) '
        'for an absorbing trace gas and for an added scatter-only gas (N2 / O2) at 5-40 %, with Rayleigh scattering present, '
        'wavenumbers 5000-30000 cm-1 and a surface pressure of 1e5-1e7 Pa; the Rayleigh and CIA cross-sections are rebuilt '
        'from the per-molecule laws / per-pair tables and the abundances of each layer by the Lean model '
        '(AbsorptionGrid.scaledSigma / ciaSigma), compared with the prepared contributions, and enter the documented integral; '
        'one case in ten has tables whose wavenumber AXIS is stored as an integer array (int64 / int32 / uint16: whole '
        'wavenumbers, the native grid then has that dtype); one case in ten (and every second integer-axis case, and every third re-used '
        'object) also evaluates the two other routes that return transit depths - model_contrib() per contribution and '
        'model_full_contrib() per component (>= 2 molecules, Rayleigh scattering present) - each judged against the Lean depth / '
        'transmittance of that opacity alone (component cross-sections rebuilt from that species\' table x abundance) and '
        'against the documented integral. '
        'distinct non-trivial = distinct '
        '(layers, contribution multiset, regime, method) with at least one column neither transparent nor saturated')
USES_MODELS = ['C19']
ASSUMPTIONS = ['3-D line/sphere geometry (taurex/util/geometry.py): modelled step by step (Geometry.lean), proved equal to '
               'the closed-form chord differences (path3d_eq_chordNew); model.path_length is compared with both (rel '
               '1e-9 + 1e-11 of the total chord); NaN of sqrt(negative discriminant) + np.isfinite = the test 0 <= delta '
               '(source tie: C01Src.src_planet_paths proves the regenerated geometry.py / BasePlanet.compute_path_length equal '
               'to Geometry.pathRow3d with exactly this instantiation of np.isfinite as hypothesis; the body of the '
               'planet-crossing branch of compute_intersection_3d is abstract there, its test is not)',
               'numba kernels contribute_tau/contribute_cia and np.sum/np.exp behave as documented; rounding not '
               'modelled: tau compared to 1e-9 relative (transmittance to 1e-9*(1+tau))',
               'contribution sigma_xsec arrays are taken from the real prepared contributions (their construction is '
               'C03/C04/C19), EXCEPT the two the documented integral names directly: the absorption cross-section on the grid '
               'of the run is rebuilt from each molecule\'s values on its OWN wavenumber grid (compute_opacity at the layer\'s '
               '(T, P): C04; mixing ratios: C10) by the Lean model AbsorptionGrid.absSigma (own points selected, other points '
               'interpolated between the bracketing native points), and the cloud deck is tau = inf for P >= P0 (Haze.cloudSigma, '
               'driver of C19); the Rayleigh cross-section is sum over ALL molecules of the atmosphere that have a Rayleigh law '
               '(taurex.util.scattering.rayleigh_sigma_from_name: given) of law(wn) x abundance in the layer, the CIA '
               'cross-section sum over the pairs of cia(T_l, wn) (the cache object\'s value: given) x both partners\' abundances in '
               'the layer (AbsorptionGrid.scaledSigma / ciaSigma); abundances are the rows of the chemistry\'s published '
               'activeGasMixProfile / inactiveGasMixProfile; the documented integral is evaluated with these',
               'licensed deviation: a layer row may differ from the uncut integral only if every wavenumber of the row '
               'is below exp(-10) and not below the uncut transmittance']

# ---- source tie (harness/translate.py, dialect 'shaped' = harness/translate_shaped.py): the functions below are
# re-translated on every run into lean/TaurexModel/Gen/SrcC01.lean; lean/Props/C01Src.lean proves each equal to the model.
_TM = 'taurex/model/transmission.py'
_CT = 'taurex/contributions/contribution.py'
_CIA = 'taurex/contributions/cia.py'
_GEO = 'taurex/util/geometry.py'
_KERNEL = dict(startK='nat', endK='nat', density_offset='nat', sigma='arr2', density='arr', path='arr', nlayers='skip',
               ngrid='nat', layer='nat', tau='arr2')
_TM_ATTRS = {'self._planet.fullRadius': ('rp', 's'), 'self._star.radius': ('rs', 's'), 'self.nLayers': ('nL', 'nat'),
             'self.altitudeProfile': ('zprof', 'arr'), 'self.deltaz': ('deltaz', 'arr'),
             'self.densityProfile': ('dens', 'arr'), 'self.new_method': ('newMethod', 'bool')}
SRC_SPECS = [
    # the numba kernel: both loops (k and wn) are translated; `tau` is mutated in place, the result is its final value
    dict(module=_CT, func='contribute_tau', lean='contribute_tau', dialect='shaped', params=_KERNEL, out='tau',
         returns='arr2'),
    # Contribution.contribute: passes self.sigma_xsec / self._ngrid to the kernel
    dict(module=_CT, cls='Contribution', func='contribute', lean='contribution_contribute', dialect='shaped',
         params=dict(model='skip', start_layer='nat', end_layer='nat', density_offset='nat', layer='nat', density='arr',
                     tau='arr2', path_length='arr'),
         attrs={'self.sigma_xsec': ('sigma', 'arr2'), 'self._ngrid': ('ngrid', 'nat'), 'self._nlayers': ('nlayers', 'nat')},
         out='tau', returns='arr2'),
    # the other two kernels `path_integral` dispatches to (model kinds `sq` and `layerOnly`)
    dict(module=_CIA, func='contribute_cia', lean='contribute_cia', dialect='shaped', params=_KERNEL, out='tau',
         returns='arr2'),
    dict(module=_CIA, cls='CIAContribution', func='contribute', lean='cia_contribute', dialect='shaped',
         params=dict(model='skip', start_layer='nat', end_layer='nat', density_offset='nat', layer='nat', density='arr',
                     tau='arr2', path_length='arr'),
         attrs={'self.sigma_xsec': ('sigma', 'arr2'), 'self._ngrid': ('ngrid', 'nat'), 'self._nlayers': ('nlayers', 'nat'),
                'self._total_cia': ('totalCia', 'nat')},
         out='tau', returns='arr2'),
    dict(module='taurex/contributions/simpleclouds.py', cls='SimpleCloudsContribution', func='contribute',
         lean='clouds_contribute', dialect='shaped',
         params=dict(model='skip', start_layer='skip', end_layer='skip', density_offset='skip', layer='nat',
                     density='skip', tau='arr2', path_length='skip'),
         attrs={'self.sigma_xsec': ('sigma', 'arr2')}, dims={'tau': ['nL', 'nW'], 'self.sigma_xsec': ['nL', 'nW']},
         out='tau', returns='arr2'),
    dict(module=_TM, cls='TransmissionModel', func='compute_path_length_old', callname='self.compute_path_length_old',
         lean='compute_path_length_old', dialect='shaped', params=dict(dz='arr'), attrs=_TM_ATTRS,
         dims={'self.altitudeProfile': ['nL'], 'dz': ['nL']}, returns='arrlist'),
    dict(module=_TM, cls='TransmissionModel', func='compute_absorption', callname='self.compute_absorption',
         lean='compute_absorption', dialect='shaped', params=dict(tau='arr2', dz='arr'), attrs=_TM_ATTRS,
         dims={'self.altitudeProfile': ['nL'], 'dz': ['nL'], 'tau': ['nL', 'nW']}, returns=['arr', 'arr2']),
    # new path method: the ray origins / tangent points handed to the 3-D geometry
    dict(module='taurex/util/geometry.py', func='parallel_vector', lean='parallel_vector', dialect='shaped',
         params=dict(R='s', alt='arr', max_alt='s'), lens={'alt': 'nA'}, dims={'alt': ['nA']},
         static={"hasattr(alt, '__len__')": True}, returns=['arr2', 'arr2']),
    dict(module=_TM, cls='TransmissionModel', func='compute_path_length', callname='self.compute_path_length',
         lean='compute_path_length', dialect='shaped',
         params={}, attrs={'self.altitude_boundaries': ('zb', 'arr'), 'self.planet.fullRadius': ('rp', 's'),
                           'self.altitude_profile': ('zprof', 'arr'), 'self.deltaz': ('deltaz', 'arr')},
         dims={'self.altitude_boundaries': ['(nL + 1)'], 'self.altitude_profile': ['nL'], 'self.deltaz': ['nL']},
         call_list_externals={'self.planet.compute_path_length': dict(lean='planetPaths', kinds=['arr', 'arr2', 'arr2'],
                                                                     elem=['skip', 'arr'])},
         returns='arrlist'),
    # the whole path_integral: the loop over layers, the loop over the contribution list with its `tau[layer].min() > 10`
    # break; `contrib.contribute` (dynamic dispatch) and `planet.compute_path_length` (the 3-D geometry of the new path
    # method) are parameters.  (`self.planet.fullRadius` / `self._planet.fullRadius` and `self.altitude_profile` /
    # `self.altitudeProfile` are the same attributes read through a property and directly: one parameter each.)
    dict(module=_TM, cls='TransmissionModel', func='path_integral', lean='path_integral', dialect='shaped',
         params=dict(wngrid='skip', return_contrib='skip'), lens={'wngrid': 'nW'}, attrs=_TM_ATTRS,
         dims={'self.deltaz': ['nL'], 'self.densityProfile': ['nL']},
         objlists={'self.contribution_list': 'contribs'},
         methods={'contribute': dict(lean='contribute', kinds=['skip', 'nat', 'nat', 'nat', 'nat', 'arr', 'arr2'],
                                     kw={'path_length': 'arr'}, mutates='tau')},
         ignore_stores=['self.path_length'],
         returns=['arr', 'arr2']),
    # ---- the 3-D line/sphere geometry behind `new_path_method=True` (model: TaurexModel/Geometry.lean).  Arrays of vectors
    # are `(3, nR)` (one column per line of sight), heights `(nH,)`.  `assume`: the value of a parameter the translation is
    # specialised to (the value every caller passes / the default); `static`: tests decided by the calling pattern (numpy
    # arrays are passed, cartesian coordinates).  `np.nan` / `np.isfinite` are not notions of the carrier: parameters `nan`,
    # `isfinite` (the tie states the instantiation: a sphere's distance is finite exactly when its discriminant is >= 0).
    dict(module=_GEO, func='normalize', lean='normalize', dialect='shaped', params=dict(v='arr2', axis='skip'),
         assume={'axis': 0}, dims={'v': ['3', 'nR']}, returns='arr2', ret_dims=['3', 'nR']),
    dict(module=_GEO, func='compute_line_3d', lean='compute_line_3d', dialect='shaped',
         params=dict(v='arr2', t='arr2', axis='skip'), assume={'axis': 0}, dims={'v': ['3', 'nR'], 't': ['3', 'nR']},
         returns=['arr2', 'arr2'], ret_dims=[['3', 'nR'], ['3', 'nR']]),
    dict(module=_GEO, func='multi_dot', lean='multi_dot', dialect='shaped', params=dict(a='arr2', b='arr2'),
         dims={'a': ['3', 'nR'], 'b': ['3', 'nR']}, returns='arr', ret_dims=['nR']),
    # compute_intersection_3d: everything but the body of the "planet crossing" branch, which is an abstract function
    # `crossing` of the variables it reads (its TEST is translated; the model and the theorems are for rays that do not cross
    # the planet, where the branch is not entered)
    dict(module=_GEO, func='compute_intersection_3d', lean='compute_intersection_3d', dialect='shaped',
         params=dict(R='s', h='arr', u='arr2', o='arr2', c='skip', allow_single='skip'), assume={'allow_single': False},
         dims={'h': ['nH'], 'u': ['3', 'nR'], 'o': ['3', 'nR']},
         static={"hasattr(h, '__len__')": True, 'len(u.shape) == 1': False},
         ignore_stmts=['tang = np.where(filt)[0]'], opaque_if={'filt.sum() > 0': 'crossing'},
         returns='optarr4', ret_dims=['2', '3', 'nH', 'nR']),
    dict(module=_GEO, func='compute_path_length_3d', lean='compute_path_length_3d', dialect='shaped',
         params=dict(R='s', altitudes='arr', viewer='arr2', tangent='arr2', coordinates='skip'),
         assume={'coordinates': 'cartesian'}, dims={'altitudes': ['nH'], 'viewer': ['3', 'nR'], 'tangent': ['3', 'nR']},
         static={"hasattr(altitudes, '__len__')": True, 'isinstance(coordinates, (list, tuple))': False,
                 "coordinates[0] in 'spherical'": False, "coordinates[1] in 'spherical'": False,
                 'len(_viewer.shape) == 1': False},
         ignore_stmts=['coordinates = [coordinates, coordinates]', 'good_indices = np.where(layer_filt)[0]'],
         tuple_appends={'all_distances': ['skip', 'larr']}, returns='optlarrlist'),
    dict(module='taurex/data/planet.py', cls='BasePlanet', func='compute_path_length', lean='planet_compute_path_length',
         callname='self.planet.compute_path_length__3d', dialect='shaped',
         params=dict(altitudes='arr', viewer='arr2', tangent='arr2', vector_coord_sys='skip'),
         assume={'vector_coord_sys': 'cartesian'}, attrs={'self.fullRadius': ('rp', 's')},
         dims={'altitudes': ['nH'], 'viewer': ['3', 'nR'], 'tangent': ['3', 'nR']}, returns='optlarrlist'),
]

E10 = math.exp(-10.0)
KINDS = {'CIAContribution': 1, 'SimpleCloudsContribution': 2}


# ------------------------------------------------------------------------------------------- numpy oracle

def _invalid_params(ctx, e):
    """a parameter set the model itself rejects as invalid (InvalidModelException and subclasses) is outside every
    property's quantifier: recorded in the malformed stream, never judged"""
    from taurex.exceptions import InvalidModelException
    if isinstance(e, InvalidModelException):
        ctx.malformed_outcome('invalid-model-after-setters:' + type(e).__name__)
        return True
    return False

def chords_old(rp, z, dz):
    n = len(z)
    rows = []
    for l in range(n):
        base = rp + dz[0] / 2
        p = (base + z[l]) ** 2
        mid = np.sqrt(np.maximum((base + z[l:] + dz[l:] / 2) ** 2 - p, 0.0))
        rows.append(2 * np.diff(np.concatenate([[0.0], mid])))
    return rows


def chords_new(rp, zb, z, dz):
    n = len(z)
    rows = []
    for l in range(n):
        b = rp + z[l] + dz[l] / 2
        d = 2 * np.sqrt(np.maximum((rp + zb[l + 1:]) ** 2 - b ** 2, 0.0))
        rows.append(np.diff(np.concatenate([[0.0], d])))
    return rows


def tau_full(paths, dens, contribs):
    """documented integral: sum over contributions of sum_k sigma[l+k] * path_l[k] * dens[l+k] (dens^2 for CIA)"""
    n = len(dens)
    nwn = contribs[0][1].shape[1] if contribs else 1
    tau = np.zeros((n, nwn))
    with np.errstate(invalid='ignore'):
        for kind, sig in contribs:
            for l in range(n):
                if kind == 2:
                    tau[l] += sig[l]
                else:
                    w = paths[l] * dens[l:] ** (2 if kind == 1 else 1)
                    tau[l] += (sig[l:] * w[:, None]).sum(axis=0)
    return tau


def doc_depth(rp, rs, z, dz, trans):
    return (rp ** 2 + (2 * (rp + z)[:, None] * (1 - trans) * dz[:, None]).sum(axis=0)) / rs ** 2


# ------------------------------------------------------------------------------------------- generation
CONTRIB_CHOICES = ['cia', 'rayleigh', 'clouds', 'flatmie', 'leemie']


def layer_pressures(nl, pmin, pmax):
    """(levels, layer pressures) of the atmosphere as the model's own SimplePressureProfile computes them"""
    from taurex.data.profiles.pressure import SimplePressureProfile
    pp = SimplePressureProfile(nlayers=int(nl), atm_min_pressure=float(pmin), atm_max_pressure=float(pmax))
    pp.compute_pressure_profile()
    return np.array(pp.pressure_profile_levels, float), np.array(pp.profile, float)


CLOUD_TOPS = ['between-layers', 'on-layer', 'ulp-above-layer', 'ulp-below-layer', 'on-level', 'outside-grid']


def cloud_top(rng, spec, cls):
    """cloud-top pressure of a given class relative to the layer pressures of the atmosphere"""
    lev, P = layer_pressures(spec['nlayers'], spec['pmin'], spec['pmax'])
    i = int(rng.integers(0, len(P)))
    if cls == 'on-layer':
        return float(P[i])
    if cls == 'ulp-above-layer':
        return float(np.nextafter(P[i], np.inf))
    if cls == 'ulp-below-layer':
        return float(np.nextafter(P[i], 0.0))
    if cls == 'on-level':
        return float(lev[int(rng.integers(0, len(lev)))])
    if cls == 'outside-grid':
        return float(spec['pmax'] * 10 ** rng.uniform(0.01, 2)) if rng.random() < 0.5 else float(spec['pmin'] * 10 ** rng.uniform(-2, -0.01))
    return float(spec['pmin'] * (spec['pmax'] / spec['pmin']) ** rng.uniform(0.0, 1.0))


GRID_CLASSES = ['equal-count-inside', 'equal-count-shifted', 'fewer-points-off-native', 'interleaved']


def regrid(rng, spec, cls):
    """put every molecule but the first on a wavenumber grid of its own that is NOT a sub-sample of the first one's: as many
    points between the same limits, as many points shifted beyond one end, fewer points off the native ones, or the
    mid-points.  Tables are redrawn with the shape of the new grid (same magnitude regime)."""
    wn = np.asarray(spec['opacities'][0]['wn'], float)
    nw = len(wn)
    r = FM.REGIMES[spec['regime']]
    for i, o in enumerate(spec['opacities']):
        if i == 0:
            continue
        inner = np.sort(rng.uniform(wn[0], wn[-1], size=max(nw - 2, 0)))
        if cls == 'equal-count-inside':
            gw = np.concatenate([[wn[0]], inner, [wn[-1]]]) if rng.random() < 0.5 else \
                np.sort(rng.uniform(wn[0], wn[-1], size=nw))
        elif cls == 'equal-count-shifted':
            sh = float(rng.uniform(0.1, 0.9)) * float(np.min(np.diff(wn))) * (1 if rng.random() < 0.5 else -1)
            gw = wn + sh
        elif cls == 'fewer-points-off-native':
            m = int(rng.integers(2, nw))
            gw = np.sort(rng.uniform(wn[0] - 5.0, wn[-1] + 5.0, size=m))
        else:
            gw = (wn[:-1] + wn[1:]) / 2
        gw = np.unique(gw)
        new = FM.gen_opacity(rng, o['mol'], gw, r[0], r[1], nT=len(o['t']), nP=len(o['p']))
        o['wn'], o['xsec'] = new['wn'], new['xsec']
        o['t'], o['p'] = new['t'], new['p']
    spec['grid_class'] = cls
    return spec


AXIS_DTYPES = ['int64', 'int32', 'int64', 'uint16', 'int64']      # (whole numbers: the stored values are the same numbers)


def whole_wavenumbers(rng, spec, dtype):
    """every table of `spec` on ONE grid of whole wavenumbers (300..30000 cm-1) whose axis is stored as `dtype`"""
    n = len(spec['opacities'][0]['wn'])
    wn = np.sort(rng.choice(np.arange(300.0, 30000.0, 7.0), size=n, replace=False))
    for o in spec['opacities']:
        o['wn'] = wn.copy()
        o['wn_dtype'] = dtype
    spec['axis_dtype'] = dtype
    return spec


ZERO_PATTERNS = ['zero-aloft', 'zero-below', 'zero-in-one-layer', 'zero-aloft', 'zero-in-scattered-layers']
SCATTER_ONLY = ['N2', 'O2']          # molecules with a Rayleigh law and no opacity table in these runs: never active


def zero_mask(rng, nl, pattern):
    z = np.zeros(nl, bool)
    if nl < 2:
        return z
    if pattern == 'zero-aloft':
        z[int(rng.integers(1, nl)):] = True
    elif pattern == 'zero-below':
        z[:int(rng.integers(1, nl))] = True
    elif pattern == 'zero-in-one-layer':
        z[int(rng.integers(0, nl))] = True
    else:
        z = rng.random(nl) < 0.4
        z[int(rng.integers(0, nl))] = True
        z[(int(np.argmax(z)) + 1) % nl] = False
    return z


def visible_scattering(rng, spec):
    """move the run to where Rayleigh scattering has an optical depth that matters: wavenumbers 5000-30000 cm-1 (2 - 0.33
    micron) and a surface pressure of 1e5..1e7 Pa (both limits of the pressure range scaled by one factor, so the extent of
    the atmosphere is unchanged)"""
    wn = np.asarray(spec['opacities'][0]['wn'], float)
    new = np.sort(rng.choice(np.arange(5000.0, 30000.0, 7.0), size=len(wn), replace=False)) + float(rng.random())
    for o in spec['opacities']:
        o['wn'] = new.copy()
    f = float(10 ** rng.uniform(5, 7)) / spec['pmax']
    spec['pmin'], spec['pmax'] = spec['pmin'] * f, spec['pmax'] * f
    if spec['temperature'].get('pressure_points'):
        spec['temperature']['pressure_points'] = [float(x) * f for x in spec['temperature']['pressure_points']]
    return spec


def zero_profiles(rng, spec, pattern):
    """give the atmosphere of `spec` species whose abundance is exactly zero in some layers: one of the absorbing trace gases
    and an added scatter-only gas (N2 / O2: Rayleigh law, no table), both with substantial abundance where present"""
    nl = spec['nlayers']
    g = spec['gases'][int(rng.integers(0, len(spec['gases'])))]
    prof = 10 ** rng.uniform(-4, -1.5, size=nl)
    prof[zero_mask(rng, nl, pattern)] = 0.0
    g['type'], g['mix'] = 'array', prof
    mol = SCATTER_ONLY[int(rng.integers(0, len(SCATTER_ONLY)))]
    prof2 = rng.uniform(0.05, 0.4, size=nl)
    prof2[zero_mask(rng, nl, pattern)] = 0.0
    spec['gases'].append(dict(mol=mol, type='array', mix=prof2))
    spec['zero_layers_class'] = pattern
    return spec


def gen_case(rng, k):
    regime = ['zero', 'thin', 'mid', 'thick'][k % 4]
    nl = int(rng.integers(2, 41)) if rng.random() < 0.8 else int(rng.integers(2, 5))
    # quota of inflated atmospheres (top at 0.4 .. several Rp), mostly with the 3-D geometry path method
    ext = bool((k // 8) % 3 == 2)
    # quota (one case in ten): molecules tabulated on wavenumber grids of their OWN (not sub-samples of one another)
    own_grids = k % 10 == 3
    zero_layers = k % 10 == 5
    # quota (one case in ten): the wavenumber AXIS of the tables is stored with an integer / single-precision dtype (whole
    # wavenumbers: np.arange grids, text loaders, user-made files); the numbers are the same, so is the documented integral
    axis_dtype = k % 10 == 1
    # quota (one case in ten): the per-contribution / per-component routes (model_contrib, model_full_contrib) return
    # transit depths too - of the atmosphere in which only that source / component absorbs; >= 2 molecules, Rayleigh present
    breakdown = k % 10 == 6
    if axis_dtype:
        regime = ['thin', 'mid', 'thick', 'mid', 'thin'][(k // 10) % 5]
        spec = FM.gen_spec(rng, nlayers=nl, nwn=int(rng.integers(2, 8)), regime=regime, same_grid=True, extended=ext)
        whole_wavenumbers(rng, spec, AXIS_DTYPES[(k // 10) % len(AXIS_DTYPES)])
    elif breakdown:
        regime = ['mid', 'thin', 'thick'][(k // 10) % 3]
        vis = bool((k // 10) % 2)
        spec = FM.gen_spec(rng, nlayers=nl, ngas=int(rng.integers(2, 5)), regime=regime,
                           same_grid=vis or bool(rng.random() < 0.8), extended=ext)
        if vis:
            visible_scattering(rng, spec)
        spec['breakdown'] = True
    elif own_grids:
        regime = ['thin', 'mid', 'thick'][(k // 10) % 3]
        spec = FM.gen_spec(rng, nlayers=nl, nwn=int(rng.integers(3, 9)), ngas=int(rng.integers(2, 5)), regime=regime,
                           same_grid=True, extended=ext)
        spec = regrid(rng, spec, GRID_CLASSES[(k // 10) % 4])
    elif zero_layers:
        # (the tables are at most of the order of the scattering: a saturated molecular band would hide it)
        regime = ['thin', 'zero', 'mid', 'thin'][(k // 10) % 4]
        spec = FM.gen_spec(rng, nlayers=max(nl, 3), regime=regime, same_grid=True, extended=ext)
        visible_scattering(rng, spec)
    else:
        spec = FM.gen_spec(rng, nlayers=nl, regime=regime, same_grid=bool(rng.random() < 0.8), extended=ext)
    spec['new_path_method'] = bool((k // 4) % 2) or (ext and bool(rng.random() < 0.5))
    # quota (one case in ten): abundance profiles that are EXACTLY zero in some layers and not in others (a species confined
    # below a cold trap, a chemistry table with zeros aloft, a detached layer), for absorbing molecules and for molecules
    # that only scatter; Rayleigh scattering is then always among the contributions
    if zero_layers:
        zero_profiles(rng, spec, ZERO_PATTERNS[(k // 10) % len(ZERO_PATTERNS)])
    cs = []
    if rng.random() < 0.9:
        cs.append(dict(type='absorption'))
    extra = [c for c in CONTRIB_CHOICES if rng.random() < 0.3]
    if zero_layers or breakdown:
        extra = [c for c in extra if c != 'rayleigh'] + ['rayleigh']
    if axis_dtype and (k // 10) % 2 == 0:
        spec['breakdown'] = True
    # quota (one case in ten): a grey cloud deck whose top is placed relative to the LAYER pressures of the atmosphere
    deck = k % 10 == 7
    if (own_grids or breakdown or axis_dtype) and 'absorption' not in [c['type'] for c in cs]:
        cs.append(dict(type='absorption'))
    if deck:
        extra = [c for c in extra if c != 'clouds'] + ['clouds']
    if regime == 'zero':
        # nothing (but the deck / the Rayleigh scattering of the zero-layer quota) absorbs: zero tables only
        extra = [c for c in extra if c == 'cia' or (deck and c == 'clouds') or (zero_layers and c == 'rayleigh')]
    for c in extra:
        if c == 'cia':
            if spec['cia']:
                cs.append(dict(type='cia', pairs=[x['pair'] for x in spec['cia']]))
        elif c == 'rayleigh':
            cs.append(dict(type='rayleigh'))
        elif c == 'clouds' and deck:
            cls = ['on-layer', 'ulp-above-layer', 'on-layer', 'ulp-below-layer', 'on-level', 'on-layer', 'outside-grid',
                   'between-layers'][(k // 10) % 8]
            cs.append(dict(type='clouds', clouds_pressure=cloud_top(rng, spec, cls)))
            spec['cloud_top_class'] = cls
        elif c == 'clouds':
            cs.append(dict(type='clouds', clouds_pressure=float(spec['pmin'] * (spec['pmax'] / spec['pmin']) **
                                                                rng.uniform(-0.2, 1.2))))
        elif c == 'flatmie':
            cs.append(dict(type='flatmie', flat_mix_ratio=float(10 ** rng.uniform(-32, -18)),
                           flat_bottomP=-1 if rng.random() < 0.5 else float(spec['pmax'] * 10 ** rng.uniform(-3, 0)),
                           flat_topP=-1 if rng.random() < 0.5 else float(spec['pmin'] * 10 ** rng.uniform(0, 3))))
        elif c == 'leemie' and not any(x['type'] == 'flatmie' for x in cs):
            cs.append(dict(type='leemie', lee_mie_radius=float(10 ** rng.uniform(-2, 0)), lee_mie_q=float(rng.uniform(1, 60)),
                           lee_mie_mix_ratio=float(10 ** rng.uniform(-18, -6)),
                           lee_mie_bottomP=-1 if rng.random() < 0.5 else float(spec['pmax'] * 10 ** rng.uniform(-3, 0)),
                           lee_mie_topP=-1 if rng.random() < 0.5 else float(spec['pmin'] * 10 ** rng.uniform(0, 3))))
    order = rng.permutation(len(cs))
    spec['contributions'] = [cs[i] for i in order]
    if regime in ('mid', 'thick') and k % 8 >= 4 and rng.random() < 0.7:
        # early-exit class: a grey haze strong enough to push whole rows above tau = 10 on its own, inserted
        # *before* the absorbers, so that the break skips them (licensed) in some layers and not in others
        lo, hi = spec['pmin'], spec['pmax']
        haze = dict(type='flatmie', flat_mix_ratio=float(10 ** rng.uniform(-29, -24)),
                    flat_bottomP=float(hi * 10 ** rng.uniform(-2, 0)), flat_topP=float(lo * 10 ** rng.uniform(0, 2)))
        spec['contributions'] = [haze] + [c for c in spec['contributions'] if c['type'] not in ('flatmie', 'leemie')]
        spec['cutoff_class'] = True
    return spec


def scaled_spec(spec, c):
    s = dict(spec)
    s['opacities'] = [dict(o, xsec=np.asarray(o['xsec'], float) * c) for o in spec['opacities']]
    s['cia'] = [dict(o, xsec=np.asarray(o['xsec'], float) * c) for o in spec['cia']]
    cs = []
    for x in spec['contributions']:
        x = dict(x)
        if x['type'] == 'flatmie':
            x['flat_mix_ratio'] = x['flat_mix_ratio'] * c
        if x['type'] == 'leemie':
            x['lee_mie_mix_ratio'] = x['lee_mie_mix_ratio'] * c
        cs.append(x)
    s['contributions'] = cs
    return s


def small(spec):
    return dict(nlayers=spec['nlayers'], regime=spec.get('regime'), new_path_method=spec['new_path_method'],
                contributions=[c['type'] for c in spec['contributions']], temperature=spec['temperature']['type'],
                ngas=len(spec['gases']), pmin=spec['pmin'], pmax=spec['pmax'], planet_radius=spec['planet_radius'],
                planet_mass=spec['planet_mass'], star_radius=spec['star_radius'], grid_class=spec.get('grid_class'),
                cloud_top_class=spec.get('cloud_top_class'), zero_layers_class=spec.get('zero_layers_class'),
                axis_dtype=spec.get('axis_dtype'), breakdown=spec.get('breakdown'))


def trans_close(a, b, rel=1e-9):
    """transmittances agree when the optical depths agree to `rel` (plus underflow floor)"""
    a = np.asarray(a, float)
    b = np.asarray(b, float)
    with np.errstate(divide='ignore'):
        tau = np.where(b > 0, -np.log(np.maximum(b, 1e-320)), 745.0)
    return bool(np.all(np.abs(a - b) <= rel * (1 + np.abs(tau)) * np.maximum(a, b) + 1e-300))


def observe(m):
    """run the model object as it is now and collect what the kernels used"""
    wn, depth, trans, _ = m.model()
    p = FM.profiles(m)
    contribs = [(KINDS.get(type(c).__name__, 0), np.array(c.sigma_xsec, float)) for c in m.contribution_list]
    return np.asarray(wn, float), np.asarray(depth, float), np.asarray(trans, float), p, contribs


def documented_sigmas(ctx, m, spec, wn, p, contribs, case):
    """the cross-sections the documented integral names, built WITHOUT the contribution objects: for the absorption
    contribution sum_gas xsec_gas(T_l, P_l)(wn) * mix_gas[l], every molecule read on its own wavenumber grid and carried to
    the grid of the run by the Lean model (AbsorptionGrid.absSigma); for the grey cloud deck tau = inf where P >= P0.  The
    real contributions' sigma_xsec are compared with them (mismatch); the list returned has them substituted."""
    from taurex.cache import OpacityCache
    out = list(contribs)
    cloud_model = None
    n = p['nlayers']
    for i, c in enumerate(m.contribution_list):
        name = type(c).__name__
        if name == 'AbsorptionContribution':
            gases = []
            kinds = set()
            for g in m.chemistry.activeGases:
                op = OpacityCache()[g]
                gw = np.asarray(op.wavenumberGrid, float)
                vals = [np.asarray(op.opacity(float(t), float(pr)), float) for t, pr in zip(p['T'], p['P'])]
                gases.append((gw, vals, np.asarray(m.chemistry.get_gas_mix_profile(g), float)))
                inside = gw[(gw >= wn.min()) & (gw <= wn.max())]
                kinds.add('same' if np.array_equal(gw, wn) else 'own-points-selected' if np.array_equal(inside, wn) else
                          'equal-count-other-points' if len(inside) == len(wn) else 'interpolated')
            d = ctx.model().call('c01.abssigma', C.N(n), C.L(wn),
                                 C.L(gases, lambda g: C.L(g[0]) + ' ' + C.LL([v.tolist() for v in g[1]]) + ' ' + C.L(g[2])))
            doc = np.array(d.list(lambda: d.list()), float).reshape(n, len(wn))
            for kk in kinds:
                ctx.bucket('table-grid-vs-run-grid:' + kk)
            ctx.disagreements_checked += 1
            if not C.close(np.ravel(contribs[i][1]), np.ravel(doc), rel=1e-9, abs_=1e-300):
                ctx.mismatch('AbsorptionContribution.sigma_xsec vs AbsorptionGrid.absSigma (tables on their own grids)', case,
                             dict(impl=contribs[i][1][:3], model=doc[:3], wn=wn, grids=[g[0] for g in gases]))
            out[i] = (contribs[i][0], doc)
        elif name == 'SimpleCloudsContribution':
            p0 = [x for x in spec['contributions'] if x['type'] == 'clouds'][0]['clouds_pressure']
            doc = np.where((p['P'] >= p0)[:, None], np.inf, 0.0) * np.ones((n, len(wn)))
            doc[np.isnan(doc)] = 0.0
            P = p['P']
            ctx.bucket('cloud-top:' + ('on-layer' if np.any(P == p0) else 'ulp-off-layer' if
                                       np.any((np.nextafter(P, np.inf) == p0) | (np.nextafter(P, 0.0) == p0)) else
                                       'outside-grid' if (p0 > P[0] or p0 < P[-1]) else 'between-layers'))
            # the Lean model of the deck (C19's driver): exp(-tau) and depth of [deck] ++ the other contributions
            rest = [ks for j, ks in enumerate(contribs) if j != i]
            new = bool(spec['new_path_method'])
            d = ctx.model('C19').call('c19.cloud', C.N(1 if new else 0), C.F(p['rp']), C.F(p['rs']), C.L(p['z']), C.L(p['dz']),
                                      C.L(p['zb']), C.L(p['density']), C.N(len(wn)), C.L(P), C.F(p0),
                                      C.L(rest, lambda ks: C.N(ks[0]) + ' ' + C.LL(ks[1].tolist())))
            mtr = np.array(d.list(lambda: d.list()), float).reshape(n, len(wn))
            mdepth = np.array(d.list(), float)
            ctx.disagreements_checked += 1
            with np.errstate(over='ignore'):
                if i != 0 or not np.array_equal(np.exp(-contribs[i][1]) == 0.0, np.exp(-doc) == 0.0):
                    ctx.mismatch('SimpleClouds.sigma_xsec vs Haze.cloudSigma (opaque exactly where P >= P0; first in the list)',
                                 case, dict(p0=p0, P=P, impl_opaque=np.all(np.exp(-contribs[i][1]) == 0.0, axis=1),
                                            model_opaque=(P >= p0), position=i))
            out[i] = (contribs[i][0], doc)
            cloud_model = (mtr, mdepth, P >= p0)
        elif name == 'RayleighContribution':
            # every molecule of the atmosphere (absorbing or not) that has a Rayleigh law, weighted LAYER BY LAYER with its
            # abundance: sum_mol law_mol(wn) * mix_mol[l] (AbsorptionGrid.scaledSigma)
            from taurex.util.scattering import rayleigh_sigma_from_name
            mols = []
            for g in list(m.chemistry.activeGases) + list(m.chemistry.inactiveGases):
                law = rayleigh_sigma_from_name(g, wn)
                if law is not None:
                    mols.append((str(g), np.asarray(law, float), chem_mix(m.chemistry, g)))
            d = ctx.model().call('c01.scaledsigma', C.N(n), C.N(len(wn)), C.LL([x[1] for x in mols]),
                                 C.LL([x[2] for x in mols]))
            doc = np.array(d.list(lambda: d.list()), float).reshape(n, len(wn))
            for _, _, mx in mols:
                ctx.bucket('rayleigh-gas-profile:' + zero_pattern(mx))
            ctx.disagreements_checked += 1
            sc = float(np.max(np.abs(doc))) if doc.size else 0.0
            if contribs[i][1].shape != doc.shape or not C.close(np.ravel(contribs[i][1]), np.ravel(doc), rel=1e-9,
                                                               abs_=1e-15 * sc):
                ctx.mismatch('RayleighContribution.sigma_xsec vs AbsorptionGrid.scaledSigma (law x abundance of the layer)',
                             case, dict(impl=contribs[i][1][:, :1], model=doc[:, :1], molecules=[x[0] for x in mols],
                                        profiles=[zero_pattern(x[2]) for x in mols]))
            out[i] = (contribs[i][0], doc)
        elif name == 'CIAContribution' and len(c.ciaPairs) > 0:
            from taurex.cache import CIACache
            pairs = [str(pr) for pr in c.ciaPairs]
            xs = [[np.asarray(CIACache()[pr].cia(float(t), wn), float) for t in p['T']] for pr in pairs]
            m1 = [chem_mix(m.chemistry, pr.split('-')[0]) for pr in pairs]
            m2 = [chem_mix(m.chemistry, pr.split('-')[1]) for pr in pairs]
            d = ctx.model().call('c01.ciasigma', C.N(n), C.N(len(wn)), C.LLL(xs), C.LL(m1), C.LL(m2))
            doc = np.array(d.list(lambda: d.list()), float).reshape(n, len(wn))
            ctx.bucket('cia-sigma-rebuilt')
            ctx.disagreements_checked += 1
            sc = float(np.max(np.abs(doc))) if doc.size else 0.0
            if contribs[i][1].shape != doc.shape or not C.close(np.ravel(contribs[i][1]), np.ravel(doc), rel=1e-9,
                                                               abs_=1e-15 * sc):
                ctx.mismatch('CIAContribution.sigma_xsec vs AbsorptionGrid.ciaSigma (pair cross-section x both abundances '
                             'of the layer)', case, dict(impl=contribs[i][1][:, :1], model=doc[:, :1], pairs=pairs))
            out[i] = (contribs[i][0], doc)
    return out, cloud_model


def chem_mix(chem, gas):
    """mixing ratio of `gas` per layer as the atmosphere holds it: the row of the chemistry's published
    activeGasMixProfile / inactiveGasMixProfile tables"""
    act, ina = [str(x) for x in chem.activeGases], [str(x) for x in chem.inactiveGases]
    if gas in act:
        return np.array(chem.activeGasMixProfile[act.index(gas)], float)
    return np.array(chem.inactiveGasMixProfile[ina.index(gas)], float)


def zero_pattern(mix):
    """class of an abundance profile by where it is EXACTLY zero"""
    z = np.asarray(mix) == 0.0
    if not z.any():
        return 'nowhere-zero'
    if z.all():
        return 'zero-everywhere'
    if not z[0] and z[-1] and np.all(np.diff(z.astype(int)) >= 0):
        return 'zero-aloft'
    if z[0] and not z[-1] and np.all(np.diff(z.astype(int)) <= 0):
        return 'zero-below'
    return 'zero-in-scattered-layers' if z.sum() > 1 else 'zero-in-one-layer'


def run_real(spec):
    m = FM.build_model(spec)
    return (m,) + observe(m)


def eval_case(ctx, spec, do_scale=True):
    if spec.get('kind') == 'reuse':
        return eval_reuse(ctx, spec)
    try:
        m, wn, depth, trans, p, contribs = run_real(spec)
    except Exception as e:
        ctx.violation('raises:' + type(e).__name__, 'TransmissionModel raised %r on a valid atmosphere' % (e,), spec)
        return
    judge(ctx, spec, spec, m, (wn, depth, trans, p, contribs), do_scale, 'fresh')


# ---- one model object, parameters changed through the fitting-parameter setters between runs (what every
# ---- retrieval iteration does): the result must be the documented integral for the NEW profiles
def apply_step(spec, m, step):
    """set `model[name] = value` for every entry and mirror it in a copy of the spec"""
    spec = dict(spec, temperature=dict(spec['temperature']), gases=[dict(g) for g in spec['gases']],
                contributions=[dict(c) for c in spec['contributions']])
    for name, value in step.items():
        m[name] = value
        if name in ('planet_radius', 'planet_mass'):
            spec[name] = value
        elif name == 'atm_min_pressure':
            spec['pmin'] = value
        elif name == 'atm_max_pressure':
            spec['pmax'] = value
        elif name in ('T', 'T_surface', 'T_top'):
            spec['temperature'][name] = value
        elif name == 'T_point1':
            spec['temperature']['temperature_points'] = [value]
        elif name == 'He_H2':
            spec['ratio'] = value
        else:
            for g in spec['gases']:
                if g['mol'] == name:
                    g['mix'] = value
            for c in spec['contributions']:
                if name in c:
                    c[name] = value
    return spec


TNAMES = ('T', 'T_surface', 'T_top', 'T_point1')


def gen_reuse(rng, k):
    base = gen_case(rng, [1, 2, 3, 2][k % 4] + 4 * (k % 2))
    base['extended'] = False
    if k % 3:
        base.pop('breakdown', None)     # (the break-down routes on a re-used object: every third history only - cost)
    names = ['planet_radius', 'planet_mass', 'atm_min_pressure', 'atm_max_pressure', 'He_H2']
    t = base['temperature']
    if t['type'] == 'isothermal':
        names += ['T', 'T']
    elif t['type'] == 'npoint':
        names += ['T_surface', 'T_top', 'T_point1']
    names += [g['mol'] for g in base['gases'] if g['type'] == 'constant']
    for c in base['contributions']:
        if c['type'] == 'clouds':
            names.append('clouds_pressure')
        if c['type'] == 'flatmie':
            names.append('flat_mix_ratio')
    cur = dict(planet_radius=base['planet_radius'], planet_mass=base['planet_mass'], atm_min_pressure=base['pmin'],
               atm_max_pressure=base['pmax'], He_H2=base['ratio'], T=t.get('T'), T_surface=t.get('T_surface'),
               T_top=t.get('T_top'), T_point1=(t.get('temperature_points') or [None])[0])
    for g in base['gases']:
        cur[g['mol']] = g['mix'] if g['type'] == 'constant' else None
    for c in base['contributions']:
        cur.update({kk: v for kk, v in c.items() if kk in ('clouds_pressure', 'flat_mix_ratio')})
    steps = []
    for _ in range(int(rng.integers(2, 4))):
        step = {}
        for name in rng.choice(names, size=int(rng.integers(1, 3)), replace=False):
            name = str(name)
            v = cur[name]
            if name == 'planet_radius':
                v = v * float(rng.uniform(0.8, 1.25))
            elif name == 'planet_mass':
                v = v * float(rng.uniform(0.8, 1.5))
            elif name in ('atm_min_pressure', 'atm_max_pressure'):
                v = v * float(10 ** rng.uniform(-0.7, 0.7))
            elif name in TNAMES:
                v = float(min(max(v * rng.uniform(0.6, 1.25), 120.0), 3400.0))
            elif name == 'He_H2':
                v = float(rng.uniform(0.05, 0.3))
            elif name == 'clouds_pressure':
                v = v * float(10 ** rng.uniform(-1, 1))
            else:
                v = float(min(v * 10 ** rng.uniform(-1, 1), 0.05))
            cur[name] = v
            step[name] = v
        if 'clouds_pressure' in step and rng.random() < 0.5:
            # the cloud top stepped exactly onto a layer pressure of the atmosphere as it is after this step
            P = layer_pressures(base['nlayers'], cur['atm_min_pressure'], cur['atm_max_pressure'])[1]
            cur['clouds_pressure'] = step['clouds_pressure'] = float(P[int(rng.integers(0, len(P)))])
        steps.append(step)
    return dict(kind='reuse', base=base, steps=steps, new_path_method=base['new_path_method'])


def eval_reuse(ctx, case):
    spec = case['base']
    try:
        m, wn, depth, trans, p, contribs = run_real(spec)
    except Exception as e:
        ctx.violation('raises:' + type(e).__name__, 'TransmissionModel raised %r on a valid atmosphere' % (e,), case)
        return
    judge(ctx, case, spec, m, (wn, depth, trans, p, contribs), False, 'reuse:first-run')
    for i, step in enumerate(case['steps']):
        try:
            spec = apply_step(spec, m, step)
            obs = observe(m)
        except Exception as e:
            if _invalid_params(ctx, e):
                return
            ctx.violation('raises-after-parameter-change:' + type(e).__name__,
                          'model() raised %r after setting %s on a built model' % (e, sorted(step)), case)
            return
        nviol = len(ctx.violations)
        judge(ctx, case, spec, m, obs, False, 'reuse:after-setters')
        for kk in step:
            ctx.bucket('setter:' + ('gas' if kk not in ('planet_radius', 'planet_mass', 'atm_min_pressure',
                                                        'atm_max_pressure', 'He_H2', 'clouds_pressure',
                                                        'flat_mix_ratio') and kk not in TNAMES else kk))
        if len(ctx.violations) > nviol:
            for v in ctx.violations[nviol:]:
                v['key'] = 'stale-state:' + v['key']
                v['what'] = 'after model[...] = value on a reused model (step %d %s): ' % (i + 1, sorted(step)) + v['what']
            return
    # last step: the opacity tables registered in the cache are REPLACED (same molecules, other numbers; what reloading
    # opacities or changing the opacity path does); the re-used model must integrate the tables that are registered now
    if spec.get('opacities'):
        f = np.array([2.5, 0.3, 4.0, 0.6])
        spec2 = dict(spec, opacities=[dict(o, xsec=np.asarray(o['xsec'], float) * f[i % 4])
                                      for i, o in enumerate(spec['opacities'])])
        try:
            FM.spec_install(spec2)
            obs = observe(m)
            fresh = observe(FM.build_model(spec2))
        except Exception as e:
            if _invalid_params(ctx, e):
                return
            ctx.violation('raises-after-table-swap:' + type(e).__name__,
                          'model() raised %r after the registered opacity tables were replaced' % (e,), case)
            return
        ctx.bucket('reuse:opacity-tables-replaced')
        ctx.disagreements_checked += 1
        if obs[1].shape != fresh[1].shape or not C.close(obs[1], fresh[1], rel=1e-9):
            ctx.violation('stale-state:opacity-tables-replaced',
                          'after the opacity tables in the cache were replaced, a re-used model object does not return the '
                          'transit depth of a model freshly built on the tables registered now', dict(case, swapped=True),
                          dict(reused=obs[1], fresh=fresh[1]))


def judge(ctx, case, spec, m, obs, do_scale, stream):
    sm = small(spec)
    wn, depth, trans, p, contribs = obs
    rp, rs, z, dz, zb, dens, n = p['rp'], p['rs'], p['z'], p['dz'], p['zb'], p['density'], p['nlayers']
    nwn = len(wn)
    new = bool(spec['new_path_method'])
    method = 'new' if new else 'old'
    # ---------------- chords: implementation vs closed form (Lean) vs closed form (numpy)
    d = ctx.model().call('c01.paths', C.N(1 if new else 0), C.F(rp), C.L(z), C.L(dz), C.L(zb))
    mpaths = d.list(lambda: np.array(d.list()))
    ipaths = [np.asarray(r, float) for r in m.path_length]
    opaths = chords_new(rp, zb, z, dz) if new else chords_old(rp, z, dz)
    okp = len(ipaths) == n
    for l in range(n if okp else 0):
        tot = float(np.sum(np.abs(mpaths[l])))
        if len(ipaths[l]) != n - l or not C.close(ipaths[l], mpaths[l], rel=1e-9, abs_=1e-11 * tot):
            okp = False
            ctx.mismatch('path_length[%s] vs Transmission.chord' % method, case,
                         dict(layer=l, impl=ipaths[l], model=mpaths[l]))
            break
    ctx.disagreements_checked += 1
    if new:
        # the 3-D line/sphere geometry itself (Geometry.pathRow3d mirrors taurex/util/geometry.py step by step):
        # the same numbers up to rounding, and the same number of spheres hit
        d = ctx.model().call('c01.paths3d', C.F(rp), C.L(z), C.L(dz), C.L(zb))
        gpaths = d.list(lambda: np.array(d.list()))
        ctx.disagreements_checked += 1
        for l in range(min(n, len(ipaths))):
            tot = float(np.sum(np.abs(gpaths[l]))) if len(gpaths[l]) else 0.0
            if len(ipaths[l]) != len(gpaths[l]) or not C.close(ipaths[l], gpaths[l], rel=1e-9, abs_=1e-11 * tot):
                ctx.mismatch('path_length[new] vs Geometry.pathRow3d (3-D geometry model)', case,
                             dict(layer=l, impl=ipaths[l], model=gpaths[l]))
                break
        ctx.bucket('geometry-model-compared')
    for l in range(n):
        tot = float(np.sum(np.abs(opaths[l])))
        if len(ipaths) != n or len(ipaths[l]) != n - l or not C.close(ipaths[l], opaths[l], rel=1e-9, abs_=1e-11 * tot):
            ctx.violation('path-length:' + method, 'chord lengths differ from the spherical-shell closed form', case,
                          dict(layer=l, impl=ipaths[l] if len(ipaths) > l else None, expected=opaths[l]))
            break
    # ---------------- spectrum: implementation vs Lean model
    d = ctx.model().call('c01.spectrum', C.N(1 if new else 0), C.F(rp), C.F(rs), C.L(z), C.L(dz), C.L(zb), C.L(dens),
                         C.N(nwn), C.L(contribs, lambda ks: C.N(ks[0]) + ' ' + C.LL(ks[1].tolist())))
    tcut = np.array(d.list(lambda: d.list())).reshape(n, nwn)
    tfull = np.array(d.list(lambda: d.list())).reshape(n, nwn)
    dcut = np.array(d.list())
    dfull = np.array(d.list())
    bare = d.flt()
    opaque = d.flt()
    band = E10 * (opaque - bare)
    kinds = {'replica': 0, 'band': 0}
    ctx.disagreements_checked += 1
    for l in range(n):
        if trans_close(trans[l], tcut[l]):
            kinds['replica'] += 1
        elif trans_close(trans[l], tfull[l]):
            kinds['replica'] += 1
        elif np.all(trans[l] <= E10 * (1 + 1e-9)) and np.all(trans[l] >= tfull[l] * (1 - 1e-7) - 1e-300):
            kinds['band'] += 1
        else:
            ctx.mismatch('exp(-tau) vs Transmission.modelTrans (licensed relation)', case,
                         dict(layer=l, impl=trans[l], model_cut=tcut[l], model_full=tfull[l]))
            break
    ctx.bucket('rows:replica', kinds['replica'])
    ctx.bucket('rows:licensed-band-only', kinds['band'])
    ncutrows = int(np.sum(~np.all(np.isclose(tcut, tfull, rtol=1e-12, atol=0), axis=1)))
    ctx.bucket('rows:early-exit-changes-result', ncutrows)
    ctx.check_close('depth vs Transmission.depth (with early exit), within the licensed band', depth, dcut, case,
                    rel=1e-9, abs_=band)
    ctx.disagreements_checked += 1
    if not np.all((depth <= dfull * (1 + 1e-9)) & (depth >= dfull * (1 - 1e-9) - band)):
        ctx.mismatch('depth vs uncut documented integral within exp(-10) band', case,
                     dict(impl=depth, model_full=dfull, band=band))
    # ---------------- the cross-sections the documented integral names (absorption on the grid of the run from the molecules'
    # own tables; the cloud deck), from the Lean models, against the prepared contributions
    real_contribs = contribs
    contribs, cloud_model = documented_sigmas(ctx, m, spec, wn, p, real_contribs, case)
    if cloud_model is not None:
        mtr, mdepth, cloudy = cloud_model
        ctx.disagreements_checked += 1
        for l in range(n):
            if not (trans_close(trans[l], mtr[l]) or (np.all(trans[l] <= E10 * (1 + 1e-9)) and
                                                     np.all(mtr[l] <= E10 * (1 + 1e-9)) and not cloudy[l])):
                ctx.mismatch('exp(-tau) with a cloud deck vs Haze.cloudyTrans', case, dict(layer=l, impl=trans[l], model=mtr[l]))
                break
        ctx.check_close('depth with a cloud deck vs Haze.cloudyDepth, within the licensed band', depth, mdepth, case,
                        rel=1e-9, abs_=band)
    # ---------------- the property's own predicates, on the implementation only (numpy oracle)
    o_tau = tau_full(ipaths if okp else opaths, dens, contribs)
    with np.errstate(over='ignore'):
        o_trans = np.exp(-o_tau)
    o_bare = rp ** 2 / rs ** 2
    o_opaque = (rp ** 2 + np.sum(2 * (rp + z) * dz)) / rs ** 2
    o_band = E10 * (o_opaque - o_bare)
    o_depth = doc_depth(rp, rs, z, dz, o_trans)
    tol = 1e-9
    if np.any(~np.isfinite(depth)) or np.any(~np.isfinite(trans)):
        ctx.violation('non-finite', 'depth or transmittance not finite', case, dict(depth=depth))
        return
    for l in range(n):
        ok = trans_close(trans[l], o_trans[l]) or (np.all(trans[l] <= E10 * (1 + 1e-9)) and
                                                   np.all(trans[l] >= o_trans[l] * (1 - 1e-7) - 1e-300))
        if not ok:
            ctx.violation('integral-mismatch:' + method,
                          'exp(-tau) differs from the documented slant integral beyond the tau>10 licence', case,
                          dict(layer=l, impl=trans[l], expected=o_trans[l]))
            break
    if not np.all((depth <= o_depth * (1 + tol)) & (depth >= o_depth * (1 - tol) - o_band)):
        ctx.violation('depth-mismatch:' + method, 'depth differs from the documented integral beyond the licence', case,
                      dict(impl=depth, expected=o_depth, band=o_band))
    if np.any(depth < o_bare * (1 - 1e-12)):
        ctx.violation('below-bare', 'depth below the bare-planet value (Rp/Rs)^2', case, dict(depth=depth, bare=o_bare))
    if np.any(depth > o_opaque * (1 + 1e-12)):
        ctx.violation('above-opaque', 'depth above the value of an atmosphere opaque to its top', case,
                      dict(depth=depth, opaque=o_opaque))
    nothing = all(np.all(s == 0) for _, s in contribs)
    if nothing and (not C.close(depth, np.full(nwn, o_bare), rel=1e-13) or not np.all(trans == 1.0)):
        ctx.violation('transparent-not-bare', 'nothing absorbs but depth != (Rp/Rs)^2', case,
                      dict(depth=depth, bare=o_bare))
    # (thorough tier: every third flagged case - two more routes and one Lean evaluation per component)
    do_bd = bool(spec.get('breakdown')) and (ctx.quick or ctx.evaluations % 3 == 0)
    if do_bd:
        judge_breakdown(ctx, case, spec, m, wn, p, contribs, ipaths if okp else opaths, method)
    if do_scale and not nothing:
        c = float(ctx.rng.choice([1.0, 1.5, 10.0, 1e3]))
        try:
            _, _, depth2, trans2, p2, _ = run_real(scaled_spec(spec, c))
            if np.any(depth2 < depth * (1 - tol) - o_band):
                ctx.violation('scale-decreases', 'depth decreased when every cross-section was scaled by c >= 1', case,
                              dict(c=c, depth=depth, scaled=depth2))
            ctx.bucket('scaled-rerun')
        except Exception as e:
            ctx.violation('raises-scaled:' + type(e).__name__, 'scaled model raised %r' % (e,), case, dict(c=c))
    mixed = bool(np.any((trans > 1e-4) & (trans < 0.9999)))
    ctx.case(key=(n, tuple(sorted(c['type'] for c in spec['contributions'])), spec.get('regime'), method, stream) if mixed else None,
             sample=dict(sm, depth=depth[:2], model=dcut[:2]), bucket='regime:' + str(spec.get('regime')))
    ctx.bucket('stream:' + stream)
    ctx.bucket('extent:z_top/Rp' + ('<0.4' if zb[-1] < 0.4 * rp else '<1' if zb[-1] < rp else '>=1'))
    ctx.bucket('method:' + method)
    ctx.bucket('layers:' + ('2-4' if n < 5 else '5-15' if n < 16 else '16-40'))
    ctx.bucket('temperature:' + spec['temperature']['type'])
    for c in spec['contributions']:
        ctx.bucket('contrib:' + c['type'])
    if spec.get('grid_class'):
        ctx.bucket('quota:own-wavenumber-grids:' + spec['grid_class'])
    if spec.get('cloud_top_class'):
        ctx.bucket('quota:cloud-top:' + spec['cloud_top_class'])
    if spec.get('zero_layers_class'):
        ctx.bucket('quota:abundance-zero-in-some-layers:' + spec['zero_layers_class'])
    if spec.get('axis_dtype'):
        ctx.bucket('quota:wavenumber-axis-dtype:%s(native grid %s)' % (spec['axis_dtype'], m.nativeWavenumberGrid.dtype))
    if do_bd:
        ctx.bucket('quota:per-contribution-and-per-component-routes')
    if np.any(trans <= E10) and np.any(trans > 0.5):
        ctx.bucket('mixed-saturated-and-clear')


def judge_breakdown(ctx, case, spec, m, wn, p, doc_contribs, paths, method):
    """the other two routes that RETURN transit depths: model_contrib() (one depth per contribution: the atmosphere in which
    only that source absorbs) and model_full_contrib() (one per component: only that molecule / pair / scatterer).  Each
    must be the documented integral with tau built from that source's / component's cross-section alone: the Lean model
    (Transmission.modelTrans / depth on the one opacity; the component's cross-section rebuilt by AbsorptionGrid.absSigma /
    scaledSigma / ciaSigma from that species' table x its abundance) -> mismatch, then the integral itself (numpy) on the
    real code's chords -> violation.  A single source is never cut off (the tau>10 break needs an earlier source)."""
    from taurex.cache import OpacityCache, CIACache
    from taurex.util.scattering import rayleigh_sigma_from_name
    objs = list(m.contribution_list)
    names = [c.name for c in objs]
    if len(set(names)) < len(names) or not objs:
        ctx.bucket('breakdown:skipped(name-collision-or-no-source)')
        return
    try:
        _, cdict = m.model_contrib()
        _, fdict = m.model_full_contrib()
    except Exception as e:
        if _invalid_params(ctx, e):
            return
        ctx.violation('raises-breakdown:' + type(e).__name__, 'model_contrib / model_full_contrib raised %r on a model '
                      'that model() evaluates' % (e,), case)
        return
    rp, rs, z, dz, zb, dens, n = p['rp'], p['rs'], p['z'], p['dz'], p['zb'], p['density'], p['nlayers']
    nwn = len(wn)
    head = [C.N(1 if spec['new_path_method'] else 0), C.F(rp), C.F(rs), C.L(z), C.L(dz), C.L(zb), C.L(dens), C.N(nwn)]
    enc = lambda ks: C.N(ks[0]) + ' ' + C.LL(np.asarray(ks[1], float).tolist())

    def one(label, key, dep, tr, kind, sig):
        dep, tr = np.asarray(dep, float), np.asarray(tr, float)
        d = ctx.model().call('c01.spectrum', *head, C.L([(kind, sig)], enc))
        mt = np.array(d.list(lambda: d.list())).reshape(n, nwn)
        d.list(lambda: d.list())
        md = np.array(d.list())
        ctx.disagreements_checked += 1
        if tr.shape != mt.shape or not all(trans_close(tr[l], mt[l]) for l in range(n)):
            ctx.mismatch(label + ': exp(-tau) vs Transmission.modelTrans of that opacity alone', case,
                         dict(impl=tr[:3], model=mt[:3]))
        ctx.check_close(label.split('[')[0] + ' depth vs Transmission.depth of that opacity alone', dep, md, case, rel=1e-9)
        with np.errstate(over='ignore', invalid='ignore'):
            ot = np.exp(-tau_full(paths, dens, [(kind, np.asarray(sig, float))]))
        od = doc_depth(rp, rs, z, dz, ot)
        if dep.shape != od.shape or tr.shape != ot.shape or not C.close(dep, od, rel=1e-9) or \
                not all(trans_close(tr[l], ot[l]) for l in range(n)):
            ctx.violation(key, label + ': the transit depth returned is not the documented integral with tau built from '
                          'that cross-section alone', case, dict(impl=dep, expected=od, route=label))
            return False
        return True

    chem = m.chemistry
    for i, cobj in enumerate(objs):
        cname, kind = type(cobj).__name__, doc_contribs[i][0]
        if cobj.name not in cdict or cobj.name not in fdict:
            ctx.violation('breakdown-entry-missing:' + cname, 'model_contrib / model_full_contrib has no entry for a '
                          'contribution of the model', case, dict(names=names, keys=sorted(cdict)))
            continue
        ctx.bucket('breakdown:contribution-judged:' + cname)
        if not one('model_contrib()[%s]' % cobj.name, 'depth-mismatch:model_contrib:' + cname, cdict[cobj.name][0],
                   cdict[cobj.name][1], kind, doc_contribs[i][1]):
            continue
        comps = fdict[cobj.name]
        sigs = None
        if cname == 'AbsorptionContribution':
            gases = [str(g) for g in chem.activeGases]
            if [str(c[0]) for c in comps] != gases:
                ctx.violation('breakdown-components:' + cname, 'components are not one per active molecule, in order', case,
                              dict(got=[str(c[0]) for c in comps], expected=gases))
                continue
            sigs = []
            for g in gases:
                op = OpacityCache()[g]
                gw = np.asarray(op.wavenumberGrid, float)
                vals = [np.asarray(op.opacity(float(t), float(pr)), float) for t, pr in zip(p['T'], p['P'])]
                d = ctx.model().call('c01.abssigma', C.N(n), C.L(wn), C.L([(gw, vals, chem_mix(chem, g))], lambda q: C.L(
                    q[0]) + ' ' + C.LL([v.tolist() for v in q[1]]) + ' ' + C.L(q[2])))
                sigs.append(np.array(d.list(lambda: d.list()), float).reshape(n, nwn))
            ctx.bucket('breakdown:absorption-components:' + ('1' if len(gases) == 1 else '>=2'))
        elif cname == 'RayleighContribution':
            sigs = []
            for c in comps:
                law = rayleigh_sigma_from_name(str(c[0]), wn)
                if law is None:
                    sigs = None
                    break
                d = ctx.model().call('c01.scaledsigma', C.N(n), C.N(nwn), C.LL([np.asarray(law, float)]),
                                     C.LL([chem_mix(chem, str(c[0]))]))
                sigs.append(np.array(d.list(lambda: d.list()), float).reshape(n, nwn))
            ctx.bucket('breakdown:rayleigh-components:' + ('0-1' if len(comps) < 2 else '>=2'))
        elif cname == 'CIAContribution':
            sigs = []
            for c in comps:
                pr = str(c[0])
                xs = [[np.asarray(CIACache()[pr].cia(float(t), wn), float) for t in p['T']]]
                d = ctx.model().call('c01.ciasigma', C.N(n), C.N(nwn), C.LLL(xs), C.LL([chem_mix(chem, pr.split('-')[0])]),
                                     C.LL([chem_mix(chem, pr.split('-')[1])]))
                sigs.append(np.array(d.list(lambda: d.list()), float).reshape(n, nwn))
        elif len(comps) == 1:
            sigs = [doc_contribs[i][1]]
        if sigs is None or len(sigs) != len(comps):
            ctx.bucket('breakdown:components-not-judged:' + cname)
            continue
        for (nm, dep, tr, _), sg in zip(comps, sigs):
            ctx.bucket('breakdown:component-judged:' + cname)
            if not one('model_full_contrib()[%s][%s]' % (cobj.name, nm), 'depth-mismatch:model_full_contrib:' + cname,
                       dep, tr, kind, sg):
                break


def malformed(ctx):
    rng = ctx.rng
    for k in range(ctx.n(9, 40)):
        spec = gen_case(rng, k)
        which = k % 3
        if which == 0:
            spec['nlayers'] = 1
            tag = 'nlayers=1'
            if spec['temperature']['type'] == 'array':
                spec['temperature'] = dict(type='isothermal', T=1000.0)
            for g in spec['gases']:
                if g['type'] == 'array':
                    g['type'], g['mix'] = 'constant', 1e-5
        elif which == 1:
            spec['pmin'], spec['pmax'] = spec['pmax'], spec['pmin']
            tag = 'pmax<pmin'
        elif which == 2 and k % 2 == 0 and len(spec['opacities']) > 1:
            # a table whose wavenumber grid has no sample inside the native range: Opacity.opacity -> np.interp on
            # an empty array (tables of one run share a grid; recorded, not judged)
            o = spec['opacities'][1]
            o['wn'] = np.asarray(spec['opacities'][0]['wn'], float)[:1] * 0 + 1.0e6
            o['xsec'] = np.asarray(o['xsec'], float)[:, :, :1]
            tag = 'disjoint-wavenumber-grids'
        else:
            spec['planet_radius'] = -abs(spec['planet_radius'])
            tag = 'Rp<0'
        try:
            m = FM.build_model(spec)
            wn, depth, trans, _ = m.model()
            ctx.malformed_outcome(tag + ':' + ('finite' if np.all(np.isfinite(depth)) else 'nonfinite'))
        except Exception as e:
            ctx.malformed_outcome(tag + ':' + type(e).__name__)


def run(ctx):
    FM.quiet()
    n = ctx.n(400, 12000)
    for k in range(n):
        if k % 5 == 4:
            eval_case(ctx, gen_reuse(ctx.rng, k // 5))
        else:
            eval_case(ctx, gen_case(ctx.rng, k), do_scale=(k % 2 == 0))
    malformed(ctx)
    FM.reset_caches()


def replay(ctx, case):
    FM.quiet()
    case = case.get('case', case)        # a replays/*.json payload or a bare case
    eval_case(ctx, case)
    FM.reset_caches()
