"""The `py` dialect of the source translator (spec key `dialect='py'`): object-level Python — dicts, lists, tuples, strings,
exceptions, methods that mutate attributes — to Lean 4 over the prelude lean/TaurexModel/Gen/PyPrelude.lean (`Py.*`).

`harness/translate.py` and the other dialects are unchanged; a spec with `dialect='py'` is translated by `PyFn` below.  The
translation is TYPED.  Types are written in specs as strings:
    α  carrier scalar | nat | bool | str | unit (None) | $X  a type variable (declared in `tvars`) | enum:Name
    (t1, t2, …) tuple | [t] list | {k: v} dict (insertion ordered association list) | ?t  optional
`types={'T7': '($ν, str, bool)'}` declares abbreviations usable inside other type strings.

Spec keys (besides module / func / cls / lean / callname):
  tvars      ordered {name: flags}: implicit type parameters of the generated definition; flags: 'deq' adds `[DecidableEq X]`;
             dict(call=('read'|'write', [arg types], ret type), lean=name) makes values of that type CALLABLE: calling one is the
             function parameter `lean` applied to the WORLD (see below), the value and the arguments;
  params     {name: type | 'skip'};   attrs  {'self.a.b': (leanname, type)} attributes read become parameters;
  state      attributes the method may assign or mutate in place: they are carried like locals, their final values are part
             of the result (in the declared order).  A mutation of an attribute that is not declared is Untranslatable;
  mutates    parameters (lists / dicts) the function mutates in place: in/out, their final values are part of the result;
  world      (leanname, type variable) of the part of the program state that only callable values read / write (e.g. the
             attribute a bound getter/setter refers to); `writes_world=True` when a 'write' callable is called: the final
             world is part of the result.  Declared assumption: a 'read' call changes nothing; a 'write' call changes only
             the world, not the containers the translated function handles;
  externals  {'f(kw1=,kw2=)' | 'mod.f()': dict(lean=, args=[types], ret=type, raises=bool)} calls that become function
             parameters (`raises`: the parameter returns `Except Py.Err ret`);
  obj_methods / obj_attrs  {type variable: {name: dict(lean=, args=[…], ret=…)}}: methods / attributes of opaque objects;
  enums      {'PriorMode.LINEAR': ('PriorMode', 0)} named members of enumerations (compared with `is` / `==`);
  refs       {'self._model': 0, 'self._observed': 1}: objects a local variable may refer to (`obj = A if c else B`); the
             attributes `obj.x` are then the declared attributes `A.x` / `B.x`, selected by the reference.

RESULT of a generated definition, with μ = (final in/out parameters…, final state attributes…, final world) where present:
     no μ, cannot raise: ρ      no μ, can raise: Except Py.Err ρ      μ, cannot raise: μ × ρ (μ when ρ is None)
     μ and can raise: μ × Except Py.Err ρ   — on a raise μ is the state AS THE EXCEPTION LEFT IT.
Whether a function can raise is inferred (dict subscripts, raising externals, `raise`, calls of raising functions).

Subset (everything else raises Untranslatable; nothing is matched by function name, all text derives from the AST):
  statements  docstrings, pass, imports, logging calls (`ignore_calls`), `x = e`, `a, b, c = e` (names, `_`, state
              attributes), `x = []` / `{}` / `None`, `x.append(e)`, `x.extend(e)`, `d[k] = e`, `d.update(e)`, `return e`,
              `raise E(...)`, `if/elif/else`, `for x in L`, `for a, b in zip(L1, L2[, L3])`, `for v in d.values()`,
              `for k, v in d.items()`, a call statement of a 'write' callable, of a translated function with in/out
              parameters, of a translated state method; `x = p or {}` for an in/out dict parameter `p` (see ALIASING);
  expressions names, declared attributes, int / float / str / bool / None literals, tuples, `t[i]` on a tuple (literal
              i, negative allowed), `d[k]` (KeyError), `l[i]` (IndexError), `k in d`, `x in (lit, …)`, `x in l`, comparisons,
              and / or / not, conditional expressions, + - * / on scalars, `len`, `dict(d)` / `list(l)` (copies),
              `s.lower()`, `'lit{}lit'.format(s)`, list comprehensions over the iterables above (`Py.mapE` when the element
              expression may raise), calls of externals / object methods / callable values / translated functions.
  A raise inside a loop body ends the loop (`Py.forE`); code after an `if` that contains a raise is continued in both
  branches (continuation style), other `if`s merge the variables they assign.
ALIASING.  Containers are translated as VALUES.  That is faithful as long as no container is reachable under two names
  when it is mutated.  The translator tracks it:  `x = y` for containers makes `x` and `y` ONE variable;  `x = p or {}`
  splits the rest of the function into the case `p` non-empty (x IS p: every mutation through `x` is a mutation of the
  in/out parameter) and the case `p` empty (x is a fresh dict, p stays empty);  a component of a translated function's
  result that may be one of its in/out parameters is recorded, and the caller's variable bound to it MAY alias the argument:
  mutating one of the two while the other is still used afterwards is Untranslatable (`A.update(B)` with `B` possibly `A`
  itself is accepted: updating a dict with itself changes nothing, under both readings).  Declared assumption: distinct
  declared attributes / parameters hold distinct container objects.
  A mutable object read as a PART of another value (`x = d[k]`, `a, b = t`, a loop variable over a list / dict of
  containers) may be that part itself: mutating it in place is refused; so is mutating an object after it was appended to a
  list.  The one translated form of mutation through a loop variable is `for x in D.values(): x.method(...)` over a dict of
  RECORDS (below): the mutated object is put back at its position.

FURTHER spec keys and constructs (each rule is derived from the AST; what is not covered raises Untranslatable):
  records        {name: dict(fields=[(attribute, type)], methods={method: callname})}: objects of a translated class held in
                 variables / containers, type `rec:Name`, read as the tuple of their attribute values; `x.attr` is a component,
                 `x.method(...)` runs the translated method on the components and re-binds the ones it assigns;
  attrs          also declares attribute-like CELLS given by their source text, e.g. `GlobalCache()['xsec_path']` or
                 `self._spec_dict['p']` (subscripts of objects the translation does not look into);
  externals / obj_methods entries may carry `world='read'` (the world is their first argument) and `reads=[cells]`;
  tvars          call=('make', [args], ret): calling a value of that type makes an object and changes the world
                 (`x = c(*args)`: `let r := construct w c args; let w := r.1; let x := r.2`; a starred opaque pack is passed on);
  expr_externals {source text of an expression: dict(lean=, ty=)} the value of that expression is a parameter;
  pattern_externals [dict(rx= regex with groups a0, a1 …, lean=, args=, ret=, raises=)] an expression SHAPE that is an external
                 function of the grouped sub-expressions (e.g. `u.Unit(x).to(u.Pa)`, `pathlib.Path(x).stem`);
  ignore_stmts   regexes on the text of statements that have no effect the translation tracks (documented at the spec);
  calls          {call text: callname} another receiver's method that is a translated function (its state cells are matched
                 to this spec's declared cells by Lean name);
  start_at / stop_at / free_locals  translate only a statement range of the function body (the statements before fill the
                 declared cells / the `free_locals`, which become parameters; start_at may be (regex, occurrence));
  total_index    list subscripts are TOTALISED (`getD` with the default 0 / [] / "" / tuple of defaults, `l[-1]` = `getLastD`,
                 `a[idx]` for an index array = the elements at those positions): the hand-written models do the same and the
                 tie theorems / callers guard the range; without it `l[i]` raises IndexError (`Py.lgetE`);
  property       the function is a property: `self.name` without a call evaluates it.
  Parameters of type `unit` are parameters the caller leaves None: they do not appear in the Lean signature, `x is None` on
  them (and on values of types that have no None) is decided at translation time and only the live branch of an `if` exists.
  `x = None` makes a local optional; None on one path and a value on another gives an `Option` after the `if`;
  `if x is not None [and c]:` on an optional is `Option.elim`.
  try: x = E1 except (C1, C2): x = E2  (one assignment each): `Py.caseE E1 (fun e => if e ∈ {C1, C2} then E2 else raise e) …`;
  an `except C` clause catches the errors NAMED C (subclass relations are not modelled), a bare `except:` every error.
  Numbers in containers: `[α]` is also a 1-D numpy array, `[[α]]` a 2-D one (list of rows): `a * c` / `c * a` (scalar broadcast,
  `List.map`), `np.array(l)`, `a[:]`, `a[...]`, `a.astype(np.float64)` (the same numbers), `np.zeros_like`, `np.concatenate`
  (`List.flatten`), `a.searchsorted(v[, side=])` (count of smaller [or equal] elements: numpy's result on a SORTED array),
  `min(l)` / `max(l)` / `a.min()` / `a.max()` (`Py.minE` / `Py.maxE`: ValueError when empty; NaN not modelled), `x in l`
  (IEEE `==` through `≤`), `l.sort([key=itemgetter(k)])` (`Py.sortOn`: a stable sort with `<`), `s.split('c')`, `s[k:]`,
  calls of base-dialect kernels of the same file on arrays (element-wise, `List.zipWith`).
  try: x = E1 except (C1, C2): <statements>  — a handler that is a statement list (it may `continue` / `raise` / `return` or fall
  through; it does not see x).  `for x in f(...)` where the call may raise: evaluated once before the first pass.  obj_methods
  entries may carry `raises=True`.  tvars flag iter=(lean name, element type): an opaque value that can be iterated (the list of
  what it yields is a function parameter).  A declared cell may hold a 'make' callable (e.g. an imported class: attrs
  {'PickleCIA': (name, '$K')}).
  Int counters: `x = <integer literal>` (possibly negative) for a local makes an `Int`; `x += n` / `x -= n`.  3-D arrays of
  numbers `[[[α]]]` under `total_index`: `A[i, :, k] = v` (`Py.setCol3`: Python's negative indices; nothing is written where an
  index is out of range or `v` has no element for a row; a `v` of length 1 is broadcast), `A[:, :, idx]` for an index array
  (`Py.takeLast3`), `A * c` (scalar broadcast).  `l[k:]` on lists (`List.drop`); an integer literal against an array is a scalar.
  `while True:` (left by `break` / an exception): `Py.whileE fuel` with the extra parameter `fuel : Nat` (passes allowed; the error
  `nontermination` when used up).  try: <statements> except C: <statements> in general (the body runs in a context whose raise
  goes to the handler).  `with E as f:` for a declared expression E (expr_externals).  spec `streams=[names]`: a variable of type
  [str] that is an open text file = the lines not yet read; `line = f.readline()` takes the next ('' at the end).  spec
  `element_views=True`: `x = D[k]` for a dict D of records makes x the ELEMENT: `x.method(...)` / `x.field = e` are written back
  into D (`Py.dset`) as long as x, k and D are not re-bound otherwise.  `x.field = e` for a local holding a record.
Totalisations (Python raises or behaves differently): `a - b` on indices / counts is the truncated subtraction of `Nat` (a
negative Python int is not represented); element-wise kernels on arrays of different lengths stop at the shorter one (numpy
raises); subscripts under `total_index` (above).  Everything else that Python raises is an `Except.error`."""
import ast
import re

from harness.translate import Fn, Untranslatable, lname, const_name

# ----------------------------------------------------------------------------------------------------------------- types
A = ('a',)
NAT = ('nat',)
BOOL = ('bool',)
STR = ('str',)
UNIT = ('unit',)
INTLIT = ('intlit',)
INT = ('int',)          # a Python int that may be negative (a counter initialised with an integer literal): Lean `Int`
ERR = ('err',)


def tv(n):
    return ('tv', n)


class TypeParser:
    def __init__(self, text, abbrevs):
        self.s = text
        self.i = 0
        self.abbrevs = abbrevs

    def ws(self):
        while self.i < len(self.s) and self.s[self.i].isspace():
            self.i += 1

    def eat(self, c):
        self.ws()
        if self.s[self.i:self.i + len(c)] != c:
            raise Untranslatable('type syntax: expected %r at %d in %r' % (c, self.i, self.s))
        self.i += len(c)

    def peek(self, c):
        self.ws()
        return self.s[self.i:self.i + len(c)] == c

    def parse(self):
        t = self.ty()
        self.ws()
        if self.i != len(self.s):
            raise Untranslatable('type syntax: trailing text in %r' % self.s)
        return t

    def ty(self):
        self.ws()
        if self.peek('('):
            self.eat('(')
            parts = [self.ty()]
            while self.peek(','):
                self.eat(',')
                if self.peek(')'):
                    break
                parts.append(self.ty())
            self.eat(')')
            return parts[0] if len(parts) == 1 else ('tuple', tuple(parts))
        if self.peek('['):
            self.eat('[')
            t = self.ty()
            self.eat(']')
            return ('list', t)
        if self.peek('{'):
            self.eat('{')
            k = self.ty()
            self.eat(':')
            v = self.ty()
            self.eat('}')
            return ('dict', k, v)
        if self.peek('?'):
            self.eat('?')
            return ('opt', self.ty())
        m = re.match(r'\$?[\wα-ωΑ-Ω]+(:\w+)?', self.s[self.i:])
        if not m:
            raise Untranslatable('type syntax: %r' % self.s)
        w = m.group(0)
        self.i += len(w)
        if w.startswith('$'):
            return tv(w[1:])
        if w.startswith('enum:'):
            return ('enum', w[5:])
        if w.startswith('rec:'):
            return ('rec', w[4:])
        base = {'α': A, 'nat': NAT, 'bool': BOOL, 'str': STR, 'unit': UNIT}
        if w in base:
            return base[w]
        if w in self.abbrevs:
            return TypeParser(self.abbrevs[w], self.abbrevs).parse()
        raise Untranslatable('unknown type name %r in %r' % (w, self.s))


def is_container(t):
    """types of MUTABLE Python objects (two names for one of them alias each other)"""
    return t[0] in ('list', 'dict', 'rec')


class R:
    """a translated expression: `txt` is the Lean text of its value (of type `ty`), valid under `binds`: a list of
    (variable, Lean term of type `Except Py.Err _`) evaluated in that order before it — the sub-expressions that may raise"""

    def __init__(self, txt, ty, binds=()):
        self.txt = txt
        self.ty = ty
        self.binds = list(binds)

    @property
    def raises(self):
        return bool(self.binds)


class Var:
    def __init__(self, cell, ty, alias=frozenset()):
        self.cell = cell          # the Lean variable that holds the value
        self.ty = ty
        self.alias = alias        # cells this variable MAY be the same object as


class Ctx:
    """where control goes: `raise_(err text, env, ind)`, `ret(value node | None, env, ind)`, `cont(env, ind)` (continue) give the
    Lean text of leaving the current construct"""

    def __init__(self, fn, raise_, ret, cont=None):
        self.fn = fn
        self._raise = raise_
        self._ret = ret
        self._cont = cont
        self.cont = None if cont is None else self.cont_

    def raise_(self, e, env, ind):
        self.fn.nleave += 1
        return self._raise(e, env, ind)

    def ret(self, node, env, ind):
        self.fn.nleave += 1
        return self._ret(node, env, ind)

    def cont_(self, env, ind):
        self.fn.nleave += 1
        return self._cont(env, ind)


EXC_CLASSES = {'KeyError': 'Py.Err.keyError', 'ValueError': 'Py.Err.valueError', 'TypeError': 'Py.Err.typeError',
               'IndexError': 'Py.Err.indexError', 'Exception': 'Py.Err.exception'}
MUTATORS = ('append', 'extend', 'update', 'sort')


class PyFn(Fn):
    def __init__(self, spec, tree, src_lines, known_funcs):
        super().__init__(spec, tree, src_lines, known_funcs)
        self.abbrevs = dict(spec.get('types', {}))
        self.tvars = dict(spec.get('tvars', {}))
        self.ptypes = {k: (v if v == 'skip' else self.T(v)) for k, v in spec.get('params', {}).items()}
        self.pattrs = {k: (nm, self.T(t)) for k, (nm, t) in spec.get('attrs', {}).items()}
        self.state = list(spec.get('state', ()))
        self.mutates = list(spec.get('mutates', ()))
        self.world = spec.get('world')                    # (leanname, tvar name)
        self.writes_world = bool(spec.get('writes_world'))
        self.pexternals = dict(spec.get('externals', {}))
        self.obj_methods = dict(spec.get('obj_methods', {}))
        self.obj_attrs = dict(spec.get('obj_attrs', {}))
        self.penums = dict(spec.get('enums', {}))
        self.refs = dict(spec.get('refs', {}))
        self.exc_classes = dict(EXC_CLASSES, **spec.get('exceptions', {}))
        self.expr_externals = dict(spec.get('expr_externals', {}))   # whole expression text -> dict(lean=, ty=)
        self.ignore_stmts = list(spec.get('ignore_stmts', ()))        # regexes on the text of statements without tracked effect
        self.call_map = dict(spec.get('calls', {}))                   # call text -> callname of a translated function
        self.pattern_externals = list(spec.get('pattern_externals', ()))  # dict(rx=regex with groups a0, a1…, lean=, args=, ret=, raises=)
        self.start_at, self.stop_at = spec.get('start_at'), spec.get('stop_at')   # regexes: first / last translated statement
        # records: objects of a translated class held in variables / containers, as the tuple of their attribute values:
        # {name: dict(fields=[(attribute, type)], methods={method: callname of its translation})}
        self.records = dict(spec.get('records', {}))
        self.streams = set(spec.get('streams', ()))       # variables holding an open text file: the list of the lines not yet read
        self.views = {}           # name -> (dict key, key variable name, Var of x, Var of k, Var of D): x = D[k] IS the element
        self.frozen = set()       # cells of loop variables that hold an element OF the iterated container: mutating one would
        #                           mutate the container, which the translation (elements are values) does not show
        self.subst = {}
        self.nu = 0
        self.nfresh = 0
        self.can_raise = True                             # first pass: assume it can; `raise_points` counts
        self.raise_points = 0
        self.ret_ty = None
        self.ret_alias = {}
        self.used_tvars = []

    # ------------------------------------------------------------------ types
    def T(self, text):
        return TypeParser(text, self.abbrevs).parse()

    def newu(self):
        self.nu += 1
        return ('u', self.nu)

    def resolve(self, t):
        while t[0] == 'u' and t[1] in self.subst:
            t = self.subst[t[1]]
        if t[0] == 'tuple':
            return ('tuple', tuple(self.resolve(x) for x in t[1]))
        if t[0] in ('list', 'opt'):
            return (t[0], self.resolve(t[1]))
        if t[0] == 'dict':
            return ('dict', self.resolve(t[1]), self.resolve(t[2]))
        return t

    def unify(self, a, b, node=None):
        a, b = self.resolve(a), self.resolve(b)
        if a == b:
            return a
        if a[0] == 'u':
            self.subst[a[1]] = b
            return b
        if b[0] == 'u':
            self.subst[b[1]] = a
            return a
        if a[0] == b[0] == 'tuple' and len(a[1]) == len(b[1]):
            return ('tuple', tuple(self.unify(x, y, node) for x, y in zip(a[1], b[1])))
        if a[0] == b[0] and a[0] in ('list', 'opt'):
            return (a[0], self.unify(a[1], b[1], node))
        if a[0] == b[0] == 'dict':
            return ('dict', self.unify(a[1], b[1], node), self.unify(a[2], b[2], node))
        self.fail(node, 'type mismatch: %s vs %s' % (self.show(a), self.show(b)))

    def show(self, t):
        return self.lty(self.resolve(t))

    def lty(self, t):
        """Lean text of a type (unresolved unification variables as placeholders ⟪n⟫, substituted at the end)"""
        k = t[0]
        if k == 'u':
            t2 = self.resolve(t)
            return '⟪%d⟫' % t[1] if t2[0] == 'u' else self.lty(t2)
        if k == 'a':
            return 'α'
        if k in ('nat', 'enum', 'ref'):
            return 'Nat'
        if k == 'int':
            return 'Int'
        if k == 'bool':
            return 'Bool'
        if k == 'str':
            return 'String'
        if k == 'unit':
            return 'Unit'
        if k == 'err':
            return 'Py.Err'
        if k == 'tv':
            if t[1] not in self.tvars:
                raise Untranslatable('undeclared type variable ' + t[1])
            if t[1] not in self.used_tvars:
                self.used_tvars.append(t[1])
            return t[1]
        if k == 'rec':
            return self.lty(self.rec_tuple(t[1]))
        if k == 'tuple':
            return '(' + ' × '.join(self.lty(x) for x in t[1]) + ')'
        if k == 'list':
            return '(List %s)' % self.lty(t[1])
        if k == 'dict':
            return '(List (%s × %s))' % (self.lty(t[1]), self.lty(t[2]))
        if k == 'opt':
            return '(Option %s)' % self.lty(t[1])
        raise Untranslatable('no Lean type for %r' % (t,))

    def rec_tuple(self, name):
        if name not in self.records:
            raise Untranslatable('undeclared record ' + name)
        fs = [self.T(t) for _, t in self.records[name]['fields']]
        return fs[0] if len(fs) == 1 else ('tuple', tuple(fs))

    def rec_field(self, name, attr):
        """(index, number of fields, type) of an attribute of a record"""
        fields = self.records[name]['fields']
        for i, (a, t) in enumerate(fields):
            if a == attr:
                return i, len(fields), self.T(t)
        return None

    def fill(self, text):
        """substitute the type placeholders"""
        for _ in range(50):
            ms = set(re.findall(r'⟪(\d+)⟫', text))
            if not ms:
                return text
            for m in ms:
                t = self.resolve(('u', int(m)))
                if t[0] == 'u':
                    raise Untranslatable('%s: the type of a value could not be determined (⟪%s⟫)' % (self.spec['func'], m))
                text = text.replace('⟪%s⟫' % m, self.lty(t))
        raise Untranslatable('type placeholders do not resolve')

    def fresh(self, base='v'):
        self.nfresh += 1
        return '%s%d__' % (base, self.nfresh)

    @staticmethod
    def proj(txt, i, n):
        """component i of an n-tuple (right-nested product)"""
        if n == 1:
            return txt
        return txt + '.2' * i + ('.1' if i < n - 1 else '')

    def co(self, r, want, node=None):
        """coerce an expression to a wanted type (integer literals take the type of their context)"""
        want = self.resolve(want)
        if r.ty == INTLIT:
            if want == NAT:
                return R(r.txt, NAT)
            if want == A:
                self.literals.add(int(r.txt))
                return R('(%s : α)' % r.txt, A)
            if want[0] == 'u':
                self.fail(node, 'integer literal whose type is not fixed by its context')
            self.fail(node, 'integer literal where %s is needed' % self.show(want))
        have = self.resolve(r.ty)
        if want[0] == 'opt' and have[0] not in ('opt', 'u') and have != UNIT:
            self.unify(want[1], have, node)
            return R('(some %s)' % r.txt, want, r.binds)
        if want[0] == 'opt' and have == UNIT:
            return R('none', want, r.binds)
        self.unify(r.ty, want, node)
        return r

    # ------------------------------------------------------------------ environment
    def lookup(self, key, env, node=None):
        if key in env:
            return env[key]
        if key in self.pattrs:
            nm, ty = self.pattrs[key]
            self.add_param(nm, self.lty(ty))
            return Var(nm, ty)
        return None

    def key_of(self, node):
        """the environment key of a variable-like expression (a name or a declared attribute), else None"""
        if isinstance(node, ast.Name):
            return node.id
        if isinstance(node, (ast.Attribute, ast.Subscript)):
            t = ast.unparse(node)
            if t in self.pattrs:
                return t                                   # (also a declared cell such as `GlobalCache()['xsec_path']`)
        return None

    def known_of(self, text):
        """the translated py-dialect function a call text refers to (spec `calls` maps other receivers to a callname)"""
        name = self.call_map.get(text, text)
        k = self.known.get(name)
        return k if (k is not None and 'py' in k) else None

    def map_state(self, sig):
        """the caller's keys of the state cells of a callee (same attribute text, else the declared cell with the same Lean name)"""
        out = []
        for key, lean in sig['state_cells']:
            if key in self.pattrs and self.pattrs[key][0] == lean:
                out.append(key)
                continue
            hits = [k for k, (nm, _) in self.pattrs.items() if nm == lean]
            if len(hits) != 1:
                raise Untranslatable('%s: the callee assigns %s (%s), which this spec does not declare' % (self.spec['func'], key, lean))
            out.append(hits[0])
        return out

    def world_var(self):
        if not self.world:
            raise Untranslatable('%s: a callable value is called but no `world` is declared' % self.spec['func'])
        nm, tvn = self.world
        self.add_param(nm, self.lty(tv(tvn)))
        return nm

    def ext_prefix(self, d, env, node):
        """the leading arguments of a declared external / object method: the world it reads (`world='read'`) and the declared
        cells it reads (`reads=[…]`: attribute-like cells such as `GlobalCache()['xsec_path']`); (texts, Lean types)"""
        txts, tys = [], []
        if d.get('world') == 'read':
            txts.append(self.world_var())
            tys.append(self.lty(tv(self.world[1])))
        for k in d.get('reads', ()):
            v = env.get(k) or self.lookup(k, env, node)
            if v is None:
                self.fail(node, 'the cell %s is not declared' % k)
            txts.append(v.cell)
            tys.append(self.lty(v.ty))
        return txts, tys

    # ------------------------------------------------------------------ sequencing of raising sub-expressions
    def seq(self, rs, build, ty, raises_result=False):
        """combine sub-expressions (evaluated left to right); `build(texts)` is the Lean text of the result, of type `ty` — or,
        with raises_result, a term of type `Except Py.Err ty` (evaluated after the sub-expressions)"""
        binds = [b for r in rs for b in r.binds]
        txt = build([r.txt for r in rs])
        if raises_result:
            v = self.fresh()
            return R(v, ty, binds + [(v, txt)])
        return R(txt, ty, binds)

    def materialise(self, r):
        """one Lean term of type `Except Py.Err ty` for an expression with raising parts"""
        binds = list(r.binds)
        if binds and binds[-1][0] == r.txt:
            out = binds.pop()[1]                           # the value IS the last raising term
        else:
            out = '(Except.ok %s)' % r.txt
        for v, t in reversed(binds):
            out = '(Py.caseE %s (fun e__ => Except.error e__) (fun %s => %s))' % (t, v, out)
        return out

    # ------------------------------------------------------------------ expressions
    def expr(self, node, env, want=None):
        r = self.expr0(node, env, want)
        if want is not None:
            r = self.co(r, want, node)
        return r

    def value(self, node, env, want=None):
        """an expression that must not raise"""
        r = self.expr(node, env, want)
        if r.raises:
            self.fail(node, 'an expression that may raise is used where the translator cannot sequence it')
        return r

    def pattern_external(self, node, env):
        """an expression shape declared as an external (`pattern_externals`): the regex groups a0, a1, … are its argument
        expressions; the value is the declared function parameter applied to them"""
        text = ast.unparse(node)
        for d in self.pattern_externals:
            mm = re.fullmatch(d['rx'], text)
            if mm:
                ats = [self.T(t) for t in d['args']]
                rt = self.T(d['ret'])
                rs = [self.expr(ast.parse(mm.group('a%d' % i), mode='eval').body, env, t) for i, t in enumerate(ats)]
                raises = bool(d.get('raises'))
                rtxt = ('(Except Py.Err %s)' % self.lty(rt)) if raises else self.lty(rt)
                self.add_param(d['lean'], ' → '.join([self.lty(t) for t in ats] + [rtxt]))
                if raises:
                    self.raise_points += 1
                return self.seq(rs, lambda a: '(%s %s)' % (d['lean'], ' '.join(a)) if a else d['lean'], rt, raises_result=raises)
        return None

    def expr0(self, node, env, want):
        if self.pattern_externals and not isinstance(node, (ast.Constant, ast.Name)):
            r = self.pattern_external(node, env)
            if r is not None:
                return r
        if self.expr_externals and not isinstance(node, (ast.Constant, ast.Name)):
            t = ast.unparse(node)
            if t in self.expr_externals:
                d = self.expr_externals[t]                 # the value of this expression is a parameter
                ty = self.T(d['ty'])
                self.add_param(d['lean'], self.lty(ty))
                return R(d['lean'], ty)
        if isinstance(node, ast.Constant):
            v = node.value
            if v is None:
                if want is not None and self.resolve(want)[0] == 'opt':
                    return R('none', self.resolve(want))
                return R('()', UNIT)
            if isinstance(v, bool):
                return R('true' if v else 'false', BOOL)
            if isinstance(v, str):
                return R(self.strlit(v), STR)
            if isinstance(v, int):
                if v < 0:
                    self.fail(node, 'negative literal')
                return R(str(v), INTLIT)
            if isinstance(v, float):
                if float(v) == int(v) and 0 <= v < 1e9:
                    self.literals.add(int(v))
                    return R('(%d : α)' % int(v), A)
                if v < 0:
                    self.fail(node, 'negative literal')
                nm = const_name(v)
                self.float_consts[nm] = float(v)
                self.add_param(nm, 'α')
                return R(nm, A)
            self.fail(node, 'unsupported literal')
        key = self.key_of(node)
        if key is not None:
            if key in self.penums:
                en, code = self.penums[key]
                return R('(%d : Nat)' % code, ('enum', en))
            v = self.lookup(key, env, node)
            if v is None:
                self.fail(node, 'unknown name (declare it in params / attrs)')
            return R(v.cell, v.ty)
        if isinstance(node, ast.Attribute):
            t = ast.unparse(node)
            if t in self.penums:
                en, code = self.penums[t]
                return R('(%d : Nat)' % code, ('enum', en))
            if t in self.known and 'py' in self.known[t] and self.known[t]['py'].get('property'):
                call = ast.copy_location(ast.Call(func=node, args=[], keywords=[]), node)
                return self.call_known(call, env, self.known[t], stmt=False)[0]
            # attribute of a reference variable: obj.x with obj in {A, B}
            if isinstance(node.value, ast.Name) and node.value.id in env and env[node.value.id].ty == ('ref',):
                return self.ref_read(node, env)
            base = self.expr(node.value, env)
            bt = self.resolve(base.ty)
            if bt[0] == 'rec' and self.rec_field(bt[1], node.attr) is not None:
                i, n, ft = self.rec_field(bt[1], node.attr)
                return self.seq([base], lambda a: self.proj(a[0], i, n), ft)
            if bt[0] == 'tv' and node.attr in self.obj_attrs.get(bt[1], {}):
                d = self.obj_attrs[bt[1]][node.attr]
                rt = self.T(d['ty'])
                self.add_param(d['lean'], '%s → %s' % (self.lty(bt), self.lty(rt)))
                return self.seq([base], lambda a: '(%s %s)' % (d['lean'], a[0]), rt)
            self.fail(node, 'undeclared attribute')
        if isinstance(node, ast.Tuple):
            wants = [None] * len(node.elts)
            if want is not None:
                w = self.resolve(want)
                if w[0] == 'tuple' and len(w[1]) == len(node.elts):
                    wants = list(w[1])
            rs = [self.expr(e, env, w) for e, w in zip(node.elts, wants)]
            if any(r.ty == INTLIT for r in rs):
                self.fail(node, 'integer literal in a tuple whose type is not known')
            if len(rs) == 1:
                self.fail(node, 'one-element tuple')
            return self.seq(rs, lambda a: '(' + ', '.join(a) + ')', ('tuple', tuple(r.ty for r in rs)))
        if isinstance(node, ast.List):
            if not node.elts:
                return R('[]', ('list', self.newu()))
            et = self.newu()
            if want is not None and self.resolve(want)[0] == 'list':
                et = self.resolve(want)[1]
            rs = [self.expr(e, env, et) for e in node.elts]
            return self.seq(rs, lambda a: '[' + ', '.join(a) + ']', ('list', et))
        if isinstance(node, ast.Dict):
            if node.keys:
                self.fail(node, 'non-empty dict display')
            return R('[]', ('dict', self.newu(), self.newu()))
        if isinstance(node, ast.UnaryOp):
            if isinstance(node.op, ast.Not):
                c = self.truth(node.operand, env)
                return self.seq([c], lambda a: '(!%s)' % a[0], BOOL)
            if isinstance(node.op, ast.USub):
                r = self.expr(node.operand, env, A)
                return self.seq([r], lambda a: '(-%s)' % a[0], A)
            self.fail(node, 'unsupported unary operator')
        if isinstance(node, ast.BinOp):
            return self.binop(node, env, want)
        if isinstance(node, ast.BoolOp) and isinstance(node.op, ast.Or) and len(node.values) == 2:
            l = self.expr(node.values[0], env)
            lt = self.resolve(l.ty)
            if lt == ('opt', STR):
                # `x or default` for an optional string: the default replaces None and the empty string
                r = self.expr(node.values[1], env, STR)
                if r.raises:
                    self.fail(node, 'a short-circuited operand that may raise')
                return self.seq([l, r], lambda a: '(Option.elim %s %s (fun v__ => if decide (v__ = "") then %s else v__))'
                                % (a[0], a[1], a[1]), STR)
        if isinstance(node, ast.BoolOp):
            rs = [self.truth(v, env) for v in node.values]
            if any(r.raises for r in rs[1:]):
                self.fail(node, 'a short-circuited operand that may raise')
            op = ' && ' if isinstance(node.op, ast.And) else ' || '
            return self.seq(rs, lambda a: '(' + op.join(a) + ')', BOOL)
        if isinstance(node, ast.Compare):
            return self.compare(node, env)
        if isinstance(node, ast.IfExp):
            c = self.truth(node.test, env)
            a = self.expr(node.body, env, want)
            b = self.expr(node.orelse, env, want)
            if a.ty == INTLIT and b.ty != INTLIT:
                a = self.co(a, b.ty, node)
            if b.ty == INTLIT and a.ty != INTLIT:
                b = self.co(b, a.ty, node)
            if a.ty == INTLIT:
                self.fail(node, 'conditional expression of two integer literals of unknown type')
            ty = self.unify(a.ty, b.ty, node)
            if a.raises or b.raises:
                at, bt = self.materialise(a), self.materialise(b)
                return self.seq([c], lambda x: '(if %s then %s else %s)' % (x[0], at, bt), ty, raises_result=True)
            return self.seq([c], lambda x: '(if %s then %s else %s)' % (x[0], a.txt, b.txt), ty)
        if isinstance(node, ast.Subscript):
            return self.subscript(node, env)
        if isinstance(node, ast.Call):
            return self.call(node, env, want)
        if isinstance(node, ast.ListComp):
            return self.listcomp(node, env)
        self.fail(node, 'unsupported expression')

    @staticmethod
    def strlit(v):
        if not all(32 <= ord(c) < 127 and c not in '"\\' for c in v):
            raise Untranslatable('string literal with characters outside plain ASCII: %r' % v)
        return '"%s"' % v

    def truth(self, node, env):
        """an expression in Boolean position (Python truthiness of the types that have an obvious one)"""
        r = self.expr(node, env)
        t = self.resolve(r.ty)
        if t == BOOL:
            return r
        if t[0] in ('list', 'dict'):
            return self.seq([r], lambda a: '(!(%s).isEmpty)' % a[0], BOOL)
        if t[0] == 'opt':
            return self.seq([r], lambda a: '(%s).isSome' % a[0], BOOL)
        if t == STR:
            return self.seq([r], lambda a: '(!decide (%s = ""))' % a[0], BOOL)
        self.fail(node, 'truth value of a %s' % self.show(t))

    def binop(self, node, env, want):
        ops = {ast.Add: '+', ast.Sub: '-', ast.Mult: '*', ast.Div: '/'}
        if type(node.op) not in ops:
            self.fail(node, 'unsupported operator')
        op = ops[type(node.op)]
        l = self.expr(node.left, env)
        r = self.expr(node.right, env)
        lt, rt = self.resolve(l.ty), self.resolve(r.ty)
        if lt == INTLIT and rt == INTLIT:
            w = self.resolve(want) if want is not None else None
            if w not in (A, NAT):
                self.fail(node, 'arithmetic on integer literals of unknown type')
            lt = rt = w
        if rt == INTLIT and (lt == ('list', A) or self.is_num3(lt)):
            r = self.co(r, A, node)                        # array op integer literal: the literal is a scalar of the carrier
            rt = A
        if lt == INTLIT and (rt == ('list', A) or self.is_num3(rt)):
            l = self.co(l, A, node)
            lt = A
        if lt == INTLIT:
            l = self.co(l, rt, node)
            lt = rt
        if rt == INTLIT:
            r = self.co(r, lt, node)
            rt = lt
        if lt == rt == A:
            return self.seq([l, r], lambda a: '(%s %s %s)' % (a[0], op, a[1]), A)
        if lt == rt == NAT and op != '/':
            return self.seq([l, r], lambda a: '(%s %s %s)' % (a[0], op, a[1]), NAT)
        if lt == rt == STR and op == '+':
            return self.seq([l, r], lambda a: '(%s ++ %s)' % (a[0], a[1]), STR)
        if lt == ('list', A) and rt == A:                  # numpy: the scalar is broadcast
            return self.seq([l, r], lambda a: '(List.map (fun x__ => (x__ %s %s)) %s)' % (op, a[1], a[0]), lt)
        if lt == A and rt == ('list', A):
            return self.seq([l, r], lambda a: '(List.map (fun x__ => (%s %s x__)) %s)' % (a[0], op, a[1]), rt)
        if self.is_num3(lt) and rt == A:                   # a 3-D array and a scalar
            return self.seq([l, r], lambda a: '(List.map (List.map (List.map (fun x__ => (x__ %s %s)))) %s)' % (op, a[1], a[0]), lt)
        if lt[0] == rt[0] == 'list' and op == '+':
            ty = self.unify(lt, rt, node)
            return self.seq([l, r], lambda a: '(%s ++ %s)' % (a[0], a[1]), ty)
        self.fail(node, 'arithmetic on %s and %s' % (self.show(lt), self.show(rt)))

    def compare(self, node, env):
        if len(node.ops) != 1:
            self.fail(node, 'chained comparison')
        op = type(node.ops[0])
        lnode, rnode = node.left, node.comparators[0]
        if op in (ast.In, ast.NotIn):
            neg = (lambda s: '(!%s)' % s) if op is ast.NotIn else (lambda s: s)
            x = self.expr(lnode, env)
            if isinstance(rnode, (ast.Tuple, ast.List)):
                # membership in a display: `==` against the elements in order
                rs = [self.expr(e, env, x.ty) for e in rnode.elts]
                self.need_eq(x.ty, node)
                return self.seq([x] + rs, lambda a: neg('(' + ' || '.join('decide (%s = %s)' % (a[0], b) for b in a[1:])
                                                        + ')'), BOOL)
            c = self.expr(rnode, env)
            ct = self.resolve(c.ty)
            if ct[0] == 'dict':
                x = self.co(x, ct[1], node)
                self.need_eq(ct[1], node)
                return self.seq([x, c], lambda a: neg('(Py.dhas %s %s)' % (a[1], a[0])), BOOL)
            if ct[0] == 'list' and self.resolve(ct[1])[0] == 'u' and self.resolve(x.ty) == A:
                self.unify(ct[1], A, node)                 # a list whose element type is not fixed yet: it holds numbers
                ct = self.resolve(c.ty)
            if ct[0] == 'list' and self.resolve(ct[1]) == A:
                # numbers: `==` through the order (IEEE: false for NaN, true for ±0)
                x = self.co(x, A, node)
                return self.seq([x, c], lambda a: neg('(List.any %s (fun y__ => (decide (%s ≤ y__) && decide (y__ ≤ %s))))'
                                                      % (a[1], a[0], a[0])), BOOL)
            if ct[0] == 'list':
                x = self.co(x, ct[1], node)
                self.need_eq(ct[1], node)
                return self.seq([x, c], lambda a: neg('(Py.lhas %s %s)' % (a[1], a[0])), BOOL)
            self.fail(node, 'membership in a %s' % self.show(ct))
        if op in (ast.Is, ast.IsNot):
            neg = (lambda s: '(!%s)' % s) if op is ast.IsNot else (lambda s: s)
            if isinstance(rnode, ast.Constant) and rnode.value is None:
                x = self.expr(lnode, env)
                xt = self.resolve(x.ty)
                if xt[0] == 'opt':
                    return self.seq([x], lambda a: neg('(%s).isNone' % a[0]), BOOL)
                if xt == UNIT:
                    return R(neg('true'), BOOL)
                if xt[0] == 'u':
                    self.fail(node, '`is None` on a value of unknown type')
                return R(neg('false'), BOOL)       # a value of a type that has no None
            l = self.expr(lnode, env)
            r = self.expr(rnode, env)
            if self.resolve(l.ty)[0] == 'enum' and self.resolve(l.ty) == self.resolve(r.ty):
                return self.seq([l, r], lambda a: neg('decide (%s = %s)' % (a[0], a[1])), BOOL)
            self.fail(node, '`is` on values that are not enumeration members')
        l = self.expr(lnode, env)
        r = self.expr(rnode, env)
        if l.ty == INTLIT and r.ty == INTLIT:
            self.fail(node, 'comparison of two literals')
        if l.ty == INTLIT:
            l = self.co(l, r.ty, node)
        if r.ty == INTLIT:
            r = self.co(r, l.ty, node)
        t = self.unify(l.ty, r.ty, node)
        if op in (ast.Eq, ast.NotEq):
            neg = (lambda s: '(!%s)' % s) if op is ast.NotEq else (lambda s: s)
            if t == A:
                # IEEE / numpy `==`: through the order (false for NaN, true for ±0)
                return self.seq([l, r], lambda a: neg('(decide (%s ≤ %s) && decide (%s ≤ %s))' % (a[0], a[1], a[1], a[0])),
                                BOOL)
            self.need_eq(t, node)
            return self.seq([l, r], lambda a: neg('decide (%s = %s)' % (a[0], a[1])), BOOL)
        if t not in (A, NAT):
            self.fail(node, 'order comparison on %s' % self.show(t))
        form = {ast.Lt: 'decide (%s < %s)', ast.LtE: 'decide (%s ≤ %s)'}
        if op in form:
            return self.seq([l, r], lambda a: form[op] % (a[0], a[1]), BOOL)
        form2 = {ast.Gt: 'decide (%s < %s)', ast.GtE: 'decide (%s ≤ %s)'}
        if op in form2:
            return self.seq([l, r], lambda a: form2[op] % (a[1], a[0]), BOOL)
        self.fail(node, 'unsupported comparison')

    def need_eq(self, t, node):
        """`==` on this type must be decidable in Lean"""
        t = self.resolve(t)
        if t in (NAT, STR, BOOL, UNIT) or t[0] in ('enum', 'ref'):
            return
        if t[0] == 'tv':
            if 'deq' not in str(self.tvars.get(t[1], '')):
                self.fail(node, 'equality on the type variable %s, which is not declared `deq`' % t[1])
            return
        if t[0] == 'tuple':
            for x in t[1]:
                self.need_eq(x, node)
            return
        self.fail(node, 'equality on %s' % self.show(t))

    def is_num_array(self, t):
        t = self.resolve(t)
        while t[0] == 'list':
            t = self.resolve(t[1])
        return t == A

    def subscript(self, node, env):
        if self.key_of(node) is None and (isinstance(node.slice, ast.Constant) and node.slice.value is Ellipsis
                                          or isinstance(node.slice, ast.Slice) and node.slice.lower is None
                                          and node.slice.upper is None and node.slice.step is None
                                          or isinstance(node.slice, ast.Tuple) and not node.slice.elts):
            r = self.expr(node.value, env)
            if self.resolve(r.ty)[0] == 'list' or self.resolve(r.ty) in (A, NAT):
                return r                                   # a[:], a[...], a[()]: all the elements (a copy / the array read from its container)
        if isinstance(node.value, ast.Attribute) and node.value.attr == 'shape' and isinstance(node.slice, ast.Constant) \
                and node.slice.value == 0:
            r = self.expr(node.value.value, env)
            if self.resolve(r.ty)[0] != 'list':
                self.fail(node, 'shape of a %s' % self.show(r.ty))
            return self.seq([r], lambda a: '(%s).length' % a[0], NAT)   # first axis of an array = length of the list
        base = self.expr(node.value, env)
        bt = self.resolve(base.ty)
        idx = node.slice
        if bt[0] == 'list' and isinstance(idx, ast.Slice) and idx.upper is None and idx.step is None \
                and isinstance(idx.lower, ast.Constant) and isinstance(idx.lower.value, int) and idx.lower.value >= 0 \
                and not isinstance(idx.lower.value, bool):
            return self.seq([base], lambda a: '(List.drop %d %s)' % (idx.lower.value, a[0]), bt)   # l[k:]
        if self.is_num3(bt) and isinstance(idx, ast.Tuple) and len(idx.elts) == 3 and self.spec.get('total_index') \
                and all(self.full_slice(e) for e in idx.elts[:2]) and self.key_of(idx.elts[2]) is not None:
            iv = env.get(self.key_of(idx.elts[2])) or self.lookup(self.key_of(idx.elts[2]), env)
            if iv is not None and self.resolve(iv.ty) == ('list', NAT):
                # A[:, :, idx] for an index array (TOTALISED like a[idx]): along the last axis, the elements at those positions
                self.literals.add(0)
                return self.seq([base], lambda a: '(Py.takeLast3 (0 : α) %s %s)' % (a[0], iv.cell), bt)
        if bt == STR and isinstance(idx, ast.Slice) and idx.upper is None and idx.step is None \
                and isinstance(idx.lower, ast.Constant) and isinstance(idx.lower.value, int) and idx.lower.value >= 0:
            return self.seq([base], lambda a: '(Py.strDrop %d %s)' % (idx.lower.value, a[0]), STR)
        if bt[0] == 'tuple':
            n = len(bt[1])
            i = None
            if isinstance(idx, ast.Constant) and isinstance(idx.value, int):
                i = idx.value
            elif isinstance(idx, ast.UnaryOp) and isinstance(idx.op, ast.USub) and isinstance(idx.operand, ast.Constant):
                i = -idx.operand.value
            if i is None or not -n <= i < n:
                self.fail(node, 'a tuple indexed by something else than a literal in range')
            i %= n
            return self.seq([base], lambda a: self.proj(a[0], i, n), bt[1][i])
        if bt[0] == 'dict':
            k = self.expr(idx, env, bt[1])
            self.need_eq(bt[1], node)
            self.raise_points += 1
            return self.seq([base, k], lambda a: '(Py.dgetE %s %s)' % (a[0], a[1]), bt[2], raises_result=True)
        if bt[0] == 'list' and self.spec.get('total_index'):
            # TOTALISED (spec `total_index`): an out-of-range index gives the default of the element type instead of IndexError
            d = self.default(bt[1], node)
            ik = self.key_of(idx)
            iv = (env.get(ik) or self.lookup(ik, env)) if ik else None
            if iv is not None and self.resolve(iv.ty) == ('list', NAT):
                # a[idx] for an index array: the elements at those positions, in that order
                return self.seq([base], lambda a: '(List.map (fun i__ => (%s).getD i__ %s) %s)' % (a[0], d, iv.cell), bt)
            if isinstance(idx, ast.UnaryOp) and isinstance(idx.op, ast.USub) and isinstance(idx.operand, ast.Constant) \
                    and idx.operand.value == 1:
                return self.seq([base], lambda a: '((%s).getLastD %s)' % (a[0], d), bt[1])
            k = self.expr(idx, env, NAT)
            return self.seq([base, k], lambda a: '((%s).getD %s %s)' % (a[0], a[1], d), bt[1])
        if bt[0] == 'list':
            k = self.expr(idx, env, NAT)
            self.raise_points += 1
            return self.seq([base, k], lambda a: '(Py.lgetE %s %s)' % (a[0], a[1]), bt[1], raises_result=True)
        self.fail(node, 'subscript of a %s' % self.show(bt))

    def is_num3(self, t):
        t = self.resolve(t)
        return t[0] == 'list' and self.resolve(t[1])[0] == 'list' and self.resolve(self.resolve(t[1])[1]) == ('list', A)

    @staticmethod
    def full_slice(e):
        return isinstance(e, ast.Slice) and e.lower is None and e.upper is None and e.step is None

    @staticmethod
    def int_literal(node):
        """the value of an integer literal, possibly negated, else None"""
        if isinstance(node, ast.Constant) and isinstance(node.value, int) and not isinstance(node.value, bool):
            return node.value
        if isinstance(node, ast.UnaryOp) and isinstance(node.op, ast.USub) and isinstance(node.operand, ast.Constant) \
                and isinstance(node.operand.value, int) and not isinstance(node.operand.value, bool):
            return -node.operand.value
        return None

    def index_int(self, node, env):
        """Lean text (an `Int`) of an index expression: an int counter, a count, or a literal"""
        iv = self.int_literal(node)
        if iv is not None:
            return '(%d : Int)' % iv
        r = self.value(node, env)
        t = self.resolve(r.ty)
        if t == INT:
            return r.txt
        if t == NAT:
            return '(Int.ofNat %s)' % r.txt
        self.fail(node, 'index of type %s' % self.show(t))

    def default(self, t, node=None):
        """the default value of a type (totalised indexing)"""
        t = self.resolve(t)
        if t == A:
            self.literals.add(0)
            return '(0 : α)'
        if t == NAT:
            return '0'
        if t[0] in ('list', 'dict'):
            return '[]'
        if t[0] == 'rec':
            return self.default(self.rec_tuple(t[1]), node)
        if t[0] == 'tuple':
            return '(' + ', '.join(self.default(x, node) for x in t[1]) + ')'
        if t == STR:
            return '""'
        if t == BOOL:
            return 'false'
        self.fail(node, 'no default value for %s' % self.show(t))

    def ref_read(self, node, env):
        """obj.x for a reference variable obj: the attribute of the object it refers to"""
        v = env[node.value.id]
        arms = []
        ty = None
        for objtext, code in sorted(self.refs.items(), key=lambda kv: kv[1]):
            key = objtext + '.' + node.attr
            tv_ = self.lookup(key, env, node)
            if tv_ is None:
                self.fail(node, 'attribute %s is not declared' % key)
            ty = tv_.ty if ty is None else self.unify(ty, tv_.ty, node)
            arms.append((code, tv_.cell))
        txt = arms[-1][1]
        for code, cell in reversed(arms[:-1]):
            txt = '(if %s = %d then %s else %s)' % (v.cell, code, cell, txt)
        return R(txt, ty)

    # ------------------------------------------------------------------ calls
    def ext_key(self, node):
        f = ast.unparse(node.func)
        if node.keywords:
            return f + '(' + ','.join(k.arg + '=' for k in node.keywords if k.arg) + ')'
        return f + '()'

    def call(self, node, env, want=None):
        for d in ():
            mm = None
            if mm:
                # a call shape declared as an external: the groups a0, a1, … are its argument expressions
                ats = [self.T(t) for t in d['args']]
                rt = self.T(d['ret'])
                rs = [self.expr(ast.parse(mm.group('a%d' % i), mode='eval').body, env, t) for i, t in enumerate(ats)]
                raises = bool(d.get('raises'))
                rtxt = ('(Except Py.Err %s)' % self.lty(rt)) if raises else self.lty(rt)
                self.add_param(d['lean'], ' → '.join([self.lty(t) for t in ats] + [rtxt]))
                if raises:
                    self.raise_points += 1
                return self.seq(rs, lambda a: '(%s %s)' % (d['lean'], ' '.join(a)) if a else d['lean'], rt, raises_result=raises)
        if isinstance(node.func, ast.Attribute) and node.func.attr == 'astype' and len(node.args) == 1 and not node.keywords \
                and ast.unparse(node.args[0]) in ('np.float64', 'numpy.float64', 'float'):
            r = self.expr(node.func.value, env)
            if self.is_num_array(r.ty):
                return r                                   # the numbers of an array of floats, as floats
        f = ast.unparse(node.func)
        node = self.expand_star(node, env)
        if any(isinstance(a, ast.Starred) for a in node.args) or any(k.arg is None for k in node.keywords):
            self.fail(node, 'star arguments')
        key = self.ext_key(node)
        if key in self.pexternals:
            d = self.pexternals[key]
            argn = list(node.args) + [k.value for k in node.keywords]
            ats = [self.T(t) for t in d['args']]
            if len(argn) != len(ats):
                self.fail(node, 'external call does not match its declared arguments')
            rt = self.T(d['ret'])
            rs = [self.expr(a, env, t) for a, t in zip(argn, ats)]
            raises = bool(d.get('raises'))
            rtxt = ('(Except Py.Err %s)' % self.lty(rt)) if raises else self.lty(rt)
            ptx, pty = self.ext_prefix(d, env, node)
            self.add_param(d['lean'], ' → '.join(pty + [self.lty(t) for t in ats] + [rtxt]))
            if raises:
                self.raise_points += 1
            return self.seq(rs, lambda a: '(%s %s)' % (d['lean'], ' '.join(ptx + a)) if (a or ptx) else d['lean'], rt,
                            raises_result=raises)
        if f == 'len' and len(node.args) == 1 and not node.keywords:
            r = self.expr(node.args[0], env)
            t = self.resolve(r.ty)
            if t[0] not in ('list', 'dict') and t != STR:
                self.fail(node, 'len of a %s' % self.show(t))
            return self.seq([r], lambda a: '(%s).length' % a[0], NAT)
        if f in ('np.array', 'np.asarray', 'numpy.array', 'numpy.asarray') and len(node.args) == 1 and not node.keywords:
            r = self.expr(node.args[0], env)
            if self.resolve(r.ty)[0] != 'list':
                self.fail(node, 'np.array of a %s' % self.show(r.ty))
            return r                                      # a 1-D array is modelled as the list of its elements
        if f in ('np.concatenate', 'numpy.concatenate') and len(node.args) == 1 and not node.keywords:
            r = self.expr(node.args[0], env)
            t = self.resolve(r.ty)
            if t[0] != 'list' or self.resolve(t[1])[0] != 'list':
                self.fail(node, 'np.concatenate of a %s' % self.show(t))
            return self.seq([r], lambda a: '(List.flatten %s)' % a[0], self.resolve(t[1]))   # 1-D arrays joined in order
        if f in ('np.zeros_like', 'numpy.zeros_like') and len(node.args) == 1 and not node.keywords:
            r = self.expr(node.args[0], env)
            if self.resolve(r.ty) != ('list', A):
                self.fail(node, 'np.zeros_like of a %s' % self.show(r.ty))
            self.literals.add(0)
            return self.seq([r], lambda a: '(List.map (fun _ => (0 : α)) %s)' % a[0], ('list', A))
        if f in ('min', 'max') and len(node.args) == 1 and not node.keywords:
            r = self.expr(node.args[0], env)
            if self.resolve(r.ty) != ('list', A):
                self.fail(node, '%s of a %s' % (f, self.show(r.ty)))
            self.raise_points += 1
            return self.seq([r], lambda a: '(Py.%sE %s)' % (f, a[0]), A, raises_result=True)
        if f in ('min', 'max') and len(node.args) == 2 and not node.keywords:
            a_, b_ = self.expr(node.args[0], env), self.expr(node.args[1], env)
            if a_.ty == INTLIT and b_.ty != INTLIT:
                a_ = self.co(a_, b_.ty, node)
            if b_.ty == INTLIT and a_.ty != INTLIT:
                b_ = self.co(b_, a_.ty, node)
            t = self.unify(a_.ty, b_.ty, node)
            if t == NAT:
                return self.seq([a_, b_], lambda a: '(%s %s %s)' % (f, a[0], a[1]), NAT)
            if t == A:
                if f == 'max':      # Python: the first maximal argument
                    return self.seq([a_, b_], lambda a: '(if %s < %s then %s else %s)' % (a[0], a[1], a[1], a[0]), A)
                return self.seq([a_, b_], lambda a: '(if %s < %s then %s else %s)' % (a[1], a[0], a[1], a[0]), A)
            self.fail(node, '%s of %s' % (f, self.show(t)))
        if f in self.known and 'py' not in self.known[f]:
            return self.call_base(node, env, self.known[f])
        if f in ('dict', 'list') and len(node.args) == 1 and not node.keywords:
            r = self.expr(node.args[0], env)
            t = self.resolve(r.ty)
            if t[0] != f:
                self.fail(node, '%s() of a %s' % (f, self.show(t)))
            return R(r.txt, t, r.binds)                   # a copy: the same value, a new object
        if self.known_of(f) is not None:
            return self.call_known(node, env, self.known_of(f), stmt=False)[0]
        if isinstance(node.func, ast.Attribute):
            recv = node.func.value
            m = node.func.attr
            if isinstance(recv, ast.Constant) and isinstance(recv.value, str) and m == 'format':
                return self.str_format(node, env)
            base = self.expr(recv, env)
            bt = self.resolve(base.ty)
            if bt == ('list', A) and m in ('max', 'min') and not node.args and not node.keywords:
                self.raise_points += 1
                return self.seq([base], lambda a: '(Py.%sE %s)' % (m, a[0]), A, raises_result=True)
            if bt == ('list', A) and m == 'searchsorted' and len(node.args) == 1 \
                    and all(k.arg == 'side' and isinstance(k.value, ast.Constant) and k.value.value in ('left', 'right')
                            for k in node.keywords) and len(node.keywords) <= 1:
                side = node.keywords[0].value.value if node.keywords else 'left'
                v = self.expr(node.args[0], env, A)
                fnm = 'Py.searchsortedRight' if side == 'right' else 'Py.searchsortedLeft'
                return self.seq([base, v], lambda a: '(%s %s %s)' % (fnm, a[0], a[1]), NAT)
            if bt == STR and m == 'split' and len(node.args) == 1 and not node.keywords \
                    and isinstance(node.args[0], ast.Constant) and isinstance(node.args[0].value, str) \
                    and len(node.args[0].value) == 1 and 32 < ord(node.args[0].value) < 127 and node.args[0].value not in "'\\":
                sep = node.args[0].value
                return self.seq([base], lambda a: "(Py.split1 '%s' %s)" % (sep, a[0]), ('list', STR))
            if bt == STR and m == 'lower' and not node.args and not node.keywords:
                return self.seq([base], lambda a: '(Py.lower %s)' % a[0], STR)
            if bt[0] == 'tv' and m in self.obj_methods.get(bt[1], {}):
                d = self.obj_methods[bt[1]][m]
                ats = [self.T(t) for t in d['args']]
                if len(node.args) != len(ats) or node.keywords:
                    self.fail(node, 'method call does not match its declared arguments')
                rt = self.T(d['ret'])
                rs = [self.expr(a, env, t) for a, t in zip(node.args, ats)]
                ptx, pty = self.ext_prefix(d, env, node)
                if d.get('raises'):                        # a method that may raise: the parameter returns `Except Py.Err ret`
                    self.add_param(d['lean'], ' → '.join(pty + [self.lty(bt)] + [self.lty(t) for t in ats]
                                                         + ['(Except Py.Err %s)' % self.lty(rt)]))
                    self.raise_points += 1
                    return self.seq([base] + rs, lambda a: '(%s %s)' % (d['lean'], ' '.join(ptx + a)), rt, raises_result=True)
                self.add_param(d['lean'], ' → '.join(pty + [self.lty(bt)] + [self.lty(t) for t in ats] + [self.lty(rt)]))
                return self.seq([base] + rs, lambda a: '(%s %s)' % (d['lean'], ' '.join(ptx + a)), rt)
            self.fail(node, 'unsupported method call')
        # a callable VALUE (of a type variable declared with `call=`)
        fn = self.expr(node.func, env)
        ft = self.resolve(fn.ty)
        if ft[0] == 'tv' and isinstance(self.tvars.get(ft[1]), dict) and 'call' in self.tvars[ft[1]]:
            d = self.tvars[ft[1]]
            mode, argts, rett = d['call']
            if mode != 'read':
                self.fail(node, "a 'write' callable used as an expression")
            ats = [self.T(t) for t in argts]
            rt = self.T(rett)
            if len(node.args) != len(ats) or node.keywords:
                self.fail(node, 'call of a callable value does not match its declared arguments')
            rs = [self.expr(a, env, t) for a, t in zip(node.args, ats)]
            w = self.world_var()
            wcell = env['$world'].cell if '$world' in env else w
            wt = self.lty(tv(self.world[1]))
            self.add_param(d['lean'], ' → '.join([wt, self.lty(ft)] + [self.lty(t) for t in ats] + [self.lty(rt)]))
            return self.seq([fn] + rs, lambda a: '(%s %s %s)' % (d['lean'], wcell, ' '.join(a)), rt)
        self.fail(node, 'unsupported call')

    def call_base(self, node, env, known):
        """a call of a function translated by the base dialect of translate.py in the same file (scalar kernels).  An 'elem'
        parameter is element-wise: given lists, the kernel is applied element by element (numpy requires equal lengths; with
        unequal lengths `List.zipWith` stops at the shorter one — a totalisation)"""
        kinds = [k for k in known['arg_kinds']]
        if node.keywords or len(node.args) != len(kinds):
            self.fail(node, 'call does not match the parameters of the translated function')
        rs, lifted = [], []
        for a, k in zip(node.args, kinds):
            if k == 'skip':
                continue
            if k not in ('s', 'elem'):
                self.fail(node, 'a parameter of kind %s of a base-dialect function' % k)
            r = self.expr(a, env)
            if r.ty == INTLIT:
                r = self.co(r, A, node)
            t = self.resolve(r.ty)
            if k == 'elem' and t == ('list', A):
                lifted.append(len(rs))
            elif t != A:
                self.fail(node, 'argument of type %s for a parameter of kind %s' % (self.show(t), k))
            rs.append(r)
        for nm, ty in known['extra_params']:
            self.add_param(nm, ty)
        extras = [nm for nm, _ in known['extra_params']]
        if not lifted:
            return self.seq(rs, lambda a: '(%s %s)' % (known['lean'], ' '.join(a + extras)), A)
        if len(lifted) > 2:
            self.fail(node, 'more than two element-wise array arguments')

        def build(a):
            vs = ['a__', 'b__'][:len(lifted)]
            inner = list(a)
            for v, i in zip(vs, lifted):
                inner[i] = v
            body = '(%s %s)' % (known['lean'], ' '.join(inner + extras))
            if len(lifted) == 1:
                return '(List.map (fun a__ => %s) %s)' % (body, a[lifted[0]])
            return '(List.zipWith (fun a__ b__ => %s) %s %s)' % (body, a[lifted[0]], a[lifted[1]])
        return self.seq(rs, build, ('list', A))

    def expand_star(self, c, env):
        """f(x, *t) with t a tuple-typed variable: f(x, t[0], t[1], …)"""
        if not any(isinstance(a, ast.Starred) for a in c.args):
            return c
        args = []
        for a in c.args:
            if isinstance(a, ast.Starred):
                k = self.key_of(a.value)
                v = env.get(k) if k else None
                t = self.resolve(v.ty) if v else None
                if t is not None and t[0] == 'tv':
                    args.append(a.value)                   # an opaque argument pack: passed on as it is
                    continue
                if t is None or t[0] != 'tuple':
                    self.fail(c, 'a starred argument that is not a tuple variable')
                for i in range(len(t[1])):
                    args.append(ast.copy_location(ast.Subscript(value=a.value, slice=ast.Constant(value=i), ctx=ast.Load()), a))
            else:
                args.append(a)
        return ast.copy_location(ast.Call(func=c.func, args=args, keywords=c.keywords), c)

    def str_format(self, node, env):
        tpl = node.func.value.value
        parts = tpl.split('{}')
        if '{' in ''.join(parts) or '}' in ''.join(parts) or node.keywords or len(parts) - 1 != len(node.args):
            self.fail(node, 'unsupported format string')
        rs = [self.expr(a, env, STR) for a in node.args]   # '{}'.format(s) of a str is the str itself

        def build(a):
            out = []
            for i, p in enumerate(parts):
                if p:
                    out.append(self.strlit(p))
                if i < len(a):
                    out.append(a[i])
            return '(' + ' ++ '.join(out) + ')' if out else '""'
        return self.seq(rs, build, STR)

    def iterable(self, node, env):
        """(Lean text of the list iterated over, element type, raises)"""
        if isinstance(node, ast.Call) and isinstance(node.func, ast.Attribute) and not node.args \
                and node.func.attr in ('values', 'items', 'keys'):
            d = self.value(node.func.value, env)
            dt = self.resolve(d.ty)
            if dt[0] == 'dict':
                if node.func.attr == 'values':
                    return '(Py.values %s)' % d.txt, dt[2]
                if node.func.attr == 'keys':
                    return '(Py.keys %s)' % d.txt, dt[1]
                return d.txt, ('tuple', (dt[1], dt[2]))
        if isinstance(node, ast.Call) and ast.unparse(node.func) == 'zip' and len(node.args) in (2, 3) and not node.keywords:
            parts = [self.iterable(a, env) for a in node.args]
            txt = parts[-1][0]
            for p in reversed(parts[:-1]):
                txt = '(List.zip %s %s)' % (p[0], txt)
            return txt, ('tuple', tuple(p[1] for p in parts))
        if isinstance(node, ast.Call) and ast.unparse(node.func) == 'enumerate' and len(node.args) == 1 and not node.keywords:
            p = self.iterable(node.args[0], env)
            return '(Py.enumerate %s)' % p[0], ('tuple', (NAT, p[1]))
        if isinstance(node, ast.Call) and ast.unparse(node.func) == 'range' and len(node.args) == 1 and not node.keywords:
            n = self.value(node.args[0], env, NAT)
            return '(List.range %s)' % n.txt, NAT
        r = self.value(node, env)
        t = self.resolve(r.ty)
        if t[0] == 'list':
            return r.txt, t[1]
        if t[0] == 'dict':
            return '(Py.keys %s)' % r.txt, t[1]
        if t[0] == 'tv' and isinstance(self.tvars.get(t[1]), dict) and 'iter' in self.tvars[t[1]]:
            # an opaque value declared ITERABLE (tvars flag iter=(lean name, element type)): the list of what iterating it
            # yields is the function parameter `lean` applied to it
            nm, ety = self.tvars[t[1]]['iter']
            et = self.T(ety)
            self.add_param(nm, '%s → (List %s)' % (self.lty(t), self.lty(et)))
            return '(%s %s)' % (nm, r.txt), et
        self.fail(node, 'iteration over a %s' % self.show(t))

    def bind_target(self, target, src, ty, env, ind):
        """bind a loop / unpacking target to the value `src : ty`; returns the `let` lines"""
        ty = self.resolve(ty)
        if isinstance(target, ast.Name):
            if target.id == '_':
                return ''
            cell = self.new_cell(target.id, env)
            old = env.get(target.id)
            if old is not None and self.resolve(old.ty)[0] == 'opt' and self.resolve(old.ty)[1][0] == 'u' and ty[0] != 'opt' \
                    and ty[0] != 'u':
                self.unify(self.resolve(old.ty)[1], ty, target)   # `x = None` earlier: x is an optional of this type
            env[target.id] = Var(cell, ty)
            if src in ('[]', 'none'):
                return '%slet %s : %s := %s\n' % (ind, cell, self.lty(ty), src)
            return '%slet %s := %s\n' % (ind, cell, src) if cell != src else ''
        key = self.key_of(target)
        if key is not None and key in self.pattrs:
            if key not in self.state:
                self.fail(target, 'assignment to the attribute %s, which is not declared as state' % key)
            nm, aty = self.pattrs[key]
            self.unify(aty, ty, target)
            env[key] = Var(nm, aty)
            if src in ('[]', 'none'):
                return '%slet %s : %s := %s\n' % (ind, nm, self.lty(aty), src)
            return '%slet %s := %s\n' % (ind, nm, src)
        if isinstance(target, (ast.Tuple, ast.List)):
            if ty[0] != 'tuple' or len(ty[1]) != len(target.elts):
                self.fail(target, 'unpacking of a %s into %d targets' % (self.show(ty), len(target.elts)))
            out = ''
            if not re.fullmatch(r'[\w.]+', src):
                t = self.fresh('t')
                out += '%slet %s := %s\n' % (ind, t, src)
                src = t
            for i, e in enumerate(target.elts):
                out += self.bind_target(e, self.proj(src, i, len(target.elts)), ty[1][i], env, ind)
            return out
        self.fail(target, 'unsupported assignment target')

    def root_cell(self, node, env):
        """the cell of the variable / declared attribute an expression reads a PART of (x[i], x.field, x[i][j] …), else None"""
        while isinstance(node, (ast.Subscript, ast.Attribute)) and self.key_of(node) is None:
            node = node.value
        k = self.key_of(node)
        v = (env.get(k) or self.lookup(k, env)) if k else None
        return v.cell if v is not None else None

    def share(self, name, node, env):
        """after `name = <node>`: if the value is a mutable object that is a part of (or is) another variable's value, the two
        may be the same object — a later in-place mutation of `name` is then refused (the translation copies values)"""
        v = env.get(name)
        if v is None or not is_container(self.resolve(v.ty)):
            return
        if isinstance(node, (ast.Subscript, ast.Attribute, ast.Name)):
            rc = self.root_cell(node, env)
            if rc is not None and rc != v.cell:
                env[name] = Var(v.cell, v.ty, v.alias | frozenset([rc]))

    def new_cell(self, name, env):
        """the Lean variable for a (re)bound local; a container shared with another name must not be rebound under the same cell"""
        cell = lname(name)
        for k, v in env.items():
            if k != name and v.cell == cell and is_container(self.resolve(v.ty)):
                raise Untranslatable('%s: `%s` is rebound while `%s` still names the same container' % (self.spec['func'], name, k))
        return cell

    def listcomp(self, node, env):
        if len(node.generators) != 1 or node.generators[0].ifs or node.generators[0].is_async:
            self.fail(node, 'unsupported comprehension')
        g = node.generators[0]
        src, et = self.iterable(g.iter, env)
        env2 = dict(env)
        it = self.fresh('it')
        lets = self.bind_target(g.target, it, et, env2, '')
        lets = ' '.join(l.strip() + ';' for l in lets.split('\n') if l.strip())
        body = self.expr(node.elt, env2)
        if body.ty == INTLIT:
            self.fail(node, 'comprehension of integer literals')
        fn = '(fun (%s : %s) => %s %s)' % (it, self.lty(et), lets, body.txt)
        if body.raises:
            self.raise_points += 1
            fn = '(fun (%s : %s) => %s %s)' % (it, self.lty(et), lets, self.materialise(body))
            v = self.fresh()
            return R(v, ('list', body.ty), [(v, '(Py.mapE %s %s)' % (fn, src))])
        return R('(List.map %s %s)' % (fn, src), ('list', body.ty))

    # ------------------------------------------------------------------ statements
    def pack(self, keys, env):
        cells = [env[k].cell if k in env else self.lookup(k, env).cell for k in keys]
        if not cells:
            return '()'
        return cells[0] if len(cells) == 1 else '(' + ', '.join(cells) + ')'

    def pack_type(self, keys, env):
        ts = [self.lty((env[k] if k in env else self.lookup(k, env)).ty) for k in keys]
        if not ts:
            return 'Unit'
        return ts[0] if len(ts) == 1 else '(' + ' × '.join(ts) + ')'

    def unpack(self, keys, src, env, ind):
        out = ''
        for i, k in enumerate(keys):
            v = env[k] if k in env else self.lookup(k, env)
            out += '%slet %s := %s\n' % (ind, v.cell, self.proj(src, i, len(keys)))
        return out

    def names_in(self, nodes):
        out = set()
        for n in nodes:
            for x in ast.walk(n):
                if isinstance(x, ast.Name):
                    out.add(x.id)
                elif isinstance(x, ast.Attribute):
                    out.add(ast.unparse(x))
        return out

    def used_later(self, stmt):
        """names / attribute texts that may be read after `stmt` has run (textually later, or anywhere in a loop around it)"""
        later = [n for n in ast.walk(self.node) if isinstance(n, ast.stmt) and n.lineno > stmt.end_lineno]
        loops = [n for n in ast.walk(self.node) if isinstance(n, (ast.For, ast.While))
                 and n.lineno <= stmt.lineno and stmt.end_lineno <= n.end_lineno and n is not stmt]
        return self.names_in(later + loops)

    def check_mutation(self, key, env, stmt, allow=()):
        """`key` (a variable or declared attribute) is about to be mutated in place by `stmt`"""
        v = env[key] if key in env else self.lookup(key, env)
        if v is None:
            self.fail(stmt, 'mutation of an unknown variable')
        if v.cell in self.frozen:
            self.fail(stmt, 'mutation of `%s`, an element of the container the loop runs over' % key)
        if v.alias:
            self.fail(stmt, 'mutation of `%s`, which may be the same object as %s' % (key, sorted(v.alias)))
        if key in self.pattrs and key not in self.state:
            self.fail(stmt, 'mutation of the attribute %s, which is not declared as state' % key)
        if key in self.ptypes and key not in self.mutates:
            self.fail(stmt, 'mutation of the parameter %s, which is not declared in `mutates`' % key)
        later = None
        for k, o in env.items():
            if k != key and v.cell in o.alias:
                if later is None:
                    later = self.used_later(stmt) | (self.names_in([stmt]) - set(allow))
                if k in later:
                    self.fail(stmt, 'mutation of `%s` while `%s`, which may be the same object, is still in use' % (key, k))
        return v

    def assigned(self, stmts, env):
        """environment keys (names, declared attributes, '$world') that the statements (re)bind or mutate, in order"""
        out = []

        def add(k):
            if k is not None and k not in out:
                out.append(k)

        def target(t):
            if isinstance(t, (ast.Tuple, ast.List)):
                for e in t.elts:
                    target(e)
            elif isinstance(t, ast.Subscript) and self.key_of(t) is not None:
                add(self.key_of(t))
            elif isinstance(t, ast.Subscript):
                add(self.key_of(t.value) if not self.is_ref_attr(t.value, env) else None)
                for k in self.ref_attr_keys(t.value, env):
                    add(k)
            else:
                add(self.key_of(t))
        for s in stmts:
            if self.ignore_stmts and any(re.fullmatch(rx, ast.unparse(s), re.S) for rx in self.ignore_stmts):
                continue
            if isinstance(s, ast.Assign):
                for t in s.targets:
                    target(t)
                    if isinstance(t, ast.Attribute) and isinstance(t.value, ast.Name) and self.key_of(t) is None:
                        add(t.value.id)                    # x.field = e
                if isinstance(s.value, ast.Call):
                    self.call_effects(s.value, env, add)
                    if isinstance(s.value.func, ast.Attribute) and s.value.func.attr == 'readline' \
                            and isinstance(s.value.func.value, ast.Name) and s.value.func.value.id in self.streams:
                        add(s.value.func.value.id)
                if self.spec.get('element_views') and isinstance(s.value, ast.Subscript) and self.key_of(s.value) is None \
                        and self.key_of(s.value.value) is not None:
                    add(self.key_of(s.value.value))        # x = D[k]: D may be mutated through x
            elif isinstance(s, ast.AugAssign):
                target(s.target)
            elif isinstance(s, ast.Expr) and isinstance(s.value, ast.Call):
                if re.search(self.ignore_calls, ast.unparse(s.value)):
                    continue
                c = s.value
                if isinstance(c.func, ast.Attribute) and c.func.attr in MUTATORS:
                    add(self.key_of(c.func.value))
                self.call_effects(c, env, add)
            elif isinstance(s, ast.For):
                for k in self.assigned(s.body, env):
                    add(k)
            elif isinstance(s, ast.If):
                for k in self.assigned(s.body, env) + self.assigned(s.orelse, env):
                    add(k)
            elif isinstance(s, ast.Try):
                for k in self.assigned(list(s.body) + [x for h in s.handlers for x in h.body], env):
                    add(k)
            elif isinstance(s, (ast.While, ast.With)):
                for k in self.assigned(s.body, env):
                    add(k)
                if isinstance(s, ast.With):
                    for it in s.items:
                        if it.optional_vars is not None:
                            target(it.optional_vars)
        return out

    def call_effects(self, c, env, add):
        f = ast.unparse(c.func)
        if isinstance(c.func, ast.Attribute) and isinstance(c.func.value, ast.Name) and self.records:
            # a method of an object held as a record (the receiver may be a loop variable that is not bound yet)
            for rn, rd in self.records.items():
                cn = rd.get('methods', {}).get(c.func.attr)
                k = self.known.get(cn) if cn else None
                if k is not None and 'py' in k and k['py']['state_cells'] and self.known_of(f) is None:
                    add(c.func.value.id)
        if self.known_of(f) is not None:
            sig = self.known_of(f)['py']
            for pn, a in self.bind_args(c, sig):
                if pn in sig['mutates']:
                    add(self.key_of(a))
            for k in self.map_state(sig):
                add(k)
            if sig['writes_world']:
                add('$world')
            return
        k = self.key_of(c.func)
        v = env.get(k) if k else None
        if v is None and k is not None and k in self.pattrs:
            v = Var(*self.pattrs[k])
        if v is None and isinstance(c.func, ast.Name) and self.writes_world:
            add('$world')                                  # a local not bound yet (e.g. unpacked in the loop body): may write
        if v is not None:
            t = self.resolve(v.ty)
            if t[0] == 'tv' and isinstance(self.tvars.get(t[1]), dict) \
                    and self.tvars[t[1]].get('call', ('',))[0] in ('write', 'make'):
                add('$world')

    def is_ref_attr(self, node, env):
        return isinstance(node, ast.Attribute) and isinstance(node.value, ast.Name) and node.value.id in env \
            and env[node.value.id].ty == ('ref',)

    def ref_attr_keys(self, node, env):
        if not self.is_ref_attr(node, env):
            return []
        return [objtext + '.' + node.attr for objtext, _ in sorted(self.refs.items(), key=lambda kv: kv[1])]

    def bind_args(self, c, sig):
        """[(parameter name, argument node)] of a call of a translated function"""
        names = [p for p, _ in sig['params']]
        if len(c.args) > len(names):
            self.fail(c, 'too many arguments')
        pairs = list(zip(names, c.args))
        seen = {p for p, _ in pairs}
        for k in c.keywords:
            if k.arg not in names or k.arg in seen:
                self.fail(c, 'unexpected keyword argument')
            pairs.append((k.arg, k.value))
            seen.add(k.arg)
        for p, t in sig['params']:
            if p not in seen and t != 'skip' and t != UNIT:
                self.fail(c, 'argument %s is not given (defaults are not translated)' % p)
        for p, a in pairs:
            t = dict(sig['params'])[p]
            if t == UNIT and not (isinstance(a, ast.Constant) and a.value is None):
                self.fail(c, 'the translated function is specialised to %s=None' % p)
        order = {p: i for i, p in enumerate(names)}
        return sorted(pairs, key=lambda pa: order[pa[0]])

    def diverts(self, stmts):
        """does control possibly leave the statement list other than by falling off its end?"""
        for s in stmts:
            for n in ast.walk(s):
                if isinstance(n, (ast.Return, ast.Raise, ast.Continue, ast.Break)):
                    return True
        return False

    def block(self, stmts, env, ctx, ind, k):
        """translate a statement list in continuation style: `k(env, ind)` is the Lean text of what follows it"""
        if not stmts:
            return k(env, ind)
        s, rest = stmts[0], stmts[1:]

        def cont(env2, ind2=None):
            return self.block(rest, env2, ctx, ind if ind2 is None else ind2, k)
        if isinstance(s, ast.Expr) and isinstance(s.value, ast.Constant) and isinstance(s.value.value, str):
            return cont(env)
        if isinstance(s, (ast.Pass, ast.Import, ast.ImportFrom)):
            return cont(env)
        if isinstance(s, ast.Expr) and isinstance(s.value, ast.Call) and re.search(self.ignore_calls, ast.unparse(s.value)):
            return cont(env)
        if self.ignore_stmts and any(re.fullmatch(rx, ast.unparse(s), re.S) for rx in self.ignore_stmts):
            return cont(env)                               # declared: no effect the translation tracks
        if isinstance(s, ast.Return):
            return ctx.ret(s.value, env, ind)
        if isinstance(s, ast.Raise):
            return ctx.raise_(self.exc_text(s), env, ind)
        if isinstance(s, ast.Continue):
            if ctx.cont is None:
                self.fail(s, 'continue outside a translated loop')
            return ctx.cont(env, ind)
        if isinstance(s, ast.Break):
            if getattr(ctx, 'brk', None) is None:
                self.fail(s, 'break outside a translated `while True` loop')
            self.nleave += 1
            return ctx.brk(env, ind)
        if isinstance(s, ast.While):
            return self.while_stmt(s, env, ctx, ind, cont)
        if isinstance(s, ast.With):
            # `with E as f: body` for a declared expression E (expr_externals; e.g. an opened file): `f = E`, then the body
            # (leaving the block has no effect the translation tracks)
            if len(s.items) != 1 or not isinstance(s.items[0].optional_vars, ast.Name) \
                    or ast.unparse(s.items[0].context_expr) not in self.spec.get('expr_externals', {}):
                self.fail(s, 'unsupported with statement')
            asg = ast.copy_location(ast.Assign(targets=[s.items[0].optional_vars], value=s.items[0].context_expr), s)
            return self.block([asg] + list(s.body), env, ctx, ind, lambda e, i: cont(e, i))
        if isinstance(s, ast.Assign):
            if len(s.targets) != 1:
                self.fail(s, 'multiple assignment targets')
            return self.assign(s, s.targets[0], s.value, env, ctx, ind, cont)
        if isinstance(s, ast.Expr) and isinstance(s.value, ast.Call):
            return self.call_stmt(s, s.value, None, env, ctx, ind, cont)
        if isinstance(s, ast.Try):
            return self.try_stmt(s, env, ctx, ind, cont)
        if isinstance(s, ast.AugAssign):
            return self.aug_assign(s, env, ctx, ind, cont)
        if isinstance(s, ast.If):
            return self.if_stmt(s, env, ctx, ind, cont)
        if isinstance(s, ast.For):
            return self.for_stmt(s, env, ctx, ind, cont)
        self.fail(s, 'unsupported statement')

    def try_stmt(self, s, env, ctx, ind, cont):
        """try: x = E1  except (C1, C2): x = E2   (one assignment to the same local name in the body and in every handler; no
        else / finally).  An `except C` clause catches the errors NAMED C (subclass relations between exception classes are not
        modelled); a bare `except:` catches every error."""
        def one_assign(stmts):
            return len(stmts) == 1 and isinstance(stmts[0], ast.Assign) and len(stmts[0].targets) == 1 \
                and isinstance(stmts[0].targets[0], ast.Name)
        if not s.orelse and not s.finalbody and one_assign(s.body) and len(s.handlers) == 1 and s.handlers[0].name is None \
                and not one_assign(s.handlers[0].body):
            return self.try_block_handler(s, env, ctx, ind, cont)
        if not s.orelse and not s.finalbody and len(s.handlers) == 1 and s.handlers[0].name is None \
                and not (one_assign(s.body) and one_assign(s.handlers[0].body)):
            return self.try_general(s, env, ctx, ind, cont)
        if s.orelse or s.finalbody or not one_assign(s.body) or not all(one_assign(h.body) for h in s.handlers) \
                or len(s.handlers) != 1:
            self.fail(s, 'unsupported try statement')
        name = s.body[0].targets[0].id
        h = s.handlers[0]
        if h.body[0].targets[0].id != name or h.name is not None:
            self.fail(s, 'the handler does not assign the same variable')
        e1 = self.expr(s.body[0].value, env)
        if not e1.raises:
            return self.assign(s.body[0], s.body[0].targets[0], s.body[0].value, env, ctx, ind, cont)
        e2 = self.expr(h.body[0].value, env, e1.ty)
        ty = self.unify(e1.ty, e2.ty, s)
        if h.type is None:
            caught = 'true'
        else:
            classes = h.type.elts if isinstance(h.type, ast.Tuple) else [h.type]
            names = []
            for c in classes:
                n = ast.unparse(c)
                names.append(self.exc_classes[n] if n in self.exc_classes else '(Py.Err.other "%s")' % n.split('.')[-1])
            caught = '(' + ' || '.join('decide (e__ = %s)' % n for n in names) + ')'
        v = self.fresh()
        if h.type is None:
            term = '(Py.caseE %s (fun e__ => %s) (fun %s => Except.ok %s))' % (self.materialise(e1), self.materialise(e2), v, v)
        else:
            term = '(Py.caseE %s (fun e__ => if %s then %s else Except.error e__) (fun %s => Except.ok %s))' % (
                self.materialise(e1), caught, self.materialise(e2), v, v)
        self.raise_points += 1
        w = self.fresh()
        r = R(w, ty, [(w, term)])

        def use(txt, env2, ind2):
            env2 = dict(env2)
            return self.bind_target(s.body[0].targets[0], txt, ty, env2, ind2) + cont(env2, ind2)
        return self.bind_value(r, ctx, env, ind, use)

    def try_general(self, s, env, ctx, ind, cont):
        """try: <statements>  except (C1, C2): <statements>   (no else / finally, one clause without `as`): the body is translated
        with a context whose `raise` goes to the handler when the clause names the error (else it propagates), with the
        variables as they are where the error is raised; what follows the try statement runs in the outer context"""
        h = s.handlers[0]
        if h.type is None:
            caught = None
        else:
            classes = h.type.elts if isinstance(h.type, ast.Tuple) else [h.type]
            names = []
            for c in classes:
                n = ast.unparse(c)
                names.append(self.exc_classes[n] if n in self.exc_classes else '(Py.Err.other "%s")' % n.split('.')[-1])
            caught = lambda e: '(' + ' || '.join('decide (%s = %s)' % (e, n) for n in names) + ')'

        def raise2(e, env2, ind2):
            if caught is None:
                return self.block(list(h.body), dict(env2), ctx, ind2, cont)
            out = '%sif %s then\n' % (ind2, caught(e))
            out += self.block(list(h.body), dict(env2), ctx, ind2 + '  ', cont)
            out += '%selse\n' % ind2
            return out + ctx.raise_(e, env2, ind2 + '  ')
        ctx2 = Ctx(self, raise2, ctx._ret, ctx._cont)
        if getattr(ctx, 'brk', None) is not None:
            ctx2.brk = ctx.brk
        return self.block(list(s.body), env, ctx2, ind, cont)

    def while_stmt(self, s, env, ctx, ind, cont):
        """`while True:` — left by `break`, an exception (or `return`: not translated).  `Py.whileE fuel init body`: the body maps
        the loop state to (state, none = next pass | some none = break | some (some e) = raise e); `fuel` (a parameter of the
        generated definition) bounds the number of passes — a loop that is still running when it is used up ends in the error
        `nontermination` (Python would not return)"""
        if s.orelse or not (isinstance(s.test, ast.Constant) and s.test.value is True):
            self.fail(s, 'unsupported while statement')
        raw = self.assigned(s.body, env)
        keys = [k for k in raw if k in env or k in self.pattrs or k == '$world']
        wkeys = [k for k in keys if k != '$world']
        for k in wkeys:
            self.check_loop_var(k, env, s)
        has_w = '$world' in keys
        n = len(wkeys) + (1 if has_w else 0)

        def packs(e):
            cells = [(e.get(k) or self.lookup(k, e)).cell for k in wkeys] + ([self.world_var()] if has_w else [])
            if not cells:
                return '()'
            return cells[0] if len(cells) == 1 else '(' + ', '.join(cells) + ')'
        ts = [self.lty((env.get(k) or self.lookup(k, env)).ty) for k in wkeys] + ([self.lty(tv(self.world[1]))] if has_w else [])
        ptype = 'Unit' if not ts else (ts[0] if len(ts) == 1 else '(' + ' × '.join(ts) + ')')

        def unpack(src_, e, ind2):
            out = ''
            for i, k in enumerate(wkeys):
                out += '%slet %s := %s\n' % (ind2, (e.get(k) or self.lookup(k, e)).cell, self.proj(src_, i, n))
            if has_w:
                out += '%slet %s := %s\n' % (ind2, self.world_var(), self.proj(src_, n - 1, n))
            return out
        st = self.fresh('st')
        env2 = dict(env)
        i2 = ind + '    '
        head = unpack(st, env2, i2) if n else ''
        lctx = Ctx(self, lambda e, en, i: '%s(%s, some (some %s))\n' % (i, packs(en), e),
                   lambda node, en, i: self.fail(s, 'return inside a loop'),
                   lambda en, i: '%s(%s, none)\n' % (i, packs(en)))
        lctx.brk = lambda en, i: '%s(%s, some none)\n' % (i, packs(en))
        btxt = head + self.block(list(s.body), env2, lctx, i2, lambda en, i: '%s(%s, none)\n' % (i, packs(en)))
        self.add_param('fuel', 'Nat')
        self.raise_points += 1
        r = self.fresh('r')
        env3 = dict(env)
        out = '%slet %s := Py.whileE fuel %s (fun (%s : %s) =>\n%s%s  )\n' % (ind, r, packs(env), st, ptype, btxt, ind)
        out += unpack(r + '.1', env3, ind)
        return out + ('%sPy.caseO %s.2 (fun e__ =>\n%s%s  ) (\n%s%s  )\n'
                      % (ind, r, ctx.raise_('e__', env3, ind + '    '), ind, cont(env3, ind + '    '), ind))

    def try_block_handler(self, s, env, ctx, ind, cont):
        """try: x = E1  except (C1, C2): <statements>   — the handler is a statement list (it may `continue`, `raise`, `return`
        or fall through to what follows the try statement; it does not see `x`).  An error of E1 that the clause does not
        name propagates."""
        h = s.handlers[0]
        e1 = self.expr(s.body[0].value, env)
        if not e1.raises:                                  # nothing can be caught: the handler is unreachable
            return self.assign(s.body[0], s.body[0].targets[0], s.body[0].value, env, ctx, ind, cont)
        if h.type is None:
            caught = None
        else:
            classes = h.type.elts if isinstance(h.type, ast.Tuple) else [h.type]
            names = []
            for c in classes:
                n = ast.unparse(c)
                names.append(self.exc_classes[n] if n in self.exc_classes else '(Py.Err.other "%s")' % n.split('.')[-1])
            caught = '(' + ' || '.join('decide (e__ = %s)' % n for n in names) + ')'
        self.raise_points += 1
        v = self.fresh()
        out = '%sPy.caseE %s (fun e__ =>\n' % (ind, self.materialise(e1))
        if caught is None:
            out += self.block(list(h.body), dict(env), ctx, ind + '    ', cont)
        else:
            out += '%s    if %s then\n' % (ind, caught)
            out += self.block(list(h.body), dict(env), ctx, ind + '      ', cont)
            out += '%s    else\n' % ind
            out += ctx.raise_('e__', env, ind + '      ')
        out += '%s  ) (fun %s =>\n' % (ind, v)
        env2 = dict(env)
        out += self.bind_target(s.body[0].targets[0], v, e1.ty, env2, ind + '    ') + cont(env2, ind + '    ')
        out += '%s  )\n' % ind
        return out

    def exc_text(self, s):
        if s.exc is None or s.cause is not None:
            self.fail(s, 'unsupported raise')
        e = s.exc.func if isinstance(s.exc, ast.Call) else s.exc
        n = ast.unparse(e)
        self.raise_points += 1
        if n in self.exc_classes:
            return self.exc_classes[n]
        if re.fullmatch(r'\w+', n):
            return '(Py.Err.other "%s")' % n
        self.fail(s, 'unsupported exception expression')

    def bind_value(self, r, ctx, env, ind, use):
        """evaluate `r`; `use(text, env, ind)` continues with the value.  The parts that may raise are eliminated with
        `Py.caseE`, in order."""
        out = ''
        close = ''
        for v, t in r.binds:
            out += ('%sPy.caseE %s (fun e__ =>\n%s%s  ) (fun %s =>\n'
                    % (ind, t, ctx.raise_('e__', env, ind + '    '), ind, v))
            close = '%s  )\n' % ind + close
            ind += '    '
        return out + use(r.txt, env, ind) + close

    def assign(self, s, target, value, env, ctx, ind, cont):
        env = dict(env)
        # A[i, :, k] = v on a 3-D array
        if isinstance(target, ast.Subscript) and self.key_of(target) is None and isinstance(target.slice, ast.Tuple) \
                and len(target.slice.elts) == 3 and self.full_slice(target.slice.elts[1]):
            return self.store3(s, target, value, env, ctx, ind, cont)
        # d[k] = v
        if isinstance(target, ast.Subscript) and self.key_of(target) is None:
            return self.store(s, target, value, env, ctx, ind, cont)
        # line = f.readline() for an open text file f (spec `streams`): the next line ('' at the end), f moves on
        if isinstance(target, ast.Name) and isinstance(value, ast.Call) and isinstance(value.func, ast.Attribute) \
                and value.func.attr == 'readline' and not value.args and not value.keywords \
                and isinstance(value.func.value, ast.Name) and value.func.value.id in self.streams:
            fk = value.func.value.id
            fv = self.check_mutation(fk, env, s)
            if self.resolve(fv.ty) != ('list', STR):
                self.fail(s, 'readline on a %s' % self.show(fv.ty))
            cell = self.new_cell(target.id, env)
            env[target.id] = Var(cell, STR)
            env[fk] = Var(fv.cell, fv.ty, fv.alias)
            return ('%slet %s := (%s).headD ""\n%slet %s := (%s).tail\n' % (ind, cell, fv.cell, ind, fv.cell, fv.cell)) + cont(env)
        # x.field = e for a local that holds a record
        if isinstance(target, ast.Attribute) and isinstance(target.value, ast.Name) and self.key_of(target) is None \
                and target.value.id in env and self.resolve(env[target.value.id].ty)[0] == 'rec':
            return self.rec_attr_store(s, target, value, env, ctx, ind, cont)
        # x = D[k] (spec `element_views`): x IS the element of the dict D of records
        if self.spec.get('element_views') and isinstance(target, ast.Name) and isinstance(value, ast.Subscript) \
                and self.key_of(value) is None and self.key_of(value.value) is not None and isinstance(value.slice, ast.Name):
            dk = self.key_of(value.value)
            dv = env.get(dk) or self.lookup(dk, env)
            if dv is not None and self.resolve(dv.ty)[0] == 'dict' and self.resolve(self.resolve(dv.ty)[2])[0] == 'rec' \
                    and value.slice.id in env:
                r = self.expr(value, env)

                def use_view(txt, env2, ind2):
                    env2 = dict(env2)
                    lets = self.bind_target(target, txt, r.ty, env2, ind2)
                    self.share(target.id, value, env2)
                    self.views[target.id] = (dk, value.slice.id, env2[target.id], env2[value.slice.id],
                                             env2.get(dk) or self.lookup(dk, env2))
                    return lets + cont(env2, ind2)
                return self.bind_value(r, ctx, env, ind, use_view)
        # x = <integer literal> for a local: an int counter
        if isinstance(target, ast.Name) and self.int_literal(value) is not None and target.id not in self.ptypes \
                and (target.id not in env or self.resolve(env[target.id].ty) == INT):
            cell = self.new_cell(target.id, env)
            env[target.id] = Var(cell, INT)
            return '%slet %s : Int := (%d)\n' % (ind, cell, self.int_literal(value)) + cont(env)
        # x = None for a local: an optional value
        if isinstance(target, ast.Name) and isinstance(value, ast.Constant) and value.value is None:
            cell = self.new_cell(target.id, env)
            old = env.get(target.id)
            ot = self.resolve(old.ty) if old is not None else None
            ty = ot if (ot and ot[0] == 'opt') else ('opt', ot if (ot and ot[0] != 'u' and ot != UNIT) else self.newu())
            env[target.id] = Var(cell, ty)
            return '%slet %s : %s := none\n' % (ind, cell, self.lty(ty)) + cont(env)
        # x = p or {}   (p an in/out dict parameter): the two aliasing cases
        if isinstance(target, ast.Name) and isinstance(value, ast.BoolOp) and isinstance(value.op, ast.Or) \
                and len(value.values) == 2 and isinstance(value.values[0], ast.Name) \
                and isinstance(value.values[1], (ast.Dict, ast.List)) and not getattr(value.values[1], 'keys', None) \
                and not getattr(value.values[1], 'elts', None):
            p = value.values[0].id
            pv = env.get(p)
            if pv is None or not is_container(self.resolve(pv.ty)):
                self.fail(s, '`x = y or {}` where y is not a container variable')
            if p in self.ptypes and p not in self.mutates:
                self.fail(s, 'a name is bound to the parameter %s (not declared in `mutates`)' % p)
            env_a = dict(env)
            env_a[target.id] = Var(pv.cell, pv.ty, pv.alias)            # the same object
            env_b = dict(env)
            cell = self.new_cell(target.id, env_b)
            env_b[target.id] = Var(cell, pv.ty)
            return ('%sif (!(%s).isEmpty) then\n%s%selse\n%s  let %s : %s := []\n%s'
                    % (ind, pv.cell, cont(env_a, ind + '  '), ind, ind, cell, self.lty(pv.ty), cont(env_b, ind + '  ')))
        # obj = A if c else B   (references to declared objects)
        if isinstance(target, ast.Name) and isinstance(value, ast.IfExp) and ast.unparse(value.body) in self.refs \
                and ast.unparse(value.orelse) in self.refs:
            c = self.truth(value.test, env)
            a, b = self.refs[ast.unparse(value.body)], self.refs[ast.unparse(value.orelse)]
            cell = lname(target.id)

            def use(ctxt, env2, ind2):
                env2 = dict(env2)
                env2[target.id] = Var(cell, ('ref',))
                return '%slet %s : Nat := if %s then %d else %d\n' % (ind2, cell, ctxt, a, b) + cont(env2, ind2)
            return self.bind_value(c, ctx, env, ind, use)
        # x = y for containers: one variable
        if isinstance(target, ast.Name) and self.key_of(value) is not None:
            v = self.lookup(self.key_of(value), env)
            if v is not None and is_container(self.resolve(v.ty)):
                if self.key_of(value) in self.ptypes and self.key_of(value) not in self.mutates:
                    pass                                   # read-only so far; a later mutation is checked against `mutates`
                env[target.id] = Var(v.cell, v.ty, v.alias)
                return cont(env)
        # targets = translated_function(...)
        if isinstance(value, ast.Call) and (self.known_of(ast.unparse(value.func)) is not None
                                            or self.rec_call(value, env) is not None):
            return self.call_stmt(s, value, target, env, ctx, ind, cont)
        # x = f(args) for a callable VALUE that makes an object and changes the world ('make')
        if isinstance(value, ast.Call):
            mk = self.make_call(s, value, env)
            if mk is not None:
                allr, rt = mk

                def use_mk(txt, env2, ind2):
                    env2 = dict(env2)
                    r = self.fresh('r')
                    out = '%slet %s := %s\n%slet %s := %s.1\n' % (ind2, r, txt, ind2, self.world_var(), r)
                    return out + self.bind_target(target, r + '.2', rt, env2, ind2) + cont(env2, ind2)
                return self.bind_value(allr, ctx, env, ind, use_mk)
        want = None
        k = self.key_of(target)
        if k is not None and k in self.pattrs:
            want = self.pattrs[k][1]
        r = self.expr(value, env, want)
        if r.ty == INTLIT:
            self.fail(s, 'integer literal assigned to a variable (its type is not known)')

        def use(txt, env2, ind2):
            env2 = dict(env2)
            lets = self.bind_target(target, txt, r.ty, env2, ind2)
            if isinstance(target, ast.Name):
                self.share(target.id, value, env2)
            elif isinstance(target, (ast.Tuple, ast.List)) and isinstance(value, (ast.Name, ast.Attribute, ast.Subscript)):
                for e in target.elts:
                    if isinstance(e, ast.Name) and e.id in env2:
                        self.share(e.id, value, env2)
            return lets + cont(env2, ind2)
        return self.bind_value(r, ctx, env, ind, use)

    def store3(self, s, target, value, env, ctx, ind, cont):
        """A[i, :, k] = v on a 3-D array of numbers (variable / declared state attribute), TOTALISED (spec `total_index`): an
        index out of range (numpy: IndexError) or a `v` that does not broadcast to the middle axis (numpy: ValueError)
        leaves the array as it is where nothing fits — `Py.setCol3`; negative indices count from the end as in Python"""
        if not self.spec.get('total_index'):
            self.fail(s, 'array item assignment without total_index')
        key = self.key_of(target.value)
        if key is None:
            self.fail(s, 'store into something that is not a variable or declared attribute')
        v = self.check_mutation(key, env, s)
        if not self.is_num3(v.ty):
            self.fail(s, 'A[i, :, k] = v on a %s' % self.show(v.ty))
        i = self.index_int(target.slice.elts[0], env)
        k = self.index_int(target.slice.elts[2], env)
        vr = self.expr(value, env, ('list', A))

        def use(txt, env2, ind2):
            env2 = dict(env2)
            env2[key] = Var(v.cell, v.ty, v.alias)
            return '%slet %s := (Py.setCol3 %s %s %s %s)\n' % (ind2, v.cell, v.cell, i, k, txt) + cont(env2, ind2)
        return self.bind_value(vr, ctx, env, ind, use)

    def view_of(self, name, env):
        """(dict key, Var of the dict, key cell) when `name` is still the element view `name = D[k]` made earlier: neither
        name, k nor D was re-bound by anything but the write-backs; else None"""
        vw = self.views.get(name)
        if vw is None:
            return None
        dk, kn, xv, kv, dv = vw
        cur_d = env.get(dk) or (self.lookup(dk, env) if dk in self.pattrs else None)
        if env.get(name) is xv and env.get(kn) is kv and cur_d is not None and (cur_d is dv or cur_d.cell == dv.cell and dk not in env
                                                                                 and dv.cell == self.pattrs.get(dk, (None,))[0]):
            return dk, cur_d, kv.cell
        return None

    def write_back(self, name, view, env, ind):
        """after a mutation of the element view `name`: the dict holds the mutated object (same key, same position)"""
        dk, dvar, kcell = view
        self.check_mutation(dk, {k: v for k, v in env.items() if k != name}, None)
        nd = Var(dvar.cell, dvar.ty, dvar.alias)
        env[dk] = nd
        _, kn, _, kv, _ = self.views[name]
        self.views[name] = (dk, kn, env[name], kv, nd)
        return '%slet %s := (Py.dset %s %s %s)\n' % (ind, dvar.cell, dvar.cell, kcell, env[name].cell)

    def rec_attr_store(self, s, target, value, env, ctx, ind, cont):
        """x.field = e for a local x that holds a record (a fresh object, or an element view)"""
        name = target.value.id
        v = env[name]
        recname = self.resolve(v.ty)[1]
        f = self.rec_field(recname, target.attr)
        if f is None:
            self.fail(s, '%s is not a field of the record %s' % (target.attr, recname))
        view = self.view_of(name, env)
        if v.cell in self.frozen or (v.alias and (view is None or set(v.alias) != {view[1].cell})):
            self.fail(s, 'mutation of `%s`, which may be the same object as %s' % (name, sorted(v.alias)))
        r = self.expr(value, env, f[2])

        def use(txt, env2, ind2):
            env2 = dict(env2)
            comps = [txt if j == f[0] else self.proj(v.cell, j, f[1]) for j in range(f[1])]
            out = '%slet %s := %s\n' % (ind2, v.cell, comps[0] if f[1] == 1 else '(' + ', '.join(comps) + ')')
            env2[name] = Var(v.cell, v.ty, v.alias)
            if view is not None:
                self.views[name] = self.views[name][:2] + (env2[name],) + self.views[name][3:]
                out += self.write_back(name, view, env2, ind2)
            return out + cont(env2, ind2)
        return self.bind_value(r, ctx, env, ind, use)

    def aug_assign(self, s, env, ctx, ind, cont):
        """x += n / x -= n for an int counter and an integer literal"""
        n = self.int_literal(s.value)
        if not isinstance(s.target, ast.Name) or n is None or not isinstance(s.op, (ast.Add, ast.Sub)) \
                or s.target.id not in env or self.resolve(env[s.target.id].ty) != INT:
            self.fail(s, 'unsupported statement')
        env = dict(env)
        old = env[s.target.id].cell
        cell = self.new_cell(s.target.id, env)
        env[s.target.id] = Var(cell, INT)
        return '%slet %s : Int := (%s %s (%d))\n' % (ind, cell, old, '+' if isinstance(s.op, ast.Add) else '-', n) + cont(env)

    def store(self, s, target, value, env, ctx, ind, cont):
        """d[k] = v on a dict variable / attribute / attribute of a reference"""
        if self.is_ref_attr(target.value, env):
            keys = self.ref_attr_keys(target.value, env)
            ref = env[target.value.value.id].cell
        else:
            key = self.key_of(target.value)
            if key is None:
                self.fail(s, 'store into something that is not a variable or declared attribute')
            keys, ref = [key], None
        vs = [self.check_mutation(kk, env, s) for kk in keys]
        dt = self.resolve(vs[0].ty)
        for v in vs[1:]:
            dt = self.unify(dt, v.ty, s)
        if dt[0] != 'dict':
            self.fail(s, 'item assignment on a %s' % self.show(dt))
        self.need_eq(dt[1], s)
        kr = self.expr(target.slice, env, dt[1])
        vr = self.expr(value, env, dt[2])
        both = self.seq([kr, vr], lambda a: '(%s, %s)' % (a[0], a[1]), ('tuple', (dt[1], dt[2])))

        def use(txt, env2, ind2):
            env2 = dict(env2)
            out = ''
            if both.raises or ref is not None:
                kv = self.fresh('kv')
                out += '%slet %s := %s\n' % (ind2, kv, txt)
                ktxt, vtxt = kv + '.1', kv + '.2'
            else:
                ktxt, vtxt = kr.txt, vr.txt
            codes = [c for _, c in sorted(self.refs.items(), key=lambda kv_: kv_[1])]
            for i, (kk, v) in enumerate(zip(keys, vs)):
                new = '(Py.dset %s %s %s)' % (v.cell, ktxt, vtxt)
                if ref is not None:
                    new = '(if %s = %d then %s else %s)' % (ref, codes[i], new, v.cell)
                out += '%slet %s := %s\n' % (ind2, v.cell, new)
                env2[kk] = Var(v.cell, v.ty, v.alias)
            return out + cont(env2, ind2)
        return self.bind_value(both, ctx, env, ind, use)

    def call_stmt(self, s, c, target, env, ctx, ind, cont):
        """a call in statement position (`target` = the assignment target or None)"""
        env = dict(env)
        f = ast.unparse(c.func)
        # container mutators
        if target is None and isinstance(c.func, ast.Attribute) and c.func.attr == 'sort' \
                and self.key_of(c.func.value) is not None and not c.args:
            key = self.key_of(c.func.value)
            v = self.check_mutation(key, env, s)
            t = self.resolve(v.ty)
            if t[0] != 'list':
                self.fail(s, 'sort of a %s' % self.show(t))
            keyfn, kt = '(fun e__ => e__)', t[1]
            if c.keywords:
                kw = c.keywords[0]
                m = re.fullmatch(r'(operator\.)?itemgetter\((\d+)\)', ast.unparse(kw.value))
                et = self.resolve(t[1])
                if len(c.keywords) != 1 or kw.arg != 'key' or not m or et[0] != 'tuple' or int(m.group(2)) >= len(et[1]):
                    self.fail(s, 'unsupported sort key')
                i = int(m.group(2))
                keyfn, kt = '(fun e__ => %s)' % self.proj('e__', i, len(et[1])), et[1][i]
            if self.resolve(kt) not in (A, NAT):
                self.fail(s, 'sort by keys of type %s' % self.show(kt))
            env = dict(env)
            env[key] = Var(v.cell, v.ty, v.alias)
            return '%slet %s := (Py.sortOn (fun a__ b__ => decide (a__ < b__)) %s %s)\n' % (ind, v.cell, keyfn, v.cell) \
                + cont(env, ind)
        if target is None and isinstance(c.func, ast.Attribute) and c.func.attr in MUTATORS \
                and self.key_of(c.func.value) is not None and len(c.args) == 1 and not c.keywords:
            key = self.key_of(c.func.value)
            m = c.func.attr
            akey = self.key_of(c.args[0])
            v = self.check_mutation(key, env, s, allow=[akey] if (m == 'update' and akey) else ())
            t = self.resolve(v.ty)
            if m == 'append' and t[0] == 'list':
                a = self.expr(c.args[0], env, t[1])
                new = lambda x: '(%s ++ [%s])' % (v.cell, x)
                for nm in self.names_in([c.args[0]]):
                    if nm in env and is_container(self.resolve(env[nm].ty)) and env[nm].cell != v.cell:
                        # the object is now ALSO reachable through the list: a later mutation of it is refused
                        env[nm] = Var(env[nm].cell, env[nm].ty, env[nm].alias | frozenset([v.cell]))
            elif m == 'extend' and t[0] == 'list':
                a = self.expr(c.args[0], env, t)
                new = lambda x: '(%s ++ %s)' % (v.cell, x)
            elif m == 'update' and t[0] == 'dict':
                a = self.expr(c.args[0], env, t)
                self.need_eq(t[1], s)
                new = lambda x: '(Py.dupdate %s %s)' % (v.cell, x)
            else:
                self.fail(s, '%s on a %s' % (m, self.show(t)))

            def use(txt, env2, ind2):
                env2 = dict(env2)
                env2[key] = Var(v.cell, v.ty, v.alias)
                return '%slet %s := %s\n' % (ind2, v.cell, new(txt)) + cont(env2, ind2)
            return self.bind_value(a, ctx, env, ind, use)
        rc = self.rec_call(c, env)
        if rc is not None:
            return self.rec_call_stmt(s, c, target, rc, env, ctx, ind, cont)
        # a translated function
        if self.known_of(f) is not None:
            return self.call_known_stmt(s, c, target, env, ctx, ind, cont)
        # a 'write' callable value
        if target is None:
            fn = self.expr(c.func, env)
            ft = self.resolve(fn.ty)
            if ft[0] == 'tv' and isinstance(self.tvars.get(ft[1]), dict) and self.tvars[ft[1]].get('call', ('',))[0] == 'write':
                d = self.tvars[ft[1]]
                ats = [self.T(t) for t in d['call'][1]]
                if len(c.args) != len(ats) or c.keywords:
                    self.fail(s, 'call of a callable value does not match its declared arguments')
                if not self.writes_world:
                    self.fail(s, "a 'write' callable is called but the spec does not declare writes_world")
                rs = [self.expr(a, env, t) for a, t in zip(c.args, ats)]
                w = self.world_var()
                wt = self.lty(tv(self.world[1]))
                self.add_param(d['lean'], ' → '.join([wt, self.lty(ft)] + [self.lty(t) for t in ats] + [wt]))
                allr = self.seq([fn] + rs, lambda a: '(%s %s %s)' % (d['lean'], w, ' '.join(a)), tv(self.world[1]))

                def use(txt, env2, ind2):
                    return '%slet %s := %s\n' % (ind2, w, txt) + cont(env2, ind2)
                return self.bind_value(allr, ctx, env, ind, use)
        if target is None:
            self.fail(s, 'unsupported call statement')
        self.fail(s, 'unsupported assignment')

    def make_call(self, s, c, env):
        c = self.expand_star(c, env)
        k = self.key_of(c.func)
        v = env.get(k) if k else None
        if v is None and k is not None and k in self.pattrs:
            v = self.lookup(k, env)                        # a declared cell that holds a callable (e.g. an imported class)
        if v is None:
            return None
        ft = self.resolve(v.ty)
        if not (ft[0] == 'tv' and isinstance(self.tvars.get(ft[1]), dict) and self.tvars[ft[1]].get('call', ('',))[0] == 'make'):
            return None
        d = self.tvars[ft[1]]
        ats = [self.T(t) for t in d['call'][1]]
        rt = self.T(d['call'][2])
        if len(c.args) != len(ats) or c.keywords:
            self.fail(s, 'call of a callable value does not match its declared arguments')
        if not self.writes_world:
            self.fail(s, "a 'make' callable is called but the spec does not declare writes_world")
        rs = [self.expr(a, env, t) for a, t in zip(c.args, ats)]
        w = self.world_var()
        wt = self.lty(tv(self.world[1]))
        self.add_param(d['lean'], ' → '.join([wt, self.lty(ft)] + [self.lty(t) for t in ats] + ['(%s × %s)' % (wt, self.lty(rt))]))
        allr = self.seq([R(v.cell, ft)] + rs, lambda a: '(%s %s %s)' % (d['lean'], w, ' '.join(a)), ('tuple', (tv(self.world[1]), rt)))
        return allr, rt

    def rec_call(self, c, env):
        """X.m(…) for a variable X that holds a record whose method m is translated: (name of X, record name, known entry)"""
        if isinstance(c.func, ast.Attribute) and isinstance(c.func.value, ast.Name):
            v = env.get(c.func.value.id)
            t = self.resolve(v.ty) if v is not None else None
            if t is not None and t[0] == 'rec':
                cn = self.records[t[1]].get('methods', {}).get(c.func.attr)
                k = self.known.get(cn) if cn else None
                if k is not None and 'py' in k:
                    return c.func.value.id, t[1], k
        return None

    def rec_call_stmt(self, s, c, target, rc, env, ctx, ind, cont):
        """a call statement of a translated method on an object held as a record: the attributes the method reads are the
        components of the record, the attributes it assigns are re-bound in the record"""
        c = self.expand_star(c, env)
        name, recname, known = rc
        sig = known['py']
        if sig['mutates'] or sig['writes_world']:
            self.fail(s, 'a method with in/out parameters or world effects called on a record')
        v = env[name]
        view = self.view_of(name, env) if sig['state_cells'] else None
        if v.alias and (view is None or set(v.alias) != {view[1].cell}):
            self.fail(s, 'mutation of `%s`, which may be the same object as %s' % (name, sorted(v.alias)))
        if v.cell in self.frozen and sig['state_cells']:
            self.fail(s, 'mutation of `%s`, an element of the container the loop runs over (only `for x in D.values()` '
                         'mutating x itself is translated)' % name)
        txt, _ = self.call_text(c, sig, env, recv=(v.cell, recname))
        if sig['can_raise']:
            self.raise_points += 1
        nfields = len(self.records[recname]['fields'])
        st_idx = []
        for key, lean in sig['state_cells']:
            f = self.rec_field(recname, key.split('.', 1)[1])
            if f is None:
                self.fail(s, 'the method assigns %s, which is not a field of the record %s' % (key, recname))
            st_idx.append(f[0])
        r = self.fresh('r')
        out = '%slet %s := %s\n' % (ind, r, txt)
        has_res = sig['can_raise'] or self.resolve(sig['ret_ty']) != UNIT
        mu_src = (r + '.1') if (st_idx and has_res) else r
        res_src = (r + '.2') if st_idx else r
        env = dict(env)
        if st_idx:
            comps = []
            for j in range(nfields):
                if j in st_idx:
                    comps.append(self.proj(mu_src, st_idx.index(j), len(st_idx)))
                else:
                    comps.append(self.proj(v.cell, j, nfields))
            out += '%slet %s := %s\n' % (ind, v.cell, comps[0] if nfields == 1 else '(' + ', '.join(comps) + ')')
            env[name] = Var(v.cell, v.ty, v.alias)
            if view is not None:
                self.views[name] = self.views[name][:2] + (env[name],) + self.views[name][3:]
                out += self.write_back(name, view, env, ind)

        def bind_result(src, env2, ind2):
            env2 = dict(env2)
            if target is None:
                return cont(env2, ind2)
            return self.bind_target(target, src, sig['ret_ty'], env2, ind2) + cont(env2, ind2)
        if not has_res:
            return out + cont(env, ind)
        if sig['can_raise']:
            w = self.fresh()
            return out + ('%sPy.caseE %s (fun e__ =>\n%s%s  ) (fun %s =>\n%s%s  )\n'
                          % (ind, res_src, ctx.raise_('e__', env, ind + '    '), ind, w,
                             bind_result(w, env, ind + '    '), ind))
        return out + bind_result(res_src, env, ind)

    def call_text(self, c, sig, env, recv=None):
        """(Lean text of the call, [(param, argument key)] of the in/out arguments); `recv` = (cell, record name) when the
        method is called on an object held as a record"""
        args = []
        inout = []
        rs = []
        given = [pa for pa in self.bind_args(c, sig) if dict(sig['params'])[pa[0]] not in ('skip', UNIT)]
        for (pn, pt), (pn2, a) in zip([p for p in sig['params'] if p[1] not in ('skip', UNIT)], given):
            if pn != pn2:
                self.fail(c, 'arguments do not line up with the parameters of the translated function')
            r = self.value(a, env, pt)
            if pn in sig['mutates']:
                key = self.key_of(a)
                if key is None:
                    self.fail(c, 'the in/out argument %s must be a variable or declared attribute' % pn)
                inout.append((pn, key))
            rs.append(r)
            args.append(r.txt)
        for nm, ty in sig['extra_params']:
            if recv is not None and nm in sig['attr_cells']:
                f = self.rec_field(recv[1], sig['attr_cells'][nm].split('.', 1)[1])
                if f is None:
                    self.fail(c, 'the method reads %s, which is not a field of the record %s' % (sig['attr_cells'][nm], recv[1]))
                args.append(self.proj(recv[0], f[0], f[1]))
                continue
            self.add_param(nm, ty)
            args.append(nm)
        for t in sig['tvars_used']:
            if t not in self.tvars:
                raise Untranslatable('%s: the callee uses the type variable %s, which this spec does not declare'
                                     % (self.spec['func'], t))
            self.lty(tv(t))
        return '(%s %s)' % (sig['lean'], ' '.join(args)), inout

    def call_known(self, node, env, known, stmt):
        sig = known['py']
        if sig['mu']:
            self.fail(node, 'a function with in/out effects is called inside an expression')
        txt, _ = self.call_text(node, sig, env)
        if sig['can_raise']:
            self.raise_points += 1
        if sig['can_raise']:
            v = self.fresh()
            return R(v, sig['ret_ty'], [(v, txt)]), sig
        return R(txt, sig['ret_ty']), sig

    def call_known_stmt(self, s, c, target, env, ctx, ind, cont):
        c = self.expand_star(c, env)
        sig = self.known_of(ast.unparse(c.func))['py']
        txt, inout = self.call_text(c, sig, env)
        if sig['can_raise']:
            self.raise_points += 1
        # the cells the call rebinds: in/out arguments, state attributes, the world
        mu_keys = [k for _, k in inout] + self.map_state(sig) + (['$world'] if sig['writes_world'] else [])
        if sig['writes_world'] and not self.writes_world:
            self.fail(s, 'the callee writes the world but the spec does not declare writes_world')
        mu_vars = []
        others = [self.key_of(a) for a in c.args if self.key_of(a)]
        for k in mu_keys:
            if k == '$world':
                mu_vars.append(Var(self.world_var(), tv(self.world[1])))
            else:
                mu_vars.append(self.check_mutation(k, env, s, allow=[k]))
                for o in others:
                    if o != k and (env.get(o) and (env[o].cell == mu_vars[-1].cell or mu_vars[-1].cell in env[o].alias)):
                        self.fail(s, 'an argument may be the same object as the in/out argument %s' % k)
        r = self.fresh('r')
        out = '%slet %s := %s\n' % (ind, r, txt)
        has_res = sig['can_raise'] or self.resolve(sig['ret_ty']) != UNIT
        mu_src = (r + '.1') if (mu_keys and has_res) else r
        res_src = (r + '.2') if mu_keys else r
        env = dict(env)
        for i, (k, v) in enumerate(zip(mu_keys, mu_vars)):
            out += '%slet %s := %s\n' % (ind, v.cell, self.proj(mu_src, i, len(mu_keys)))
            if k != '$world':
                env[k] = Var(v.cell, v.ty, v.alias)

        def bind_result(src, env2, ind2):
            env2 = dict(env2)
            if target is None:
                return cont(env2, ind2)
            lets = self.bind_target(target, src, sig['ret_ty'], env2, ind2)
            # components of the result that may be the in/out argument itself
            for idx, pn in sig['ret_alias'].items():
                cell = [env2[k].cell for p, k in inout if p == pn]
                tnode = target if idx is None else (target.elts[idx] if isinstance(target, (ast.Tuple, ast.List)) else None)
                if tnode is None or not cell:
                    self.fail(s, 'a result that may alias an argument is bound to a target the translator cannot track')
                tk = self.key_of(tnode)
                if tk is None:
                    if isinstance(tnode, ast.Name) and tnode.id == '_':
                        continue
                    self.fail(s, 'a result that may alias an argument is bound to a target the translator cannot track')
                if tk in self.pattrs:
                    self.fail(s, 'a result that may alias an argument is stored in an attribute')
                env2[tk] = Var(env2[tk].cell, env2[tk].ty, env2[tk].alias | frozenset(cell))
            return lets + cont(env2, ind2)
        if not has_res:
            return out + cont(env, ind)
        if sig['can_raise']:
            v = self.fresh()
            return out + ('%sPy.caseE %s (fun e__ =>\n%s%s  ) (fun %s =>\n%s%s  )\n'
                          % (ind, res_src, ctx.raise_('e__', env, ind + '    '), ind, v,
                             bind_result(v, env, ind + '    '), ind))
        return out + bind_result(res_src, env, ind)

    def static_test(self, node, env):
        """True / False when the test is decided by the declared types (`x is None` for a parameter the caller leaves None,
        or for a value of a type that has no None), else None"""
        if isinstance(node, ast.Compare) and len(node.ops) == 1 and isinstance(node.ops[0], (ast.Is, ast.IsNot)) \
                and isinstance(node.comparators[0], ast.Constant) and node.comparators[0].value is None:
            k = self.key_of(node.left)
            v = (env.get(k) or self.lookup(k, env)) if k else None
            if v is None:
                return None
            t = self.resolve(v.ty)
            if t[0] in ('opt', 'u'):
                return None
            res = (t == UNIT)
            return res if isinstance(node.ops[0], ast.Is) else not res
        if isinstance(node, ast.UnaryOp) and isinstance(node.op, ast.Not):
            r = self.static_test(node.operand, env)
            return None if r is None else not r
        return None

    def opt_guard(self, test, env):
        """`X is not None [and REST]` / `X is None` for a variable X of an optional type: (key, REST nodes, negated)"""
        first, rest = test, []
        if isinstance(test, ast.BoolOp) and isinstance(test.op, ast.And):
            first, rest = test.values[0], list(test.values[1:])
        if isinstance(first, ast.Compare) and len(first.ops) == 1 and isinstance(first.ops[0], (ast.Is, ast.IsNot)) \
                and isinstance(first.comparators[0], ast.Constant) and first.comparators[0].value is None:
            k = self.key_of(first.left)
            v = (env.get(k) or self.lookup(k, env)) if k else None
            if v is not None and self.resolve(v.ty)[0] == 'opt':
                neg = isinstance(first.ops[0], ast.Is)
                if neg and rest:
                    return None
                return k, rest, neg
        return None

    def if_stmt(self, s, env, ctx, ind, cont):
        st = self.static_test(s.test, env)
        if st is not None:
            # decided by the declared calling pattern: only the live branch exists
            return self.block(list(s.body if st else s.orelse), dict(env), ctx, ind, lambda e, i: cont(e, i))
        g = self.opt_guard(s.test, env)
        if g is not None:
            key, rest, neg = g
            v = env.get(key) or self.lookup(key, env)
            inner = self.resolve(v.ty)[1]
            env_some = dict(env)
            env_some[key] = Var(v.cell, inner, v.alias)
            some_stmts, none_stmts = (s.orelse, s.body) if neg else (s.body, s.orelse)
            if rest:
                rtest = rest[0] if len(rest) == 1 else ast.copy_location(ast.BoolOp(op=ast.And(), values=rest), s.test)
                c = self.truth(rtest, env_some)
                if c.raises:
                    self.fail(s, 'a guarded test that may raise')
                branches = [(list(none_stmts), dict(env)), (list(some_stmts), env_some), (list(s.orelse), dict(env_some))]

                def wrap(b, i0):
                    return ('%sOption.elim %s (\n%s%s  ) (fun %s =>\n%s  if %s then\n%s%s  else\n%s%s  )\n'
                            % (i0, v.cell, b[0], i0, v.cell, i0, c.txt, b[1], i0, b[2], i0))
                return self.branching(s, branches, wrap, env, ctx, ind, cont, depth=(2, 4, 4))
            branches = [(list(none_stmts), dict(env)), (list(some_stmts), env_some)]

            def wrap(b, i0):
                return ('%sOption.elim %s (\n%s%s  ) (fun %s =>\n%s%s  )\n' % (i0, v.cell, b[0], i0, v.cell, b[1], i0))
            return self.branching(s, branches, wrap, env, ctx, ind, cont, depth=(2, 2))
        c = self.truth(s.test, env)

        def use(ctxt, env1, ind1):
            branches = [(list(s.body), dict(env1)), (list(s.orelse), dict(env1))]

            def wrap(b, i0):
                return '%sif %s then\n%s%selse\n%s' % (i0, ctxt, b[0], i0, b[1])
            return self.branching(s, branches, wrap, env1, ctx, ind1, cont, depth=(1, 1))
        return self.bind_value(c, ctx, env, ind, use)

    def branching(self, s, branches, wrap, env1, ctx, ind1, cont, depth):
        """a conditional with the given branch bodies; `wrap(texts, indent)` assembles the Lean conditional.  First try to
        MERGE (no control leaves the branches: the conditional is the value of the variables it assigns); if something leaves,
        the rest of the block is continued in every branch"""
        before = self.nleave
        keys = [k for k in self.assigned([s], env1) if k in env1 or k in self.pattrs or k == '$world']
        if '$world' in keys:
            keys = [k for k in keys if k != '$world'] + ['$world']
        if not self.diverts([s]):
            envs = []

            def tail(env2, ind2):
                envs.append(env2)
                return ind2 + '\x00PACK%d\x00\n' % (len(envs) - 1)
            texts = [self.block(st, e, ctx, ind1 + '  ' * (d + 1), tail) for (st, e), d in zip(branches, depth)]
            if self.nleave == before and len(envs) == len(branches):
                # variables first bound in every branch are bound afterwards as well
                for k in self.assigned([s], env1):
                    if k not in keys and all(k in e for e in envs) and re.fullmatch(r'\w+', k):
                        keys.append(k)
                env3 = dict(env1)
                wraps = {}
                for k in keys:
                    if k == '$world':
                        continue
                    vs = [e.get(k) or self.lookup(k, e) for e in envs]
                    tys = [self.resolve(v.ty) for v in vs]
                    opts = [t for t in tys if t[0] == 'opt']
                    if opts and any(t[0] != 'opt' for t in tys):
                        # None on one path, a value on another: an optional afterwards
                        ty = opts[0]
                        for i, t in enumerate(tys):
                            if t[0] != 'opt':
                                self.unify(ty[1], t, s)
                                wraps[(k, i)] = True
                            else:
                                self.unify(ty, t, s)
                    else:
                        ty = tys[0]
                        for t in tys[1:]:
                            ty = self.unify(ty, t, s)
                    if len({v.cell for v in vs}) != 1:
                        self.fail(s, 'a variable is bound to different containers in the branches')
                    al = frozenset()
                    for v in vs:
                        al |= v.alias
                    env3[k] = Var(vs[0].cell, ty, al)
                if not keys:
                    return cont(env1, ind1)                # the branches have no effect the translation tracks
                wkeys = [k for k in keys if k != '$world']

                def packs(e, i):
                    cells = [('(some %s)' if (k, i) in wraps else '%s') % (e.get(k) or self.lookup(k, e)).cell for k in wkeys] + \
                            ([self.world_var()] if '$world' in keys else [])
                    return cells[0] if len(cells) == 1 else '(' + ', '.join(cells) + ')'
                texts = [t.replace('\x00PACK%d\x00' % i, packs(envs[i], i)) for i, t in enumerate(texts)]
                st = self.fresh('st')
                body = wrap(texts, ind1 + '  ')
                out = '%slet %s := (\n%s%s  )\n' % (ind1, st, body, ind1)
                n = len(keys)
                for i, k in enumerate(keys):
                    cell = self.world_var() if k == '$world' else env3[k].cell
                    out += '%slet %s := %s\n' % (ind1, cell, self.proj(st, i, n))
                return out + cont(env3, ind1)
        texts = [self.block(st, e, ctx, ind1 + '  ' * d, lambda e2, i2: cont(e2, i2)) for (st, e), d in zip(branches, depth)]
        return wrap(texts, ind1)

    def for_stmt(self, s, env, ctx, ind, cont):
        if s.orelse:
            self.fail(s, 'for … else')
        raw = self.assigned(s.body, env)
        keys = [k for k in raw if k in env or k in self.pattrs or k == '$world']
        # `for x in D.values():` whose body MUTATES the object x (a record): the loop runs over the positions of D and the
        # mutated object is put back at its position (same keys, same order — what in-place mutation leaves in the dict)
        upd = None
        if isinstance(s.iter, ast.Call) and isinstance(s.iter.func, ast.Attribute) and s.iter.func.attr == 'values' \
                and not s.iter.args and isinstance(s.target, ast.Name) and s.target.id in raw \
                and self.key_of(s.iter.func.value) is not None:
            dkey = self.key_of(s.iter.func.value)
            dv = self.check_mutation(dkey, env, s)
            dt = self.resolve(dv.ty)
            if dt[0] != 'dict' or self.resolve(dt[2])[0] != 'rec':
                self.fail(s, 'the loop variable is re-bound in the body of a loop over %s' % self.show(dt))
            upd = dict(key=dkey, vty=dt[2], it=None, dflt=self.default(('tuple', (dt[1], dt[2])), s))
            if dkey not in keys:
                keys.append(dkey)
            src, et = '(List.range (%s).length)' % dv.cell, NAT
        elif getattr(s, '_iter_bound', None) is not None:
            src, et = s._iter_bound                        # the iterable was evaluated (it may raise) before the loop
        else:
            if isinstance(s.iter, ast.Call) and ast.unparse(s.iter.func) not in ('zip', 'enumerate', 'range') \
                    and not (isinstance(s.iter.func, ast.Attribute) and s.iter.func.attr in ('values', 'items', 'keys')):
                r0 = self.expr(s.iter, env)
                if r0.raises and self.resolve(r0.ty)[0] == 'list':
                    # `for x in f(...)` where the call may raise: it is evaluated once, before the first pass
                    def use_iter(txt, env2, ind2):
                        s._iter_bound = (txt, self.resolve(r0.ty)[1])
                        try:
                            return self.for_stmt(s, env2, ctx, ind2, cont)
                        finally:
                            s._iter_bound = None
                    return self.bind_value(r0, ctx, env, ind, use_iter)
            src, et = self.iterable(s.iter, env)
        wkeys = [k for k in keys if k != '$world']
        for k in wkeys:
            self.check_loop_var(k, env, s)
        has_w = '$world' in keys

        def packs(e):
            cells = [(e.get(k) or self.lookup(k, e)).cell for k in wkeys] + ([self.world_var()] if has_w else [])
            if upd is not None and upd['it'] is not None and s.target.id in e:
                j = wkeys.index(upd['key'])
                cells[j] = '(Py.setVal %s %s %s)' % (cells[j], upd['it'], e[s.target.id].cell)
            if not cells:
                return '()'
            return cells[0] if len(cells) == 1 else '(' + ', '.join(cells) + ')'

        def ptype():
            ts = [self.lty((env.get(k) or self.lookup(k, env)).ty) for k in wkeys] + \
                 ([self.lty(tv(self.world[1]))] if has_w else [])
            if not ts:
                return 'Unit'
            return ts[0] if len(ts) == 1 else '(' + ' × '.join(ts) + ')'
        n = len(wkeys) + (1 if has_w else 0)

        def unpack(src_, e, ind2):
            out = ''
            for i, k in enumerate(wkeys):
                out += '%slet %s := %s\n' % (ind2, (e.get(k) or self.lookup(k, e)).cell, self.proj(src_, i, n))
            if has_w:
                out += '%slet %s := %s\n' % (ind2, self.world_var(), self.proj(src_, n - 1, n))
            return out

        def body(raising):
            st, it = self.fresh('st'), self.fresh('it')
            env2 = dict(env)
            i2 = ind + '    '
            head = unpack(st, env2, i2) if n else ''
            if upd is not None:
                upd['it'] = it
                dcell = (env2.get(upd['key']) or self.lookup(upd['key'], env2)).cell
                head += self.bind_target(s.target, '((%s).getD %s %s).2' % (dcell, it, upd['dflt']), upd['vty'], env2, i2)
            else:
                before = set(env2)
                head += self.bind_target(s.target, it, et, env2, i2)
                newly = {env2[k].cell for k in env2 if (k not in before or env2[k] is not env.get(k))
                         and is_container(self.resolve(env2[k].ty))}
                frozen_saved = set(self.frozen)
                self.frozen |= newly
            if raising:
                lctx = Ctx(self, lambda e, en, i: '%s(%s, some %s)\n' % (i, packs(en), e),
                           lambda node, en, i: self.fail(s, 'return inside a loop'),
                           lambda en, i: '%s(%s, none)\n' % (i, packs(en)))
                tail = lambda en, i: '%s(%s, none)\n' % (i, packs(en))
            else:
                def boom(*a):
                    raise _Raises()
                lctx = Ctx(self, boom, lambda node, en, i: self.fail(s, 'return inside a loop'),
                           lambda en, i: '%s%s\n' % (i, packs(en)))
                tail = lambda en, i: '%s%s\n' % (i, packs(en))
            try:
                txt = self.block(s.body, env2, lctx, i2, tail)
            finally:
                if upd is None:
                    self.frozen = frozen_saved
            return st, it, head + txt
        try:
            st, it, btxt = body(False)
            raising = False
        except _Raises:
            st, it, btxt = body(True)
            raising = True
        if n == 0 and not raising:
            return cont(env, ind)                          # a loop without an effect the translation tracks
        r = self.fresh('r')
        env3 = dict(env)
        if upd is not None:
            upd['it'] = None                               # (the initial state is packed without a write-back)
        if raising:
            out = '%slet %s := Py.forE %s %s (fun (%s : %s) (%s : %s) =>\n%s%s  )\n' % (
                ind, r, src, packs(env), st, ptype(), it, self.lty(et), btxt, ind)
            out += unpack(r + '.1', env3, ind)
            return out + ('%sPy.caseO %s.2 (fun e__ =>\n%s%s  ) (\n%s%s  )\n'
                          % (ind, r, ctx.raise_('e__', env3, ind + '    '), ind, cont(env3, ind + '    '), ind))
        out = '%slet %s := List.foldl (fun (%s : %s) (%s : %s) =>\n%s%s  ) %s %s\n' % (
            ind, r, st, ptype(), it, self.lty(et), btxt, ind, packs(env), src)
        out += unpack(r, env3, ind)
        return out + cont(env3, ind)

    def check_loop_var(self, k, env, s):
        v = env.get(k) or self.lookup(k, env)
        if v is None:
            self.fail(s, 'loop-carried variable %s is unknown' % k)


class _Raises(Exception):
    pass


def _translate(self):
    """the whole function (method of PyFn; two passes: the second one knows whether the function can raise)"""
    node = self.node
    if node.args.vararg or node.args.kwarg or node.args.kwonlyargs:
        self.fail(node, 'unsupported signature')
    saved = dict(spec=self.spec)
    for attempt in (True, False):
        self.can_raise = attempt
        self.subst, self.nu, self.nfresh, self.raise_points, self.nleave = {}, 0, 0, 0, 0
        self.extra_params, self.literals, self.float_consts = [], set(), {}
        self.used_tvars, self.ret_alias = [], {}
        self.ret_ty = self.newu()
        text = self._translate_once()
        if attempt and self.raise_points > 0:
            break
        if not attempt:
            break
    return text


def _translate_once(self):
    node = self.node
    env = {}
    params = []
    self.arg_kinds, self.arg_names = [], []
    sig_params = []
    for a in node.args.args:
        if a.arg == 'self':
            continue
        self.arg_names.append(a.arg)
        t = self.ptypes.get(a.arg)
        if t is None:
            raise Untranslatable('%s: parameter %s has no declared type (signature changed?)' % (self.spec['func'], a.arg))
        self.arg_kinds.append('skip' if t == 'skip' else 'py')
        sig_params.append((a.arg, t))
        if t == 'skip':
            continue
        if t == UNIT:
            env[a.arg] = Var('()', UNIT)                   # the caller leaves it None: the function is specialised to that
            continue
        env[a.arg] = Var(lname(a.arg), t)
        params.append('(%s : %s)' % (lname(a.arg), self.lty(t)))
    # locals that are live at `start_at` (filled by the untranslated statements before it): parameters
    for nm, t in self.spec.get('free_locals', {}).items():
        if not self.start_at:
            raise Untranslatable('%s: free_locals without start_at' % self.spec['func'])
        ty = self.T(t)
        env[nm] = Var(lname(nm), ty)
        params.append('(%s : %s)' % (lname(nm), self.lty(ty)))
    declared = [p for p in self.ptypes if p not in [a.arg for a in node.args.args]]
    if declared:
        raise Untranslatable('%s: declared parameter(s) %s no longer in the signature' % (self.spec['func'], declared))
    for m in self.mutates:
        if m not in env:
            raise Untranslatable('%s: in/out parameter %s is not a parameter' % (self.spec['func'], m))
    for k in self.state:
        if k not in self.pattrs:
            raise Untranslatable('%s: state attribute %s is not declared in attrs' % (self.spec['func'], k))
    mu_keys = list(self.mutates) + list(self.state) + (['$world'] if self.writes_world else [])

    def mu_pack(en):
        cells = []
        for k in mu_keys:
            if k == '$world':
                cells.append(self.world_var())
            else:
                cells.append((en.get(k) or self.lookup(k, en)).cell)
        return cells[0] if len(cells) == 1 else '(' + ', '.join(cells) + ')'

    def mu_type():
        ts = []
        for k in mu_keys:
            if k == '$world':
                ts.append(self.lty(tv(self.world[1])))
            else:
                ts.append(self.lty(env[k].ty if k in env else self.pattrs[k][1]))
        return ts[0] if len(ts) == 1 else '(' + ' × '.join(ts) + ')'

    def f_raise(e, en, ind):
        if not self.can_raise:
            raise Untranslatable('%s: internal: a raise point in a function inferred not to raise' % self.spec['func'])
        if mu_keys:
            return '%s(%s, Except.error %s)\n' % (ind, mu_pack(en), e)
        return '%sExcept.error %s\n' % (ind, e)

    def f_ret(vnode, en, ind):
        if vnode is None:
            r = R('()', UNIT)
        else:
            r = self.expr(vnode, en, None)
            if r.ty == INTLIT:
                self.fail(vnode, 'an integer literal is returned (its type is not known)')
            # a returned container that is an in/out parameter itself
            elts = list(enumerate(vnode.elts)) if isinstance(vnode, ast.Tuple) else [(None, vnode)]
            for i, e in elts:
                k = self.key_of(e)
                if k is not None and k in en and is_container(self.resolve(en[k].ty)):
                    for m in self.mutates:
                        if en[m].cell == en[k].cell:
                            self.ret_alias[i] = m
                    for m in self.state:
                        if k != m and (en.get(m) or self.lookup(m, en)).cell == en[k].cell:
                            self.fail(vnode, 'a state attribute container is returned')
        self.unify(self.ret_ty, r.ty, vnode)
        if r.raises and not mu_keys and r.txt == r.binds[-1][0]:
            # the value IS the last raising term: no re-wrapping
            last = r.binds[-1][1]
            r0 = R('', r.ty, r.binds[:-1])
            return self.bind_value(r0, ctx, en, ind, lambda t, e2, i2: '%s%s\n' % (i2, last))
        return self.bind_value(r, ctx, en, ind, lambda t, e2, i2: f_done(t, e2, i2))

    def f_done(vtxt, en, ind):
        unit = self.resolve(self.ret_ty) == UNIT
        if mu_keys:
            if self.can_raise:
                return '%s(%s, Except.ok %s)\n' % (ind, mu_pack(en), vtxt)
            if unit:
                return '%s%s\n' % (ind, mu_pack(en))
            return '%s(%s, %s)\n' % (ind, mu_pack(en), vtxt)
        if self.can_raise:
            return '%sExcept.ok %s\n' % (ind, vtxt)
        return '%s%s\n' % (ind, vtxt)
    ctx = Ctx(self, f_raise, f_ret)
    stmts = list(node.body)
    if self.start_at:
        rx, occ = (self.start_at, None) if isinstance(self.start_at, str) else self.start_at   # (regex, which occurrence)
        idx = [i for i, st in enumerate(stmts) if re.fullmatch(rx, ast.unparse(st), re.S)]
        if (occ is None and len(idx) != 1) or (occ is not None and not -len(idx) <= occ < len(idx)):
            raise Untranslatable('%s: start_at matches %d statements' % (self.spec['func'], len(idx)))
        stmts = stmts[idx[0 if occ is None else occ]:]                             # what comes before (I/O that fills the declared cells) is not translated
    if self.stop_at:
        idx = [i for i, st in enumerate(stmts) if re.fullmatch(self.stop_at, ast.unparse(st), re.S)]
        if len(idx) != 1:
            raise Untranslatable('%s: stop_at matches %d statements' % (self.spec['func'], len(idx)))
        stmts = stmts[:idx[0] + 1]
    body = self.block(stmts, env, ctx, '  ', lambda en, ind: ctx.ret(None, en, ind))
    rt = self.resolve(self.ret_ty)
    if rt[0] == 'u':
        raise Untranslatable('%s: the result type could not be determined' % self.spec['func'])
    rty = self.lty(rt)
    if self.can_raise:
        rty = '(Except Py.Err %s)' % rty
    if mu_keys:
        rty = mu_type() if (not self.can_raise and rt == UNIT) else '(%s × %s)' % (mu_type(), rty)
    self.extra_params.sort()
    extra = ''.join(' (%s : %s)' % (n, t) for n, t in self.extra_params)
    body = self.fill(body)
    head_params = self.fill(' '.join(params))
    extra = self.fill(extra)
    rty = self.fill(rty)
    tvs = ''
    for t, fl in self.tvars.items():
        if t in self.used_tvars:
            tvs += '{%s : Type} ' % t
            if 'deq' in str(fl if not isinstance(fl, dict) else fl.get('flags', '')):
                tvs += '[DecidableEq %s] ' % t
    self.known_extra = dict(py=dict(
        lean=self.spec.get('lean', self.spec['func']), params=sig_params, mutates=list(self.mutates), state=list(self.state),
        writes_world=self.writes_world, can_raise=self.can_raise, ret_ty=rt, mu=bool(mu_keys),
        extra_params=[(n, self.fill(t)) for n, t in self.extra_params], ret_alias=dict(self.ret_alias),
        property=bool(self.spec.get('property')),
        state_cells=[(k, self.pattrs[k][0]) for k in self.state],
        attr_cells={nm: k for k, (nm, _) in self.pattrs.items()},
        tvars_used=list(self.used_tvars)))
    return 'def %s %s%s%s : %s :=\n%s' % (self.spec.get('lean', self.spec['func']), tvs, head_params, extra, rty, body)


PyFn.translate = _translate
PyFn._translate_once = _translate_once
